@unit cw3math
@shim core.rs cw_utils.rs cw3deps.rs
@properties C03 C04
@strict

@include inc/cw3_proposal.vsi

// ===================================================================== C04 lemmas: exactness, rounding, monotonicity, soundness of early decisions
pub proof fn lemma_ceil_div(n: int, d: int)
    requires n >= 0, d > 0
    ensures (n + d - 1) / d == n / d + (if n % d > 0 { 1int } else { 0int })
{
    vstd::arithmetic::div_mod::lemma_fundamental_div_mod(n, d);
    vstd::arithmetic::div_mod::lemma_mod_bound(n, d);
    let q = n / d; let r = n % d;
    if r > 0 {
        assert(n + d - 1 == (q + 1) * d + (r - 1)) by (nonlinear_arith) requires n == d * q + r;
        vstd::arithmetic::div_mod::lemma_fundamental_div_mod_converse(n + d - 1, d, q + 1, r - 1);
    } else {
        assert(n + d - 1 == q * d + (d - 1)) by (nonlinear_arith) requires n == d * q + r, r == 0;
        vstd::arithmetic::div_mod::lemma_fundamental_div_mod_converse(n + d - 1, d, q, d - 1);
    }
}

/// decomposition: with X = w*a = 10^18*q + r, the library needs q + [r >= 10^9] votes and the exact formula q + [r > 0]
pub proof fn lemma_vn_decomp(w: int, a: int)
    requires 0 <= w, 0 <= a
    ensures
        vn(w, a) == (w * a) / D18() + (if (w * a) % D18() >= P9() { 1int } else { 0int }),
        need_exact(w, a) == (w * a) / D18() + (if (w * a) % D18() > 0 { 1int } else { 0int }),
{
    let x = w * a;
    assert(x >= 0) by (nonlinear_arith) requires x == w * a, w >= 0, a >= 0;
    let p = P9(); let d = D18();
    assert(d == p * p) by (nonlinear_arith) requires d == 1_000_000_000_000_000_000, p == 1_000_000_000;
    // f = (p*w*a)/d == x / p
    assert((p * w) * a == p * x) by (nonlinear_arith) requires x == w * a;
    assert(p * x >= 0) by (nonlinear_arith) requires x >= 0, p > 0;
    vstd::arithmetic::div_mod::lemma_div_denominator(p * x, p, p);
    vstd::arithmetic::div_mod::lemma_div_by_multiple(x, p);
    assert((p * x) / p == x) by { vstd::arithmetic::mul::lemma_mul_is_commutative(p, x); }
    let f = (p * x) / d;
    assert(f == x / p);
    // x = d*q + r ; r = p*r1 + r0
    let q = x / d; let r = x % d;
    vstd::arithmetic::div_mod::lemma_fundamental_div_mod(x, d);
    vstd::arithmetic::div_mod::lemma_mod_bound(x, d);
    let r1 = r / p; let r0 = r % p;
    vstd::arithmetic::div_mod::lemma_fundamental_div_mod(r, p);
    vstd::arithmetic::div_mod::lemma_mod_bound(r, p);
    assert(0 <= r1 < p) by (nonlinear_arith) requires r == p * r1 + r0, 0 <= r0 < p, 0 <= r < p * p, p > 0;
    assert(x == (p * q + r1) * p + r0) by (nonlinear_arith) requires x == d * q + r, r == p * r1 + r0, d == p * p;
    vstd::arithmetic::div_mod::lemma_fundamental_div_mod_converse(x, p, p * q + r1, r0);
    assert(f == p * q + r1);
    // vn = ceil(f / p)
    vstd::arithmetic::div_mod::lemma_div_pos_is_pos(x, d);
    assert(f >= 0) by (nonlinear_arith) requires f == p * q + r1, q >= 0, r1 >= 0, p > 0;
    lemma_ceil_div(f, p);
    assert(f == q * p + r1) by (nonlinear_arith) requires f == p * q + r1;
    vstd::arithmetic::div_mod::lemma_fundamental_div_mod_converse(f, p, q, r1);
    assert(vn(w, a) == q + (if r1 > 0 { 1int } else { 0int }));
    assert((r1 > 0) == (r >= p)) by (nonlinear_arith) requires r == p * r1 + r0, 0 <= r0 < p, r1 >= 0, p > 0;
    lemma_ceil_div(x, d);
}

// serves: C04
/// percentages with at most 9 decimal places are handled exactly: the library's requirement is ceil(w * p)
pub proof fn lemma_vn_exact(w: int, a: int)
    requires 0 <= w, 0 <= a, a % P9() == 0
    ensures vn(w, a) == need_exact(w, a)
{
    lemma_vn_decomp(w, a);
    let p = P9(); let d = D18(); let x = w * a;
    let b = a / p;
    vstd::arithmetic::div_mod::lemma_fundamental_div_mod(a, p);
    assert(x == p * (w * b)) by (nonlinear_arith) requires x == w * a, a == p * b;
    assert(x >= 0) by (nonlinear_arith) requires x == w * a, w >= 0, a >= 0;
    // r = x % d is a multiple of p, so r > 0 <==> r >= p
    let q = x / d; let r = x % d;
    vstd::arithmetic::div_mod::lemma_fundamental_div_mod(x, d);
    vstd::arithmetic::div_mod::lemma_mod_bound(x, d);
    assert(d == p * p) by (nonlinear_arith) requires d == 1_000_000_000_000_000_000, p == 1_000_000_000;
    assert(r == p * (w * b - p * q)) by (nonlinear_arith) requires x == d * q + r, x == p * (w * b), d == p * p;
    assert((r > 0) == (r >= p)) by (nonlinear_arith) requires r == p * (w * b - p * q), r >= 0, p > 0;
}

// serves: C04
/// with up to 18 decimal places the library is within one vote of the exact formula and never stricter than it
pub proof fn lemma_vn_bounds(w: int, a: int)
    requires 0 <= w, 0 <= a
    ensures need_exact(w, a) - 1 <= vn(w, a) <= need_exact(w, a)
{
    lemma_vn_decomp(w, a);
}

// serves: C04
pub proof fn lemma_vn_mono(w1: int, w2: int, a: int)
    requires 0 <= w1 <= w2, 0 <= a
    ensures vn(w1, a) <= vn(w2, a)
{
    let p = P9(); let d = D18();
    assert((p * w1) * a <= (p * w2) * a) by (nonlinear_arith) requires 0 <= w1 <= w2, a >= 0, p > 0;
    vstd::arithmetic::div_mod::lemma_div_is_ordered((p * w1) * a, (p * w2) * a, d);
    vstd::arithmetic::div_mod::lemma_div_is_ordered(((p * w1) * a) / d + p - 1, ((p * w2) * a) / d + p - 1, p);
}

// serves: C04
/// the requirement for p and the requirement for 1-p together cover the whole weight
pub proof fn lemma_vn_complement(w: int, a: int)
    requires 0 <= w, 0 <= a <= D18()
    ensures vn(w, a) + vn(w, D18() - a) >= w
{
    let p = P9(); let d = D18();
    lemma_vn_decomp(w, a);
    lemma_vn_decomp(w, d - a);
    let x = w * a; let y = w * (d - a);
    assert(x + y == d * w) by (nonlinear_arith) requires x == w * a, y == w * (d - a);
    assert(x >= 0 && y >= 0) by (nonlinear_arith) requires x == w * a, y == w * (d - a), w >= 0, 0 <= a <= d;
    vstd::arithmetic::div_mod::lemma_fundamental_div_mod(x, d);
    vstd::arithmetic::div_mod::lemma_fundamental_div_mod(y, d);
    vstd::arithmetic::div_mod::lemma_mod_bound(x, d);
    vstd::arithmetic::div_mod::lemma_mod_bound(y, d);
    let qx = x / d; let rx = x % d; let qy = y / d; let ry = y % d;
    // rx + ry is a multiple of d below 2d: 0 or d
    assert(rx + ry == d * (w - qx - qy)) by (nonlinear_arith) requires x == d * qx + rx, y == d * qy + ry, x + y == d * w;
    assert(rx + ry == 0 || rx + ry == d) by (nonlinear_arith) requires rx + ry == d * (w - qx - qy), 0 <= rx < d, 0 <= ry < d, d > 0;
    if rx + ry == 0 {
        assert(qx + qy == w) by (nonlinear_arith) requires rx + ry == d * (w - qx - qy), rx + ry == 0, d > 0;
    } else {
        assert(qx + qy == w - 1) by (nonlinear_arith) requires rx + ry == d * (w - qx - qy), rx + ry == d, d > 0;
        // one of the two remainders is at least d/2 >= p
        assert(rx >= p || ry >= p) by (nonlinear_arith) requires rx + ry == d, d == 1_000_000_000_000_000_000, p == 1_000_000_000;
    }
}

/// a completion of the outstanding votes: every counter may only grow, within the total weight
pub open spec fn completes(p: Proposal, q: Proposal) -> bool {
    q.threshold == p.threshold && q.total_weight == p.total_weight
    && q.votes.yes >= p.votes.yes && q.votes.no >= p.votes.no && q.votes.abstain >= p.votes.abstain && q.votes.veto >= p.votes.veto
    && tally(q.votes) <= q.total_weight
}

// serves: C04 C03
/// a tally is never reported both passed and rejected
pub proof fn lemma_not_both(p: Proposal, expired: bool)
    requires prop_wf(p)
    ensures !(spec_passed(p, expired) && spec_rejected(p, expired))
{
    match p.threshold {
        Threshold::AbsoluteCount { weight } => {}
        Threshold::AbsolutePercentage { percentage } => { lemma_vn_complement(p.total_weight - p.votes.abstain, percentage.0 as int); }
        Threshold::ThresholdQuorum { threshold, quorum } => {
            lemma_vn_complement(p.total_weight - p.votes.abstain, threshold.0 as int);
            lemma_vn_complement(tally(p.votes) - p.votes.abstain, threshold.0 as int);
        }
    }
}

// serves: C04 C03
/// Passed before expiry is reported only if every completion of the outstanding votes still passes at expiry
pub proof fn lemma_passed_early_sound(p: Proposal, q: Proposal)
    requires prop_wf(p), completes(p, q), spec_passed(p, false)
    ensures spec_passed(q, true), spec_passed(q, false)
{
    match p.threshold {
        Threshold::AbsoluteCount { weight } => {}
        Threshold::AbsolutePercentage { percentage } => {
            lemma_vn_mono(q.total_weight - q.votes.abstain, p.total_weight - p.votes.abstain, percentage.0 as int);
        }
        Threshold::ThresholdQuorum { threshold, quorum } => {
            lemma_vn_mono(tally(q.votes) - q.votes.abstain, p.total_weight - p.votes.abstain, threshold.0 as int);
            lemma_vn_mono(q.total_weight - q.votes.abstain, p.total_weight - p.votes.abstain, threshold.0 as int);
        }
    }
}

// serves: C04 C03
/// Rejected before expiry is reported only if no completion of the outstanding votes can pass
pub proof fn lemma_rejected_early_sound(p: Proposal, q: Proposal)
    requires prop_wf(p), completes(p, q), spec_rejected(p, false)
    ensures !spec_passed(q, true), !spec_passed(q, false)
{
    match p.threshold {
        Threshold::AbsoluteCount { weight } => {}
        Threshold::AbsolutePercentage { percentage } => {
            let w = p.total_weight - p.votes.abstain; let w2 = q.total_weight - q.votes.abstain;
            lemma_vn_complement(w2, percentage.0 as int);
            lemma_vn_mono(w2, w, D18() - percentage.0);
        }
        Threshold::ThresholdQuorum { threshold, quorum } => {
            let w = p.total_weight - p.votes.abstain;
            let w2 = q.total_weight - q.votes.abstain; let w3 = tally(q.votes) - q.votes.abstain;
            lemma_vn_complement(w2, threshold.0 as int); lemma_vn_complement(w3, threshold.0 as int);
            lemma_vn_mono(w2, w, D18() - threshold.0); lemma_vn_mono(w3, w, D18() - threshold.0);
        }
    }
}

// serves: C04
/// after expiry the decision is the documented formula in exact arithmetic (for percentages with up to 9 decimal places)
pub proof fn lemma_expired_decision_is_documented(p: Proposal)
    requires prop_wf(p),
        match p.threshold {
            Threshold::AbsoluteCount { weight } => true,
            Threshold::AbsolutePercentage { percentage } => percentage.0 % 1_000_000_000 == 0,
            Threshold::ThresholdQuorum { threshold, quorum } => threshold.0 % 1_000_000_000 == 0 && quorum.0 % 1_000_000_000 == 0,
        }
    ensures spec_passed(p, true) == (p.votes.yes > 0 && match p.threshold {
            Threshold::AbsoluteCount { weight } => p.votes.yes >= weight,
            Threshold::AbsolutePercentage { percentage } => p.votes.yes >= need_exact(p.total_weight - p.votes.abstain, percentage.0 as int),
            Threshold::ThresholdQuorum { threshold, quorum } => tally(p.votes) >= need_exact(p.total_weight as int, quorum.0 as int)
                && p.votes.yes >= need_exact(tally(p.votes) - p.votes.abstain, threshold.0 as int),
        })
{
    match p.threshold {
        Threshold::AbsoluteCount { weight } => {}
        Threshold::AbsolutePercentage { percentage } => { lemma_vn_exact(p.total_weight - p.votes.abstain, percentage.0 as int); }
        Threshold::ThresholdQuorum { threshold, quorum } => {
            lemma_vn_exact(p.total_weight as int, quorum.0 as int);
            lemma_vn_exact(tally(p.votes) - p.votes.abstain, threshold.0 as int);
        }
    }
}
