@unit cw3math
@shim core.rs cw_utils.rs std_more.rs cw3deps.rs
@properties C03 C04
@strict

@include inc/cw3_proposal.vsi

@include inc/cw3_lemmas.vsi
