@unit cw1whitelist
@shim core.rs cw_utils.rs std_more.rs cw2.rs std_adapters.rs
@properties C07 C16 C17

@include inc/cw1_whitelist.vsi

@enum contracts/cw1-whitelist/src/msg.rs ExecuteMsg [noderive]
@fn contracts/cw1-whitelist/src/contract.rs can_execute
@ensures C16.can_execute_exact C07
    r is Ok <==> admin_list(deps.storage.view()) is Some,
    r is Ok ==> r->Ok_0 == is_admin_of(deps.storage.view(), sender@)
@end

@fn contracts/cw1-whitelist/src/contract.rs query_can_execute
@ensures C16.query_can_execute_exact
    r is Ok <==> admin_list(deps.storage.view()) is Some,
    r is Ok ==> r->Ok_0.can_execute == is_admin_of(deps.storage.view(), sender@)
@end

@fn contracts/cw1-whitelist/src/contract.rs execute_execute
@ensures C07.execute_only_admin C16
    r is Ok <==> is_admin_of(old(deps.storage).view(), info.sender@)
@ensures C07.execute_relays_exactly
    r is Ok ==> r->Ok_0.messages@ == submsgs_of(msgs@)
@ensures C17.execute_frame C07
    final(deps.storage).view() == old(deps.storage).view()
@end

pub open spec fn step_msg(s: Raw, t: Raw, sender: Seq<char>, msg: ExecuteMsg<Empty>) -> bool {
    match msg {
        ExecuteMsg::Execute { msgs } => is_admin_of(s, sender) && t == s,
        ExecuteMsg::Freeze {} => admin_list(s) is Some && admin_list(s)->Some_0.mutable && listed(admin_list(s)->Some_0.admins@, sender)
            && t == s.insert(al_key(), (AdminList { admins: admin_list(s)->Some_0.admins, mutable: false }).ser()),
        ExecuteMsg::UpdateAdmins { admins } => admin_list(s) is Some && admin_list(s)->Some_0.mutable && listed(admin_list(s)->Some_0.admins@, sender)
            && admin_list(t) is Some && admin_list(t)->Some_0.mutable && t == s.insert(al_key(), admin_list(t)->Some_0.ser())
            && admin_list(t)->Some_0.admins@.len() == admins@.len()
            && (forall|i: int| 0 <= i < admins@.len() ==> (#[trigger] admin_list(t)->Some_0.admins@[i])@ == admins@[i]@),
    }
}
@fn contracts/cw1-whitelist/src/contract.rs execute
@ensures C17.execute_step C07
    r is Ok ==> step_msg(old(deps.storage).view(), final(deps.storage).view(), info.sender@, msg)
@ensures C07.execute_relay
    r is Ok ==> (match msg { ExecuteMsg::Execute { msgs } => r->Ok_0.messages@ == submsgs_of(msgs@), _ => r->Ok_0.messages@.len() == 0 })
@end

// ===================================================================== lemmas
// serves: C16
/// CanExecute answers true exactly when Execute by that sender carrying just that message succeeds (on the same state)
pub proof fn lemma_c16_whitelist(s: Raw, sender: Seq<char>, can: StdResult<CanExecuteResponse>, exec_ok: bool)
    requires
        // the two verified contracts above, on the same state
        (can is Ok <==> admin_list(s) is Some), can is Ok ==> can->Ok_0.can_execute == is_admin_of(s, sender),
        exec_ok <==> is_admin_of(s, sender),
    ensures can is Ok ==> (can->Ok_0.can_execute <==> exec_ok)
{
}

pub struct Call { pub sender: Seq<char>, pub msg: ExecuteMsg<Empty>, pub ok: bool }
pub open spec fn step_at(st: Seq<Raw>, calls: Seq<Call>, i: int) -> bool {
    if calls[i].ok { step_msg(st[i], st[i + 1], calls[i].sender, calls[i].msg) } else { st[i + 1] == st[i] }
}
pub open spec fn history(st: Seq<Raw>, calls: Seq<Call>) -> bool {
    st.len() == calls.len() + 1 && admin_list(st[0]) is Some && forall|i: int| 0 <= i < calls.len() ==> #[trigger] step_at(st, calls, i)
}
// serves: C17
/// per step: the admin list changes only by UpdateAdmins / Freeze from a listed admin while mutable
pub proof fn lemma_c17_step(s: Raw, t: Raw, sender: Seq<char>, msg: ExecuteMsg<Empty>)
    requires admin_list(s) is Some, step_msg(s, t, sender, msg)
    ensures admin_list(t) is Some,
        admin_list(t) != admin_list(s) ==> (msg is UpdateAdmins || msg is Freeze) && admin_list(s)->Some_0.mutable && listed(admin_list(s)->Some_0.admins@, sender),
        !admin_list(s)->Some_0.mutable ==> admin_list(t) == admin_list(s),
{
    broadcast use ax_ser;
}
// serves: C17
/// over any history: once frozen (or instantiated immutable) the list and the flag never change again
pub proof fn lemma_c17_frozen_forever(st: Seq<Raw>, calls: Seq<Call>, i: int, j: int)
    requires history(st, calls), 0 <= i <= j <= calls.len()
    ensures admin_list(st[j]) is Some,
        admin_list(st[i]) is Some && !admin_list(st[i])->Some_0.mutable ==> admin_list(st[j]) == admin_list(st[i]),
    decreases j
{
    if j > 0 {
        lemma_c17_frozen_forever(st, calls, 0, j - 1);
        assert(step_at(st, calls, j - 1));
        if calls[j - 1].ok { lemma_c17_step(st[j - 1], st[j], calls[j - 1].sender, calls[j - 1].msg); }
        if i < j { lemma_c17_frozen_forever(st, calls, i, j - 1); }
    }
}

// ===================================================================== the query entry point routes every message to its query function
@enum contracts/cw1-whitelist/src/msg.rs QueryMsg [noderive]
impl JsonT for AdminListResponse { uninterp spec fn json(self) -> Seq<u8>; uninterp spec fn unjson(b: Seq<u8>) -> Option<Self>; }
impl JsonT for CanExecuteResponse { uninterp spec fn json(self) -> Seq<u8>; uninterp spec fn unjson(b: Seq<u8>) -> Option<Self>; }
@fn contracts/cw1-whitelist/src/contract.rs query
@ensures C16.query_routes C07 C17
    r is Ok ==> match msg {
        QueryMsg::AdminList {} => exists|x: AdminListResponse| r->Ok_0@ == x.json() && call_ensures(query_admin_list, (deps,), Ok::<AdminListResponse, StdError>(x)),
        QueryMsg::CanExecute { sender, msg } => exists|x: CanExecuteResponse| r->Ok_0@ == x.json() && call_ensures(query_can_execute, (deps, sender, msg), Ok::<CanExecuteResponse, StdError>(x)),
    }
@end
