@unit cw4group
@shim core.rs cw_utils.rs std_more.rs cw3deps.rs cw2.rs std_adapters.rs snapshot.rs cw_controllers.rs range.rs snapshot_range.rs
@properties C09 C14 C20 C06

// ===================================================================== data and state
@struct packages/cw4/src/query.rs Member
@struct packages/cw4/src/query.rs MemberResponse
@struct packages/cw4/src/query.rs TotalWeightResponse
@struct packages/cw4/src/hook.rs MemberDiff
@struct packages/cw4/src/hook.rs MemberChangedHookMsg
@enum packages/cw4/src/hook.rs MemberChangedExecuteMsg [pub]
impl JsonT for MemberChangedExecuteMsg { uninterp spec fn json(self) -> Seq<u8>; uninterp spec fn unjson(b: Seq<u8>) -> Option<Self>; }
@const packages/cw4/src/query.rs TOTAL_KEY
@const packages/cw4/src/query.rs TOTAL_KEY_CHECKPOINTS
@const packages/cw4/src/query.rs TOTAL_KEY_CHANGELOG
@const packages/cw4/src/query.rs MEMBERS_KEY
@const packages/cw4/src/query.rs MEMBERS_CHECKPOINTS
@const packages/cw4/src/query.rs MEMBERS_CHANGELOG
@struct contracts/cw4-group/src/msg.rs InstantiateMsg
@enum contracts/cw4-group/src/msg.rs ExecuteMsg
@enum contracts/cw4-group/src/error.rs ContractError
@const contracts/cw4-group/src/contract.rs CONTRACT_NAME
@const contracts/cw4-group/src/contract.rs CONTRACT_VERSION
@const contracts/cw4-group/src/state.rs ADMIN
@const contracts/cw4-group/src/state.rs HOOKS
@const contracts/cw4-group/src/state.rs TOTAL [exec; ensures: TOTAL.ns@ == "total"@, TOTAL.cl@ == "total__changelog"@]
@const contracts/cw4-group/src/state.rs MEMBERS [exec; ensures: MEMBERS.ns@ == "members"@, MEMBERS.cl@ == "members__changelog"@]

pub open spec fn mkey(a: Seq<char>) -> Seq<u8> { path("members"@, utf8(a)) }
pub open spec fn tkey() -> Seq<u8> { item_key("total"@) }
pub open spec fn member_of(s: Raw, a: Seq<char>) -> Option<u64> { raw_get::<u64>(s, mkey(a)) }
pub open spec fn total_of(s: Raw) -> Option<u64> { raw_get::<u64>(s, tkey()) }
pub open spec fn in_ns(k: Seq<u8>, ns: Seq<char>) -> bool { unpath(k).0 == ns && k == path(ns, unpath(k).1) }
pub open spec fn u64val(v: Seq<u8>) -> nat { match u64_de(v) { Some(x) => x as nat, None => 0 } }
pub open spec fn w_members() -> spec_fn(Seq<u8>, Seq<u8>) -> nat {
    |k: Seq<u8>, v: Seq<u8>| if in_ns(k, "members"@) { u64val(v) } else { 0nat }
}
/// sum of the weights of all listed members
pub open spec fn msum(s: Raw) -> nat { sum_w(s, w_members()) }
/// C09 invariant: the reported total weight equals the sum of the weights of the listed members
pub open spec fn inv(s: Raw) -> bool { total_of(s) is Some && total_of(s)->Some_0 == msum(s) }

pub broadcast group cw4_axioms { ax_path, ax_utf8, ax_u64_ser, ax_u64_kb, ax_ser, ax_pair_kb, lemma_sum_insert, lemma_sum_remove_b, addr_ext }
pub proof fn lemma_ns4()
    ensures "members"@ != "total"@, "members"@ != "members__changelog"@, "members"@ != "total__changelog"@, "members"@ != "admin"@, "members"@ != "cw4-hooks"@, "members"@ != "contract_info"@,
        "total"@ != "members__changelog"@, "total"@ != "total__changelog"@, "total"@ != "admin"@, "total"@ != "cw4-hooks"@, "total"@ != "contract_info"@,
        "members__changelog"@ != "total__changelog"@, "members__changelog"@ != "admin"@, "members__changelog"@ != "cw4-hooks"@, "members__changelog"@ != "contract_info"@,
        "total__changelog"@ != "admin"@, "total__changelog"@ != "cw4-hooks"@, "total__changelog"@ != "contract_info"@,
        "admin"@ != "cw4-hooks"@, "admin"@ != "contract_info"@, "cw4-hooks"@ != "contract_info"@,
{
    reveal_strlit("members"); reveal_strlit("total"); reveal_strlit("members__changelog"); reveal_strlit("total__changelog");
    reveal_strlit("admin"); reveal_strlit("cw4-hooks"); reveal_strlit("contract_info");
    assert("members"@.len() == 7); assert("total"@.len() == 5); assert("members__changelog"@.len() == 18); assert("total__changelog"@.len() == 16);
    assert("admin"@.len() == 5); assert("cw4-hooks"@.len() == 9); assert("contract_info"@.len() == 13);
    assert("total"@[0] == 't'); assert("admin"@[0] == 'a');
}

/// a member write at height h: change-log step, then the primary entry
pub open spec fn member_set(s: Raw, a: Seq<char>, w: u64, h: u64) -> Raw {
    logged::<u64>(s, "members"@, "members__changelog"@, utf8(a), h).insert(mkey(a), u64_ser(w))
}
pub open spec fn member_del(s: Raw, a: Seq<char>, h: u64) -> Raw {
    logged::<u64>(s, "members"@, "members__changelog"@, utf8(a), h).remove(mkey(a))
}
pub open spec fn total_set(s: Raw, w: u64, h: u64) -> Raw {
    logged::<u64>(s, "total"@, "total__changelog"@, Seq::<u8>::empty(), h).insert(tkey(), u64_ser(w))
}
pub open spec fn mval(s: Raw, a: Seq<char>) -> nat { match member_of(s, a) { Some(w) => w as nat, None => 0 } }

pub proof fn lemma_member_set(s: Raw, a: Seq<char>, w: u64, h: u64)
    ensures msum(member_set(s, a, w, h)) + (if s.contains_key(mkey(a)) { u64val(s[mkey(a)]) } else { 0nat }) == msum(s) + w,
        msum(member_del(s, a, h)) + (if s.contains_key(mkey(a)) { u64val(s[mkey(a)]) } else { 0nat }) == msum(s),
        member_of(member_set(s, a, w, h), a) == Some(w), member_of(member_del(s, a, h), a) is None,
        forall|x: Seq<char>| x != a ==> member_of(member_set(s, a, w, h), x) == member_of(s, x) && member_of(member_del(s, a, h), x) == member_of(s, x),
        total_of(member_set(s, a, w, h)) == total_of(s), total_of(member_del(s, a, h)) == total_of(s),
{
    broadcast use cw4_axioms;
    lemma_ns4();
    let ck = cl_key("members__changelog"@, utf8(a), h);
    assert(unpath(ck).0 == "members__changelog"@);
    assert(unpath(ck) != unpath(mkey(a)) && unpath(ck) != unpath(tkey()) && unpath(tkey()) != unpath(mkey(a)));
    assert forall|x: Seq<char>| x != a implies member_of(member_set(s, a, w, h), x) == member_of(s, x) && member_of(member_del(s, a, h), x) == member_of(s, x) by {
        assert(unutf8(utf8(x)) != unutf8(utf8(a)));
        assert(unpath(mkey(x)) != unpath(mkey(a)) && unpath(mkey(x)) != unpath(ck));
    }
}
pub proof fn lemma_total_set(s: Raw, w: u64, h: u64)
    ensures msum(total_set(s, w, h)) == msum(s), total_of(total_set(s, w, h)) == Some(w),
        forall|x: Seq<char>| member_of(total_set(s, w, h), x) == member_of(s, x),
{
    broadcast use cw4_axioms;
    lemma_ns4();
    let ck = cl_key("total__changelog"@, Seq::<u8>::empty(), h);
    assert(unpath(ck).0 == "total__changelog"@);
    assert(unpath(ck) != unpath(tkey()));
    assert forall|x: Seq<char>| member_of(total_set(s, w, h), x) == member_of(s, x) by {
        assert(unpath(mkey(x)) != unpath(tkey()) && unpath(mkey(x)) != unpath(ck));
    }
}
/// one member's weight never exceeds the sum
pub proof fn lemma_member_le_sum(s: Raw, a: Seq<char>)
    ensures mval(s, a) <= msum(s)
{
    broadcast use cw4_axioms;
    if s.contains_key(mkey(a)) { lemma_sum_ge_one(s, w_members(), mkey(a)); }
}

/// two states that agree everywhere except at a key outside the members / total namespaces
pub proof fn lemma_same_but(s: Raw, t: Raw, k: Seq<u8>)
    requires same_but(s, t, k), unpath(k).0 != "members"@, k != tkey()
    ensures msum(t) == msum(s), total_of(t) == total_of(s), forall|x: Seq<char>| member_of(t, x) == member_of(s, x)
{
    broadcast use cw4_axioms;
    if t.contains_key(k) {
        let t2 = s.insert(k, t[k]);
        assert forall|k2: Seq<u8>| t.contains_key(k2) == t2.contains_key(k2) by { if k2 != k { assert(kv(s, k2) == kv(t, k2)); } }
        assert forall|k2: Seq<u8>| t.contains_key(k2) implies t[k2] == t2[k2] by { if k2 != k { assert(kv(s, k2) == kv(t, k2)); } }
        assert(t.dom() =~= t2.dom());
        assert(t =~= t2);
    } else {
        let t2 = s.remove(k);
        assert forall|k2: Seq<u8>| t.contains_key(k2) == t2.contains_key(k2) by { if k2 != k { assert(kv(s, k2) == kv(t, k2)); } }
        assert forall|k2: Seq<u8>| t.contains_key(k2) implies t[k2] == t2[k2] by { if k2 != k { assert(kv(s, k2) == kv(t, k2)); } }
        assert(t.dom() =~= t2.dom());
        assert(t =~= t2);
    }
    assert(kv(s, tkey()) == kv(t, tkey()));
    assert forall|x: Seq<char>| member_of(t, x) == member_of(s, x) by { assert(unpath(mkey(x)).0 == "members"@); assert(kv(s, mkey(x)) == kv(t, mkey(x))); }
}

// ===================================================================== functions under contract
pub open spec fn distinct_members(m: Seq<Member>) -> bool { forall|i: int, j: int| 0 <= i < j < m.len() ==> m[i].addr@ != m[j].addr@ }

// sort_by and the zip over neighbours go through E11 to shim functions carrying the ASSUMED std semantics (permutation, sorted,
// neighbouring pairs); the body of validate_unique_members itself is verified (the thorough tier also runs a bounded Kani harness)
@fn contracts/cw4-group/src/helpers.rs validate_unique_members [closures: 1; loops: 1]
@ensures C09.validate_unique_members C14 C06
    r is Ok ==> distinct_members(final(members)@) && final(members)@.len() == old(members)@.len()
        && exists|p: Seq<int>| is_perm(p, old(members)@.len() as int) && forall|i: int| 0 <= i < final(members)@.len() ==> #[trigger] final(members)@[i] == old(members)@[p[i]]
@adapter sort_by 1
@closure_types 1
    a: &Member
    b: &Member
@closure 1 C09.validate_unique_members_cmp
    (res: core::cmp::Ordering)
    ensures res == str_cmp(a.addr@, b.addr@)
@replace E11 "members.iter().zip(members.iter().skip(1))" 1
    adjacent_pairs(members)
@loop 1 C09.validate_unique_members_scan
    invariant
        forall|i: int| 0 <= i < it.index@ ==> (#[trigger] members@[i]).addr@ != members@[i + 1].addr@,
@insert_before "for (a, b) in" 1
    let ghost sorted = members@;
    proof {
        broadcast use ax_str_le_antisym, ax_str_le_trans, ax_str_le_total;
        assert forall|i: int, j: int| 0 <= i <= j < sorted.len() implies str_le(#[trigger] sorted[i].addr@, #[trigger] sorted[j].addr@) by {
            // sort_cmp(closure)(x, y) is what the closure returns: str_cmp of the two addresses
            assert(str_cmp(sorted[i].addr@, sorted[j].addr@) != core::cmp::Ordering::Greater);
        }
    }
@insert_before "Ok(())" 1
    proof {
        broadcast use ax_str_le_antisym, ax_str_le_trans, ax_str_le_total;
        // sorted by address and no two neighbours equal: pairwise distinct
        assert forall|i: int, j: int| 0 <= i < j < members@.len() implies (#[trigger] members@[i]).addr@ != (#[trigger] members@[j]).addr@ by {
            if members@[i].addr@ == members@[j].addr@ {
                assert(str_le(members@[i].addr@, members@[i + 1].addr@) && str_le(members@[i + 1].addr@, members@[j].addr@));
                assert(members@[i].addr@ != members@[i + 1].addr@);
            }
        }
    }
@end

@include inc/cw4_hooks.vsi

pub open spec fn wsum(m: Seq<Member>, n: int) -> nat decreases n { if n <= 0 { 0 } else { wsum(m, n - 1) + m[n - 1].weight as nat } }
pub open spec fn only_members_keys(s: Raw, m: Seq<Member>, n: int) -> bool {
    forall|k: Seq<u8>| s.contains_key(k) && in_ns(k, "members"@) ==> exists|j: int| 0 <= j < n && k == mkey(m[j].addr@)
}

@fn contracts/cw4-group/src/contract.rs create [loops: 1; closures: 1]
@requires
    forall|k: Seq<u8>| old(deps.storage).view().contains_key(k) ==> k == cw2_key()
@ensures C09.create_total_is_sum C14 C06
    r is Ok ==> inv(final(deps.storage).view())
@ensures C14.create_admin
    r is Ok ==> admin_of(final(deps.storage).view(), "admin"@) is Some
        && (admin is None ==> admin_of(final(deps.storage).view(), "admin"@)->Some_0 is None)
        && (admin is Some ==> admin_of(final(deps.storage).view(), "admin"@)->Some_0 is Some && admin_of(final(deps.storage).view(), "admin"@)->Some_0->Some_0@ == admin->Some_0@)
@ensures C09.create_members_as_given C06
    r is Ok ==> forall|j: int| 0 <= j < members@.len() ==> member_of(final(deps.storage).view(), (#[trigger] members@[j]).addr@) == Some(members@[j].weight)
@closure 1 C14.create_admin_validate
    (res: StdResult<Addr>)
    ensures res is Ok ==> res->Ok_0@ == admin@
@loop 1 C09.create_loop
    invariant
        it.index@ <= members@.len(),
        distinct_members(members@),
        forall|j: int| 0 <= j < it.index@ ==> member_of(deps.storage.view(), (#[trigger] members@[j]).addr@) == Some(members@[j].weight),
        is_perm(perm, orig.len() as int), members@.len() == orig.len(), forall|i: int| 0 <= i < members@.len() ==> #[trigger] members@[i] == orig[perm[i]],
        total.0 == wsum(members@, it.index@ as int),
        msum(deps.storage.view()) == wsum(members@, it.index@ as int),
        only_members_keys(deps.storage.view(), members@, it.index@ as int),
        admin_of(deps.storage.view(), "admin"@) == Some(admin_addr),
        !deps.storage.view().contains_key(tkey()),
@prefix
    broadcast use cw4_axioms;
    proof { lemma_ns4(); }
    let ghost orig = members@;
    let ghost mut perm: Seq<int> = Seq::empty();
@insert_before "let members = members;" 1
    proof {
        perm = choose|p: Seq<int>| is_perm(p, orig.len() as int) && forall|i: int| 0 <= i < members@.len() ==> #[trigger] members@[i] == orig[p[i]];
    }
@insert_before "~Uint64::zero()" 1
    proof {
        let s1 = deps.storage.view();
        assert forall|k: Seq<u8>| s1.contains_key(k) implies !in_ns(k, "members"@) by {
            assert(unpath(cw2_key()).0 == "contract_info"@ && unpath(item_key("admin"@)).0 == "admin"@);
        }
        lemma_sum_zero(s1, w_members());
        assert(!s1.contains_key(tkey())) by { assert(unpath(tkey()).0 == "total"@); }
    }
@loop_begin 1
    let ghost pre = deps.storage.view();
    let ghost idx = it.index@ as int;
@loop_end 1
    proof {
        broadcast use cw4_axioms;
        lemma_ns4();
        let a = member_addr@;
        assert(a == members@[idx].addr@);
        lemma_member_set(pre, a, member_weight.0, height);
        assert(!pre.contains_key(mkey(a))) by {
            if pre.contains_key(mkey(a)) {
                assert(in_ns(mkey(a), "members"@));
                let j = choose|j: int| 0 <= j < idx && mkey(a) == mkey(members@[j].addr@);
                assert(unpath(mkey(a)) == unpath(mkey(members@[j].addr@)));
                assert(unutf8(utf8(a)) == unutf8(utf8(members@[j].addr@)));
            }
        }
        let post = deps.storage.view();
        assert(post == member_set(pre, a, member_weight.0, height));
        let ck = cl_key("members__changelog"@, utf8(a), height);
        assert(unpath(ck).0 == "members__changelog"@);
        assert forall|k: Seq<u8>| post.contains_key(k) && in_ns(k, "members"@) implies exists|j: int| 0 <= j < idx + 1 && k == mkey(members@[j].addr@) by {
            if k == mkey(a) { assert(k == mkey(members@[idx].addr@)); }
            else {
                assert(k != ck);
                assert(pre.contains_key(k));
                let j = choose|j: int| 0 <= j < idx && k == mkey(members@[j].addr@);
                assert(0 <= j < idx + 1 && k == mkey(members@[j].addr@));
            }
        }
        assert(unpath(item_key("admin"@)) != unpath(mkey(a)) && unpath(item_key("admin"@)) != unpath(ck));
        assert(unpath(tkey()) != unpath(mkey(a)) && unpath(tkey()) != unpath(ck));
        assert forall|j: int| 0 <= j <= idx implies member_of(post, (#[trigger] members@[j]).addr@) == Some(members@[j].weight) by {
            if j < idx { assert(members@[j].addr@ != members@[idx].addr@); }
        }
    }
@insert_before "TOTAL.save(deps.storage, &total.u64(), height)?;" 1
    proof { lemma_total_set(deps.storage.view(), total.0, height); }
@insert_before "Ok(())" 1
    proof {
        let t = deps.storage.view();
        assert forall|j: int| 0 <= j < orig.len() implies member_of(t, (#[trigger] orig[j]).addr@) == Some(orig[j].weight) by {
            assert(perm_hits(perm, orig.len() as int, j));
            let i = choose|i: int| 0 <= i < orig.len() && #[trigger] perm[i] == j;
            assert(members@[i] == orig[j]);
        }
    }
@end

// --------------------------------------------------------------------- update_members (C09 total, C14 truthful diffs)
/// one membership write and the diff entry that reports it: true previous and new weight of exactly that address
pub open spec fn diff_step(s: Raw, t: Raw, d: MemberDiff, h: u64) -> bool {
    d.old == member_of(s, d.key@) && d.new == member_of(t, d.key@)
    && match d.new { Some(w) => t == member_set(s, d.key@, w, h), None => t == member_del(s, d.key@, h) }
}
/// the diffs, in order, are exactly the writes that lead from the first to the last state
pub open spec fn diff_chain(st: Seq<Raw>, diffs: Seq<MemberDiff>, h: u64) -> bool {
    st.len() == diffs.len() + 1 && forall|j: int| 0 <= j < diffs.len() ==> #[trigger] diff_step(st[j], st[j + 1], diffs[j], h)
}
pub open spec fn step_update_members(s: Raw, t: Raw, sender: Seq<char>, h: u64, diffs: Seq<MemberDiff>) -> bool {
    is_admin_addr(s, "admin"@, sender)
    && exists|st: Seq<Raw>| #![auto] diff_chain(st, diffs, h) && st[0] == s && total_of(t) is Some && t == total_set(st.last(), total_of(t)->Some_0, h)
}

@fn contracts/cw4-group/src/contract.rs update_members [loops: 2; closures: 1]
@requires
    inv(old(deps.storage).view())
@ensures C14.update_members_admin_and_truthful_diffs C09 C06
    r is Ok ==> step_update_members(old(deps.storage).view(), final(deps.storage).view(), sender@, height, r->Ok_0.diffs@)
@ensures C09.update_members_total_is_sum C14 C06
    r is Ok ==> inv(final(deps.storage).view())
@ensures C09.update_members_removed_are_gone C06
    r is Ok ==> forall|j: int| 0 <= j < to_remove@.len() ==> member_of(final(deps.storage).view(), (#[trigger] to_remove@[j])@) is None
@ensures C14.update_members_frame
    r is Ok ==> admin_of(final(deps.storage).view(), "admin"@) == admin_of(old(deps.storage).view(), "admin"@)
        && hooks_of(final(deps.storage).view(), "cw4-hooks"@) == hooks_of(old(deps.storage).view(), "cw4-hooks"@)
@inline_snapshot_update 1
@loop 1 C09.update_members_add_loop
    invariant
        it.index@ <= to_add@.len(), distinct_members(to_add@),
        // every member added so far is listed with exactly the requested weight
        forall|j: int| 0 <= j < it.index@ ==> member_of(deps.storage.view(), (#[trigger] to_add@[j]).addr@) == Some(to_add@[j].weight),
        total.0 == msum(deps.storage.view()),
        diff_chain(states, diffs@, height), states[0] == old(deps.storage).view(), states.last() == deps.storage.view(),
        is_admin_addr(old(deps.storage).view(), "admin"@, sender@),
        admin_of(deps.storage.view(), "admin"@) == admin_of(old(deps.storage).view(), "admin"@),
        hooks_of(deps.storage.view(), "cw4-hooks"@) == hooks_of(old(deps.storage).view(), "cw4-hooks"@),
@loop 2 C09.update_members_remove_loop
    invariant
        it.index@ <= to_remove@.len(),
        forall|j: int| 0 <= j < it.index@ ==> member_of(deps.storage.view(), (#[trigger] to_remove@[j])@) is None,
        total.0 == msum(deps.storage.view()),
        diff_chain(states, diffs@, height), states[0] == old(deps.storage).view(), states.last() == deps.storage.view(),
        is_admin_addr(old(deps.storage).view(), "admin"@, sender@),
        admin_of(deps.storage.view(), "admin"@) == admin_of(old(deps.storage).view(), "admin"@),
        hooks_of(deps.storage.view(), "cw4-hooks"@) == hooks_of(old(deps.storage).view(), "cw4-hooks"@),
@prefix
    broadcast use cw4_axioms, string_conv;
    proof { lemma_ns4(); }
@insert_before "for add in to_add.into_iter()" 1
    let ghost mut states: Seq<Raw> = seq![deps.storage.view()];
@loop_begin 1
    broadcast use cw4_axioms, string_conv;
    let ghost pre = deps.storage.view();
    let ghost idx1 = it.index@ as int;
    let ghost add0 = add;
@loop_end 1
    proof {
        broadcast use cw4_axioms, string_conv;
        lemma_ns4();
        let post = deps.storage.view();
        let a = add_addr@;
        lemma_member_set(pre, a, add.weight, height);
        assert(add0 == to_add@[idx1]);
        assert forall|j: int| 0 <= j <= idx1 implies member_of(post, (#[trigger] to_add@[j]).addr@) == Some(to_add@[j].weight) by {
            if j < idx1 { assert(to_add@[j].addr@ != to_add@[idx1].addr@); }
        }
        assert(post == member_set(pre, a, add.weight, height));
        let d = diffs@.last();
        assert(d.key@ == a);
        assert(diff_step(pre, post, d, height));
        let old_states = states;
        states = states.push(post);
        assert forall|j: int| 0 <= j < diffs@.len() implies #[trigger] diff_step(states[j], states[j + 1], diffs@[j], height) by {
            if j < diffs@.len() - 1 { assert(diff_step(old_states[j], old_states[j + 1], diffs@.drop_last()[j], height)); }
        }
        let ck = cl_key("members__changelog"@, utf8(a), height);
        assert(unpath(ck).0 == "members__changelog"@);
        assert(unpath(item_key("admin"@)) != unpath(mkey(a)) && unpath(item_key("admin"@)) != unpath(ck));
        assert(unpath(item_key("cw4-hooks"@)) != unpath(mkey(a)) && unpath(item_key("cw4-hooks"@)) != unpath(ck));
    }
@loop_begin 2
    broadcast use cw4_axioms, string_conv;
    let ghost pre = deps.storage.view();
    let ghost ndiffs = diffs@.len();
    let ghost idx2 = it.index@ as int;
    assert(remove@ == to_remove@[idx2]@);
@loop_end 2
    proof {
        broadcast use cw4_axioms, string_conv;
        lemma_ns4();
        let post = deps.storage.view();
        let a = remove_addr@;
        lemma_member_set(pre, a, 0, height);
        assert forall|j: int| 0 <= j <= idx2 implies member_of(post, (#[trigger] to_remove@[j])@) is None by {
            if to_remove@[j]@ != a { assert(member_of(pre, to_remove@[j]@) is None); }
        }
        if diffs@.len() != ndiffs {
            lemma_member_set(pre, a, 0, height);
            assert(post == member_del(pre, a, height));
            let d = diffs@.last();
            assert(d.key@ == a);
            assert(diff_step(pre, post, d, height));
            let old_states = states;
            states = states.push(post);
            assert forall|j: int| 0 <= j < diffs@.len() implies #[trigger] diff_step(states[j], states[j + 1], diffs@[j], height) by {
                if j < diffs@.len() - 1 { assert(diff_step(old_states[j], old_states[j + 1], diffs@.drop_last()[j], height)); }
            }
            let ck = cl_key("members__changelog"@, utf8(a), height);
            assert(unpath(ck).0 == "members__changelog"@);
            assert(unpath(item_key("admin"@)) != unpath(mkey(a)) && unpath(item_key("admin"@)) != unpath(ck));
            assert(unpath(item_key("cw4-hooks"@)) != unpath(mkey(a)) && unpath(item_key("cw4-hooks"@)) != unpath(ck));
        }
    }
@insert_before "TOTAL.save(deps.storage, &total.u64(), height)?;" 1
    proof {
        lemma_total_set(deps.storage.view(), total.0, height);
        let ck = cl_key("total__changelog"@, Seq::<u8>::empty(), height);
        assert(unpath(ck).0 == "total__changelog"@);
        assert(unpath(item_key("admin"@)) != unpath(tkey()) && unpath(item_key("admin"@)) != unpath(ck));
        assert(unpath(item_key("cw4-hooks"@)) != unpath(tkey()) && unpath(item_key("cw4-hooks"@)) != unpath(ck));
    }
@end

@fn contracts/cw4-group/src/contract.rs execute_update_members [closures: 1]
@requires
    inv(old(deps.storage).view())
@ensures C14.update_notifies_each_hook_once C09 C06
    r is Ok ==> exists|m: MemberChangedHookMsg| #![auto]
        step_update_members(old(deps.storage).view(), final(deps.storage).view(), info.sender@, env.block.height, m.diffs@)
        && r->Ok_0.messages@.len() == hooks_of(old(deps.storage).view(), "cw4-hooks"@).len()
        && forall|i: int| 0 <= i < r->Ok_0.messages@.len() ==> is_hook_msg(#[trigger] r->Ok_0.messages@[i], hooks_of(old(deps.storage).view(), "cw4-hooks"@)[i]@, m)
@ensures C09.execute_update_members_inv C06
    r is Ok ==> inv(final(deps.storage).view())
@closure_types 1
    h: Addr
@closure 1 C14.hook_closure
    (res: StdResult<SubMsg>)
    ensures res is Ok ==> is_hook_msg(res->Ok_0, h@, diff)
@prefix
    broadcast use cw4_axioms, string_conv, msg_conv;
@end

pub open spec fn step_msg(s: Raw, t: Raw, sender: Seq<char>, h: u64, msg: ExecuteMsg) -> bool {
    match msg {
        ExecuteMsg::UpdateAdmin { admin } => is_admin_addr(s, "admin"@, sender) && admin_of(t, "admin"@) is Some
            && t == s.insert(item_key("admin"@), admin_of(t, "admin"@)->Some_0.ser())
            && (admin is None ==> admin_of(t, "admin"@)->Some_0 is None)
            && (admin is Some ==> admin_of(t, "admin"@)->Some_0 is Some && admin_of(t, "admin"@)->Some_0->Some_0@ == admin->Some_0@),
        ExecuteMsg::UpdateMembers { remove, add } => exists|d: Seq<MemberDiff>| #![auto] step_update_members(s, t, sender, h, d),
        ExecuteMsg::AddHook { addr } => is_admin_addr(s, "admin"@, sender) && same_but(s, t, item_key("cw4-hooks"@))
            && exists|a: Addr| #![auto] a@ == addr@ && hooks_of(t, "cw4-hooks"@) == hooks_of(s, "cw4-hooks"@).push(a),
        ExecuteMsg::RemoveHook { addr } => is_admin_addr(s, "admin"@, sender) && same_but(s, t, item_key("cw4-hooks"@))
            && old_has_hook(s, "cw4-hooks"@, addr@) && hooks_of(t, "cw4-hooks"@).len() == hooks_of(s, "cw4-hooks"@).len() - 1,
    }
}

// serves: C14
/// once the admin has been cleared no execute message succeeds any more: members, total, hooks and the (empty) admin are frozen
pub proof fn lemma_c14_frozen_without_admin(s: Raw, t: Raw, sender: Seq<char>, h: u64, msg: ExecuteMsg)
    requires admin_of(s, "admin"@) == Some(None::<Addr>)
    ensures !step_msg(s, t, sender, h, msg)
{
}
pub open spec fn c14_step_at(tr: Seq<Raw>, k: int) -> bool {
    tr[k + 1] == tr[k] || exists|sender: Seq<char>, h: u64, msg: ExecuteMsg| #[trigger] step_msg(tr[k], tr[k + 1], sender, h, msg)
}
// serves: C14
pub proof fn lemma_c14_frozen_history(tr: Seq<Raw>, i: int, j: int)
    requires 0 <= i <= j < tr.len(), forall|k: int| 0 <= k < tr.len() - 1 ==> #[trigger] c14_step_at(tr, k), admin_of(tr[i], "admin"@) == Some(None::<Addr>)
    ensures tr[j] == tr[i]
    decreases j - i
{
    if i < j {
        lemma_c14_frozen_history(tr, i, j - 1);
        assert(c14_step_at(tr, j - 1));
        if tr[j] != tr[j - 1] {
            let (sender, h, msg) = choose|sender: Seq<char>, h: u64, msg: ExecuteMsg| #[trigger] step_msg(tr[j - 1], tr[j], sender, h, msg);
            lemma_c14_frozen_without_admin(tr[j - 1], tr[j], sender, h, msg);
        }
    }
}

@fn contracts/cw4-group/src/contract.rs execute [closures: 1]
@requires
    inv(old(deps.storage).view())
@ensures C14.execute_step C09 C06
    r is Ok ==> step_msg(old(deps.storage).view(), final(deps.storage).view(), info.sender@, env.block.height, msg)
@ensures C09.execute_inv C06
    r is Ok ==> inv(final(deps.storage).view())
@ensures C14.execute_dispatch_msgs
    r is Ok ==> match msg {
        ExecuteMsg::UpdateMembers { remove, add } => exists|m: MemberChangedHookMsg| #![auto]
            step_update_members(old(deps.storage).view(), final(deps.storage).view(), info.sender@, env.block.height, m.diffs@)
            && r->Ok_0.messages@.len() == hooks_of(old(deps.storage).view(), "cw4-hooks"@).len()
            && forall|i: int| 0 <= i < r->Ok_0.messages@.len() ==> is_hook_msg(#[trigger] r->Ok_0.messages@[i], hooks_of(old(deps.storage).view(), "cw4-hooks"@)[i]@, m),
        _ => r->Ok_0.messages@.len() == 0,
    }
@closure 1 C14.execute_admin_validate
    (res: StdResult<Addr>)
    ensures res is Ok ==> res->Ok_0@ == admin@
@prefix
    broadcast use cw4_axioms;
    proof {
        lemma_ns4();
        let s = old(deps.storage).view();
        // writes to the admin / hooks items leave members and total alone
        assert forall|v: Seq<u8>| #![auto] msum(s.insert(item_key("admin"@), v)) == msum(s) && total_of(s.insert(item_key("admin"@), v)) == total_of(s) by {
            assert(unpath(item_key("admin"@)) != unpath(tkey()));
        }
        assert(unpath(item_key("cw4-hooks"@)) != unpath(tkey()));
        assert forall|t: Raw| #![auto] same_but(s, t, item_key("cw4-hooks"@)) implies msum(t) == msum(s) && total_of(t) == total_of(s) by {
            lemma_same_but(s, t, item_key("cw4-hooks"@));
        }
    }
@end

@fn contracts/cw4-group/src/contract.rs instantiate
@requires
    old(deps.storage).view() == SMap::<Seq<u8>, Seq<u8>>::empty()
@ensures C09.instantiate_inv C14 C06
    r is Ok ==> inv(final(deps.storage).view())
@ensures C14.instantiate_admin_as_given
    r is Ok ==> admin_of(final(deps.storage).view(), "admin"@) is Some
        && (msg.admin is None ==> admin_of(final(deps.storage).view(), "admin"@)->Some_0 is None)
        && (msg.admin is Some ==> admin_of(final(deps.storage).view(), "admin"@)->Some_0 is Some && admin_of(final(deps.storage).view(), "admin"@)->Some_0->Some_0@ == msg.admin->Some_0@)
@ensures C09.instantiate_members_as_given C06
    r is Ok ==> forall|j: int| 0 <= j < msg.members@.len() ==> member_of(final(deps.storage).view(), (#[trigger] msg.members@[j]).addr@) == Some(msg.members@[j].weight)
@end

@fn contracts/cw4-group/src/contract.rs query_total_weight
@ensures C09.query_total_now C06
    r is Ok && height is None ==> r->Ok_0.weight == (match total_of(deps.storage.view()) { Some(w) => w, None => 0 })
@ensures C09.query_total_at_height C06
    r is Ok && height is Some ==> r->Ok_0.weight == (match at_height::<u64>(deps.storage.view(), "total"@, "total__changelog"@, Seq::<u8>::empty(), height->Some_0) { Some(w) => w, None => 0 })
@end

@fn contracts/cw4-group/src/contract.rs query_member
@ensures C09.query_member_now C06
    r is Ok && height is None ==> r->Ok_0.weight == member_of(deps.storage.view(), addr@)
@ensures C09.query_member_at_height C06
    r is Ok && height is Some ==> r->Ok_0.weight == at_height::<u64>(deps.storage.view(), "members"@, "members__changelog"@, utf8(addr@), height->Some_0)
@end

@include inc/snapshot_lemmas.vsi

// ===================================================================== C20: member listing
@struct packages/cw4/src/query.rs MemberListResponse
@const contracts/cw4-group/src/contract.rs MAX_LIMIT
@const contracts/cw4-group/src/contract.rs DEFAULT_LIMIT
@include inc/paging.vsi
pub open spec fn str_cursor(c: Option<String>) -> Option<Seq<u8>> { match c { Some(s) => Some(utf8(s@)), None => None } }

@fn contracts/cw4-group/src/contract.rs query_list_members [closures: 2]
@ensures C20.list_members_page C09 C06
    r is Ok ==> ({
        let pg = page(listing(deps.storage.view(), "members"@, Seq::<u8>::empty(), false), str_cursor(start_after), limit);
        r->Ok_0.members@.len() == pg.len() && forall|i: int| 0 <= i < pg.len() ==> utf8((#[trigger] r->Ok_0.members@[i]).addr@) == pg[i].0
            && u64::de(pg[i].1) == Some(r->Ok_0.members@[i].weight)
    })
@eta ".as_ref().map" 1
    __c: &Addr -> Bound<&Addr>
@closure_types 1
    item: StdResult<(Addr, u64)>
@closure 1 C20.list_members_map
    (res: StdResult<Member>)
    ensures match item { Ok((a, w)) => res is Ok && res->Ok_0.addr@ == a@ && res->Ok_0.weight == w, Err(_) => res is Err }
@closure_types 2
    __p2_0: (Addr, u64)
@closure 2 C20.list_members_entry
    (res: Member)
    ensures res.addr@ == __p2_0.0@ && res.weight == __p2_0.1
@prefix
    broadcast use string_conv;
@end

// ===================================================================== the query entry point routes every message to its query function
@enum contracts/cw4-group/src/msg.rs QueryMsg
impl JsonT for MemberResponse { uninterp spec fn json(self) -> Seq<u8>; uninterp spec fn unjson(b: Seq<u8>) -> Option<Self>; }
impl JsonT for MemberListResponse { uninterp spec fn json(self) -> Seq<u8>; uninterp spec fn unjson(b: Seq<u8>) -> Option<Self>; }
impl JsonT for TotalWeightResponse { uninterp spec fn json(self) -> Seq<u8>; uninterp spec fn unjson(b: Seq<u8>) -> Option<Self>; }
impl JsonT for AdminResponse { uninterp spec fn json(self) -> Seq<u8>; uninterp spec fn unjson(b: Seq<u8>) -> Option<Self>; }
impl JsonT for HooksResponse { uninterp spec fn json(self) -> Seq<u8>; uninterp spec fn unjson(b: Seq<u8>) -> Option<Self>; }
@fn contracts/cw4-group/src/contract.rs query
@ensures C09.query_routes_member_and_total C14 C20 C06
    r is Ok ==> match msg {
        QueryMsg::Member { addr, at_height } => exists|x: MemberResponse| r->Ok_0@ == x.json() && call_ensures(query_member, (deps, addr, at_height), Ok::<MemberResponse, StdError>(x)),
        QueryMsg::TotalWeight { at_height } => exists|x: TotalWeightResponse| r->Ok_0@ == x.json() && call_ensures(query_total_weight, (deps, at_height), Ok::<TotalWeightResponse, StdError>(x)),
        QueryMsg::ListMembers { start_after, limit } => exists|x: MemberListResponse| r->Ok_0@ == x.json() && call_ensures(query_list_members, (deps, start_after, limit), Ok::<MemberListResponse, StdError>(x)),
        QueryMsg::Admin {} => exists|x: AdminResponse| r->Ok_0@ == x.json() && admin_answer(deps.storage.view(), "admin"@, x),
        QueryMsg::Hooks {} => exists|x: HooksResponse| r->Ok_0@ == x.json() && hooks_answer(deps.storage.view(), "cw4-hooks"@, x),
    }
@end
