@unit cw4stake
@shim core.rs cw_utils.rs std_more.rs cw3deps.rs cw2.rs std_adapters.rs snapshot.rs cw_controllers.rs range.rs snapshot_range.rs
@properties C09 C10 C14 C20 C06

// ===================================================================== data and state
@struct packages/cw4/src/query.rs Member
@struct packages/cw4/src/query.rs MemberResponse
@struct packages/cw4/src/query.rs TotalWeightResponse
@struct packages/cw4/src/hook.rs MemberDiff
@struct packages/cw4/src/hook.rs MemberChangedHookMsg
@enum packages/cw4/src/hook.rs MemberChangedExecuteMsg [pub]
impl JsonT for MemberChangedExecuteMsg { uninterp spec fn json(self) -> Seq<u8>; uninterp spec fn unjson(b: Seq<u8>) -> Option<Self>; }
@const packages/cw4/src/query.rs TOTAL_KEY
@const packages/cw4/src/query.rs MEMBERS_KEY
@const packages/cw4/src/query.rs MEMBERS_CHECKPOINTS
@const packages/cw4/src/query.rs MEMBERS_CHANGELOG
pub mod cw4 { pub use super::{MEMBERS_KEY, MEMBERS_CHECKPOINTS, MEMBERS_CHANGELOG}; }
@enum packages/cw20/src/denom.rs Denom
@struct packages/cw20/src/coin.rs Cw20CoinVerified
@enum packages/cw20/src/balance.rs Balance [noderive]
@method packages/cw20/src/balance.rs From<Vec<Coin>>forBalance from
@ensures C10.balance_from_coins
    r == Balance::Native(NativeBalance(coins))
@end
impl FromSpecImpl<Vec<Coin>> for Balance { open spec fn obeys_from_spec() -> bool { true } open spec fn from_spec(c: Vec<Coin>) -> Self { Balance::Native(NativeBalance(c)) } }
@struct packages/cw20/src/receiver.rs Cw20ReceiveMsg
@enum packages/cw20/src/msg.rs Cw20ExecuteMsg
@enum packages/cw20/src/logo.rs Logo
@enum packages/cw20/src/logo.rs EmbeddedLogo
impl JsonT for Cw20ExecuteMsg { uninterp spec fn json(self) -> Seq<u8>; uninterp spec fn unjson(b: Seq<u8>) -> Option<Self>; }
@struct contracts/cw4-stake/src/state.rs Config
@struct contracts/cw4-stake/src/msg.rs InstantiateMsg
@enum contracts/cw4-stake/src/msg.rs ExecuteMsg
@enum contracts/cw4-stake/src/msg.rs ReceiveMsg
@struct contracts/cw4-stake/src/msg.rs StakedResponse
impl JsonT for ReceiveMsg { uninterp spec fn json(self) -> Seq<u8>; uninterp spec fn unjson(b: Seq<u8>) -> Option<Self>; }
@enum contracts/cw4-stake/src/error.rs ContractError
impl SerT for Config { uninterp spec fn ser(self) -> Seq<u8>; uninterp spec fn de(b: Seq<u8>) -> Option<Self>; }
@const contracts/cw4-stake/src/contract.rs CONTRACT_NAME
@const contracts/cw4-stake/src/contract.rs CONTRACT_VERSION
@const contracts/cw4-stake/src/state.rs CLAIMS
@const contracts/cw4-stake/src/state.rs ADMIN
@const contracts/cw4-stake/src/state.rs HOOKS
@const contracts/cw4-stake/src/state.rs CONFIG
@const contracts/cw4-stake/src/state.rs TOTAL [exec; ensures: TOTAL.ns@ == "total"@]
@const contracts/cw4-stake/src/state.rs MEMBERS [exec; ensures: MEMBERS.ns@ == "members"@, MEMBERS.cl@ == "members__changelog"@]
@const contracts/cw4-stake/src/state.rs STAKE

pub open spec fn mkey(a: Seq<char>) -> Seq<u8> { path("members"@, utf8(a)) }
pub open spec fn skey(a: Seq<char>) -> Seq<u8> { path("stake"@, utf8(a)) }
pub open spec fn tkey() -> Seq<u8> { item_key("total"@) }
pub open spec fn member_of(s: Raw, a: Seq<char>) -> Option<u64> { raw_get::<u64>(s, mkey(a)) }
pub open spec fn stake_of(s: Raw, a: Seq<char>) -> nat { match raw_get::<Uint128>(s, skey(a)) { Some(x) => x@, None => 0 } }
pub open spec fn total_of(s: Raw) -> Option<u64> { raw_get::<u64>(s, tkey()) }
pub open spec fn config_of(s: Raw) -> Option<Config> { raw_get::<Config>(s, item_key("config"@)) }
pub open spec fn in_ns(k: Seq<u8>, ns: Seq<char>) -> bool { unpath(k).0 == ns && k == path(ns, unpath(k).1) }
pub open spec fn u64val(v: Seq<u8>) -> nat { match u64_de(v) { Some(x) => x as nat, None => 0 } }
pub open spec fn w_members() -> spec_fn(Seq<u8>, Seq<u8>) -> nat { |k: Seq<u8>, v: Seq<u8>| if in_ns(k, "members"@) { u64val(v) } else { 0nat } }
pub open spec fn w_stake() -> spec_fn(Seq<u8>, Seq<u8>) -> nat {
    |k: Seq<u8>, v: Seq<u8>| if in_ns(k, "stake"@) { match u128_de(v) { Some(x) => x as nat, None => 0nat } } else { 0nat }
}
pub open spec fn w_claims() -> spec_fn(Seq<u8>, Seq<u8>) -> nat {
    |k: Seq<u8>, v: Seq<u8>| if in_ns(k, "claims"@) { match de_claims(v) { Some(c) => claims_total(c), None => 0nat } } else { 0nat }
}
pub open spec fn msum(s: Raw) -> nat { sum_w(s, w_members()) }
/// C10: everything the contract owes: all recorded stakes plus all unreleased claims
pub open spec fn books(s: Raw) -> nat { sum_w(s, w_stake()) + sum_w(s, w_claims()) }
/// C09 invariant: reported total == sum of listed member weights
pub open spec fn inv(s: Raw) -> bool { total_of(s) is Some && total_of(s)->Some_0 == msum(s) && config_of(s) is Some }

/// C10: the weight the stake implies: None below the minimum bond, else the integer quotient stake / tokens_per_weight, exactly
pub open spec fn weight_of(stake: nat, cfg: Config) -> Option<nat> {
    if stake < cfg.min_bond@ { None } else { Some(stake / cfg.tokens_per_weight@) }
}
pub open spec fn weight_is(r: Option<u64>, stake: nat, cfg: Config) -> bool {
    match r { Some(w) => weight_of(stake, cfg) == Some(w as nat), None => weight_of(stake, cfg) is None }
}

pub broadcast group cw4_axioms { ax_path, ax_utf8, ax_u64_ser, ax_u64_kb, ax_u128_ser, ax_ser, ax_pair_kb, ax_ser_claims, lemma_sum_insert, lemma_sum_remove_b, addr_ext }
pub proof fn lemma_ns5()
    ensures "members"@ != "total"@, "members"@ != "members__changelog"@, "members"@ != "admin"@, "members"@ != "cw4-hooks"@, "members"@ != "contract_info"@,
        "members"@ != "stake"@, "members"@ != "claims"@, "members"@ != "config"@,
        "total"@ != "members__changelog"@, "total"@ != "admin"@, "total"@ != "cw4-hooks"@, "total"@ != "contract_info"@, "total"@ != "stake"@, "total"@ != "claims"@, "total"@ != "config"@,
        "members__changelog"@ != "admin"@, "members__changelog"@ != "cw4-hooks"@, "members__changelog"@ != "contract_info"@, "members__changelog"@ != "stake"@,
        "members__changelog"@ != "claims"@, "members__changelog"@ != "config"@,
        "admin"@ != "cw4-hooks"@, "admin"@ != "contract_info"@, "admin"@ != "stake"@, "admin"@ != "claims"@, "admin"@ != "config"@,
        "cw4-hooks"@ != "contract_info"@, "cw4-hooks"@ != "stake"@, "cw4-hooks"@ != "claims"@, "cw4-hooks"@ != "config"@,
        "contract_info"@ != "stake"@, "contract_info"@ != "claims"@, "contract_info"@ != "config"@,
        "stake"@ != "claims"@, "stake"@ != "config"@, "claims"@ != "config"@,
{
    reveal_strlit("members"); reveal_strlit("total"); reveal_strlit("members__changelog"); reveal_strlit("admin");
    reveal_strlit("cw4-hooks"); reveal_strlit("contract_info"); reveal_strlit("stake"); reveal_strlit("claims"); reveal_strlit("config");
    assert("members"@.len() == 7); assert("total"@.len() == 5); assert("members__changelog"@.len() == 18);
    assert("admin"@.len() == 5); assert("cw4-hooks"@.len() == 9); assert("contract_info"@.len() == 13);
    assert("stake"@.len() == 5); assert("claims"@.len() == 6); assert("config"@.len() == 6);
    assert("total"@[0] == 't'); assert("admin"@[0] == 'a'); assert("stake"@[0] == 's');
    assert("claims"@[1] == 'l'); assert("config"@[1] == 'o');
}

@include inc/cw4_hooks.vsi

// ===================================================================== functions under contract
@fn contracts/cw4-stake/src/contract.rs must_pay_funds
@ensures C10.must_pay_funds_exact
    r is Ok <==> balance.0@.len() == 1 && balance.0@[0].denom@ == denom@,
    r is Ok ==> r->Ok_0 == balance.0@[0].amount
@replace E17 "balance[0].denom == denom" 1
    string_eq_str(&balance[0].denom, denom)
@end

@fn contracts/cw4-stake/src/contract.rs calc_weight
@ensures C10.weight_follows_stake
    r is Ok ==> weight_is(r->Ok_0, stake@, *cfg)
@ensures C10.weight_refused_only_when_it_does_not_fit
    cfg.tokens_per_weight@ > 0 && (stake@ < cfg.min_bond@ || stake@ / cfg.tokens_per_weight@ <= u64::MAX) ==> r is Ok
@replace E8 "stake.u128() / (cfg.tokens_per_weight.u128())" 1
    rt_div_u128(stake.u128(), cfg.tokens_per_weight.u128())
@end

pub open spec fn member_write(s: Raw, a: Seq<char>, w: Option<u64>, h: u64) -> Raw {
    match w {
        Some(x) => logged::<u64>(s, "members"@, "members__changelog"@, utf8(a), h).insert(mkey(a), u64_ser(x)),
        None => logged::<u64>(s, "members"@, "members__changelog"@, utf8(a), h).remove(mkey(a)),
    }
}
pub open spec fn optval(w: Option<u64>) -> nat { match w { Some(x) => x as nat, None => 0 } }
/// C09 / C14: what update_membership does: nothing when the weight is unchanged; otherwise the member entry (at the block
/// height), the total, and one truthful notification per registered hook
pub open spec fn step_membership(s: Raw, t: Raw, a: Seq<char>, new: Option<u64>, h: u64) -> bool {
    if new == member_of(s, a) { t == s }
    else {
        total_of(s) is Some && total_of(s)->Some_0 + optval(new) <= u64::MAX && total_of(s)->Some_0 + optval(new) >= optval(member_of(s, a))
        && t == member_write(s, a, new, h).insert(tkey(), u64_ser((total_of(s)->Some_0 + optval(new) - optval(member_of(s, a))) as u64))
    }
}
/// the single truthful diff a stake change reports
pub open spec fn one_diff(m: MemberChangedHookMsg, a: Seq<char>, old_w: Option<u64>, new: Option<u64>) -> bool {
    m.diffs@.len() == 1 && m.diffs@[0].key@ == a && m.diffs@[0].old == old_w && m.diffs@[0].new == new
}
/// `msg` is one MemberChangedHook notification to `hook` reporting exactly the change (a: old_w -> new)
pub open spec fn is_one_diff_msg(msg: SubMsg<Empty>, hook: Seq<char>, a: Seq<char>, old_w: Option<u64>, new: Option<u64>) -> bool {
    exists|m: MemberChangedHookMsg| #[trigger] is_hook_msg(msg, hook, m) && one_diff(m, a, old_w, new)
}
pub open spec fn membership_msgs_ok(s: Raw, msgs: Seq<SubMsg<Empty>>, a: Seq<char>, new: Option<u64>) -> bool {
    if new == member_of(s, a) { msgs.len() == 0 }
    else {
        msgs.len() == hooks_of(s, "cw4-hooks"@).len()
        && forall|i: int| 0 <= i < msgs.len() ==> is_one_diff_msg(#[trigger] msgs[i], hooks_of(s, "cw4-hooks"@)[i]@, a, member_of(s, a), new)
    }
}
pub open spec fn weight_fits(stake: nat, cfg: Config) -> bool { weight_of(stake, cfg) is Some ==> weight_of(stake, cfg)->Some_0 <= u64::MAX }
pub open spec fn weight_u64(stake: nat, cfg: Config) -> Option<u64> { match weight_of(stake, cfg) { Some(n) => Some(n as u64), None => None } }
pub proof fn lemma_membership(s: Raw, a: Seq<char>, new: Option<u64>, h: u64, tot: u64)
    requires inv(s), tot == total_of(s)->Some_0 + optval(new) - optval(member_of(s, a))
    ensures ({
        let t = member_write(s, a, new, h).insert(tkey(), u64_ser(tot));
        &&& inv(t) &&& member_of(t, a) == new &&& (forall|x: Seq<char>| x != a ==> member_of(t, x) == member_of(s, x))
        &&& sum_w(t, w_stake()) == sum_w(s, w_stake()) &&& sum_w(t, w_claims()) == sum_w(s, w_claims())
        &&& (forall|x: Seq<char>| stake_of(t, x) == stake_of(s, x)) &&& config_of(t) == config_of(s)
        &&& hooks_of(t, "cw4-hooks"@) == hooks_of(s, "cw4-hooks"@) &&& admin_of(t, "admin"@) == admin_of(s, "admin"@)
        &&& (forall|x: Seq<char>| claims_of(t, "claims"@, x) == claims_of(s, "claims"@, x))
    })
{
    broadcast use cw4_axioms;
    lemma_ns5();
    let ck = cl_key("members__changelog"@, utf8(a), h);
    let l = logged::<u64>(s, "members"@, "members__changelog"@, utf8(a), h);
    let t = member_write(s, a, new, h).insert(tkey(), u64_ser(tot));
    assert(unpath(ck).0 == "members__changelog"@);
    assert(unpath(ck) != unpath(mkey(a)) && unpath(ck) != unpath(tkey()) && unpath(tkey()) != unpath(mkey(a)));
    assert(unpath(item_key("config"@)) != unpath(ck) && unpath(item_key("config"@)) != unpath(mkey(a)) && unpath(item_key("config"@)) != unpath(tkey()));
    assert(unpath(item_key("cw4-hooks"@)) != unpath(ck) && unpath(item_key("cw4-hooks"@)) != unpath(mkey(a)) && unpath(item_key("cw4-hooks"@)) != unpath(tkey()));
    assert(unpath(item_key("admin"@)) != unpath(ck) && unpath(item_key("admin"@)) != unpath(mkey(a)) && unpath(item_key("admin"@)) != unpath(tkey()));
    if s.contains_key(mkey(a)) { lemma_sum_ge_one(s, w_members(), mkey(a)); }
    assert forall|x: Seq<char>| x != a implies member_of(t, x) == member_of(s, x) by {
        assert(unutf8(utf8(x)) != unutf8(utf8(a)));
        assert(unpath(mkey(x)) != unpath(mkey(a)) && unpath(mkey(x)) != unpath(ck) && unpath(mkey(x)) != unpath(tkey()));
    }
    assert forall|x: Seq<char>| stake_of(t, x) == stake_of(s, x) && claims_of(t, "claims"@, x) == claims_of(s, "claims"@, x) by {
        assert(unpath(skey(x)) != unpath(mkey(a)) && unpath(skey(x)) != unpath(ck) && unpath(skey(x)) != unpath(tkey()));
        assert(unpath(claims_key("claims"@, x)) != unpath(mkey(a)) && unpath(claims_key("claims"@, x)) != unpath(ck) && unpath(claims_key("claims"@, x)) != unpath(tkey()));
    }
}

@fn contracts/cw4-stake/src/contract.rs update_membership [closures: 2]
@requires
    inv(old(storage).view()), config_of(old(storage).view()) == Some(*cfg)
@ensures C10.membership_weight_follows_stake C09 C06
    r is Ok ==> weight_fits(new_stake@, *cfg)
        && step_membership(old(storage).view(), final(storage).view(), sender@, weight_u64(new_stake@, *cfg), height)
@ensures C14.membership_notifies_truthfully
    r is Ok ==> membership_msgs_ok(old(storage).view(), r->Ok_0@, sender@, weight_u64(new_stake@, *cfg))
@ensures C09.membership_inv C14 C06
    r is Ok ==> inv(final(storage).view())
@replace E8 "total + new.unwrap_or_default() - old.unwrap_or_default()" 1
    rt_sub_u64(rt_add_u64(total, new.unwrap_or_default()), old.unwrap_or_default())
@closure_types 1
    total: u64
@closure 1 C09.membership_total_closure
    (res: StdResult<u64>)
    ensures res is Ok ==> total + optval(new) <= u64::MAX && total + optval(new) >= optval(old) && res->Ok_0 == total + optval(new) - optval(old)
@closure_types 2
    h: Addr
@closure 2 C14.membership_hook_closure
    (res: StdResult<SubMsg>)
    ensures res is Ok ==> is_one_diff_msg(res->Ok_0, h@, diff.key@, diff.old, diff.new)
@prefix
    broadcast use cw4_axioms, string_conv, msg_conv;
    let ghost s0 = old(storage).view();
    proof { lemma_ns5(); }
@insert_before "~MemberDiff::new(" 1
    proof {
        lemma_membership(s0, sender@, new, height, (total_of(s0)->Some_0 + optval(new) - optval(old)) as u64);
    }
@insert_before "HOOKS.prepare_hooks(storage, |h| {" 1
    proof {
        assert(diff.key@ == sender@ && diff.old == old && diff.new == new);
        assert(old == member_of(s0, sender@));
        assert(new == weight_u64(new_stake@, *cfg));
        assert(hooks_of(storage.view(), "cw4-hooks"@) == hooks_of(s0, "cw4-hooks"@));
    }
@end

// --------------------------------------------------------------------- bond / unbond / claim (C10)
pub open spec fn stake_set(s: Raw, a: Seq<char>, v: nat) -> Raw { s.insert(skey(a), u128_ser(v as u128)) }
/// only the configured token is accepted, and `amount` is exactly what was provided (C10)
pub open spec fn accepted(cfg: Config, bal: Balance, amount: Uint128) -> bool {
    match (cfg.denom, bal) {
        (Denom::Native(want), Balance::Native(have)) => have.0@.len() == 1 && have.0@[0].denom@ == want@ && have.0@[0].amount == amount,
        (Denom::Cw20(want), Balance::Cw20(have)) => want@ == have.address@ && have.amount == amount,
        _ => false,
    }
}
pub open spec fn step_bond(s: Raw, t: Raw, sender: Seq<char>, bal: Balance, h: u64) -> bool {
    config_of(s) is Some && exists|amount: Uint128| #[trigger] accepted(config_of(s)->Some_0, bal, amount)
        && stake_of(s, sender) + amount@ <= u128::MAX
        && weight_fits(stake_of(s, sender) + amount@, config_of(s)->Some_0)
        && step_membership(stake_set(s, sender, stake_of(s, sender) + amount@), t, sender, weight_u64(stake_of(s, sender) + amount@, config_of(s)->Some_0), h)
}
pub open spec fn step_unbond(s: Raw, t: Raw, sender: Seq<char>, amount: Uint128, b: &BlockInfo) -> bool {
    config_of(s) is Some && stake_of(s, sender) >= amount@
    && weight_fits((stake_of(s, sender) - amount@) as nat, config_of(s)->Some_0)
    && step_membership(
        stake_set(s, sender, (stake_of(s, sender) - amount@) as nat).insert(claims_key("claims"@, sender),
            ser_claims(claims_of(s, "claims"@, sender).push(Claim { amount, release_at: config_of(s)->Some_0.unbonding_period.after_spec(b) }))),
        t, sender, weight_u64((stake_of(s, sender) - amount@) as nat, config_of(s)->Some_0), b.height)
}
pub open spec fn step_claim(s: Raw, t: Raw, sender: Seq<char>, b: &BlockInfo) -> bool {
    config_of(s) is Some && matured_total(claims_of(s, "claims"@, sender), b) > 0
    && t == s.insert(claims_key("claims"@, sender), ser_claims(waiting(claims_of(s, "claims"@, sender), b)))
}
/// the payout of Claim: exactly one message sending exactly `release` of the staked token to the claimer
pub open spec fn is_payout(m: SubMsg<Empty>, cfg: Config, to: Seq<char>, release: nat) -> bool {
    m == SubMsg::<Empty>::new_spec(m.msg) && match cfg.denom {
        Denom::Native(d) => m.msg is Bank && m.msg->Bank_0 is Send && m.msg->Bank_0->Send_to_address@ == to
            && m.msg->Bank_0->Send_amount@.len() == 1 && m.msg->Bank_0->Send_amount@[0].amount@ == release && m.msg->Bank_0->Send_amount@[0].denom@ == d@,
        Denom::Cw20(addr) => m.msg is Wasm && m.msg->Wasm_0 is Execute && m.msg->Wasm_0->Execute_contract_addr@ == addr@
            && m.msg->Wasm_0->Execute_funds@.len() == 0
            && exists|r: String, amt: Uint128| #![auto] r@ == to && amt@ == release && m.msg->Wasm_0->Execute_msg@ == (Cw20ExecuteMsg::Transfer { recipient: r, amount: amt }).json(),
    }
}

pub proof fn lemma_stake_set(s: Raw, a: Seq<char>, v: nat)
    requires v <= u128::MAX
    ensures ({
        let t = stake_set(s, a, v);
        &&& stake_of(t, a) == v &&& (forall|x: Seq<char>| x != a ==> stake_of(t, x) == stake_of(s, x))
        &&& sum_w(t, w_stake()) + stake_of(s, a) == sum_w(s, w_stake()) + v
        &&& sum_w(t, w_claims()) == sum_w(s, w_claims()) &&& msum(t) == msum(s) &&& total_of(t) == total_of(s) &&& config_of(t) == config_of(s)
        &&& (forall|x: Seq<char>| member_of(t, x) == member_of(s, x)) &&& (forall|x: Seq<char>| claims_of(t, "claims"@, x) == claims_of(s, "claims"@, x))
        &&& hooks_of(t, "cw4-hooks"@) == hooks_of(s, "cw4-hooks"@) &&& admin_of(t, "admin"@) == admin_of(s, "admin"@)
    })
{
    broadcast use cw4_axioms;
    lemma_ns5();
    let t = stake_set(s, a, v);
    assert(unpath(tkey()) != unpath(skey(a)) && unpath(item_key("config"@)) != unpath(skey(a)));
    assert(unpath(item_key("cw4-hooks"@)) != unpath(skey(a)) && unpath(item_key("admin"@)) != unpath(skey(a)));
    assert forall|x: Seq<char>| (x != a ==> stake_of(t, x) == stake_of(s, x)) && member_of(t, x) == member_of(s, x) && claims_of(t, "claims"@, x) == claims_of(s, "claims"@, x) by {
        if x != a { assert(unutf8(utf8(x)) != unutf8(utf8(a))); assert(unpath(skey(x)) != unpath(skey(a))); }
        assert(unpath(mkey(x)) != unpath(skey(a)) && unpath(claims_key("claims"@, x)) != unpath(skey(a)));
    }
}
pub proof fn lemma_claims_set(s: Raw, a: Seq<char>, c: Seq<Claim>)
    ensures ({
        let t = s.insert(claims_key("claims"@, a), ser_claims(c));
        &&& claims_of(t, "claims"@, a) == c &&& (forall|x: Seq<char>| x != a ==> claims_of(t, "claims"@, x) == claims_of(s, "claims"@, x))
        &&& sum_w(t, w_claims()) + claims_total(claims_of(s, "claims"@, a)) == sum_w(s, w_claims()) + claims_total(c)
        &&& sum_w(t, w_stake()) == sum_w(s, w_stake()) &&& msum(t) == msum(s) &&& total_of(t) == total_of(s) &&& config_of(t) == config_of(s)
        &&& (forall|x: Seq<char>| member_of(t, x) == member_of(s, x) && stake_of(t, x) == stake_of(s, x))
        &&& hooks_of(t, "cw4-hooks"@) == hooks_of(s, "cw4-hooks"@) &&& admin_of(t, "admin"@) == admin_of(s, "admin"@)
    })
{
    broadcast use cw4_axioms;
    lemma_ns5();
    let k = claims_key("claims"@, a);
    let t = s.insert(k, ser_claims(c));
    assert(unpath(tkey()) != unpath(k) && unpath(item_key("config"@)) != unpath(k));
    assert(unpath(item_key("cw4-hooks"@)) != unpath(k) && unpath(item_key("admin"@)) != unpath(k));
    assert forall|x: Seq<char>| (x != a ==> claims_of(t, "claims"@, x) == claims_of(s, "claims"@, x)) && member_of(t, x) == member_of(s, x) && stake_of(t, x) == stake_of(s, x) by {
        if x != a { assert(unutf8(utf8(x)) != unutf8(utf8(a))); assert(unpath(claims_key("claims"@, x)) != unpath(k)); }
        assert(unpath(mkey(x)) != unpath(k) && unpath(skey(x)) != unpath(k));
    }
}

@fn contracts/cw4-stake/src/contract.rs execute_bond [closures: 1]
@requires
    inv(old(deps.storage).view())
@ensures C10.bond_exact C09 C14 C06
    r is Ok ==> step_bond(old(deps.storage).view(), final(deps.storage).view(), sender@, amount, env.block.height)
@ensures C09.bond_inv C10 C06
    r is Ok ==> inv(final(deps.storage).view())
@ensures C14.bond_notifies_hooks
    r is Ok ==> exists|amt: Uint128| #[trigger] accepted(config_of(old(deps.storage).view())->Some_0, amount, amt)
        && membership_msgs_ok(old(deps.storage).view(), r->Ok_0.messages@, sender@, weight_u64(stake_of(old(deps.storage).view(), sender@) + amt@, config_of(old(deps.storage).view())->Some_0))
@closure_types 1
    stake: Option<Uint128>
@closure 1 C10.bond_stake_closure
    (res: StdResult<Uint128>)
    ensures res is Ok ==> stake.unwrap_or(Uint128(0)).0 + amount.0 <= u128::MAX && res->Ok_0.0 == stake.unwrap_or(Uint128(0)).0 + amount.0
@prefix
    broadcast use cw4_axioms;
    let ghost s0 = old(deps.storage).view();
    let ghost bal0 = amount;
    proof { lemma_ns5(); }
@insert_before "~update_membership(" 1
    proof {
        lemma_stake_set(s0, sender@, new_stake@);
        assert(accepted(cfg, bal0, amount));
    }
@end

@fn contracts/cw4-stake/src/contract.rs execute_receive
@requires
    inv(old(deps.storage).view())
@ensures C10.receive_only_configured_token C09 C14 C06
    r is Ok ==> step_bond(old(deps.storage).view(), final(deps.storage).view(), wrapper.sender@,
        Balance::Cw20(Cw20CoinVerified { address: info.sender, amount: wrapper.amount }), env.block.height)
@ensures C09.receive_inv C10 C06
    r is Ok ==> inv(final(deps.storage).view())
@ensures C14.receive_notifies_hooks
    r is Ok ==> exists|amt: Uint128| #[trigger] accepted(config_of(old(deps.storage).view())->Some_0, Balance::Cw20(Cw20CoinVerified { address: info.sender, amount: wrapper.amount }), amt)
        && membership_msgs_ok(old(deps.storage).view(), r->Ok_0.messages@, wrapper.sender@, weight_u64(stake_of(old(deps.storage).view(), wrapper.sender@) + amt@, config_of(old(deps.storage).view())->Some_0))
@end

@fn contracts/cw4-stake/src/contract.rs execute_unbond [closures: 1]
@requires
    inv(old(deps.storage).view())
@ensures C10.unbond_exact C09 C14 C06
    r is Ok ==> step_unbond(old(deps.storage).view(), final(deps.storage).view(), info.sender@, amount, &env.block)
@ensures C09.unbond_inv C10 C06
    r is Ok ==> inv(final(deps.storage).view())
@ensures C14.unbond_notifies_hooks
    r is Ok ==> membership_msgs_ok(old(deps.storage).view(), r->Ok_0.messages@, info.sender@,
        weight_u64((stake_of(old(deps.storage).view(), info.sender@) - amount@) as nat, config_of(old(deps.storage).view())->Some_0))
@closure_types 1
    stake: Option<Uint128>
@closure 1 C10.unbond_stake_closure
    (res: StdResult<Uint128>)
    ensures res is Ok ==> stake.unwrap_or(Uint128(0)).0 >= amount.0 && res->Ok_0.0 == stake.unwrap_or(Uint128(0)).0 - amount.0,
        stake.unwrap_or(Uint128(0)).0 >= amount.0 ==> res is Ok
@prefix
    broadcast use cw4_axioms;
    let ghost s0 = old(deps.storage).view();
    proof { lemma_ns5(); }
@insert_before "~update_membership(" 1
    proof {
        lemma_stake_set(s0, info.sender@, new_stake@);
        let s1 = stake_set(s0, info.sender@, new_stake@);
        lemma_claims_set(s1, info.sender@, claims_of(s1, "claims"@, info.sender@).push(Claim { amount, release_at: cfg.unbonding_period.after_spec(&env.block) }));
    }
@end

@fn contracts/cw4-stake/src/contract.rs coin_to_string
@end

@fn contracts/cw4-stake/src/contract.rs execute_claim
@requires
    inv(old(deps.storage).view())
@ensures C10.claim_exact
    r is Ok ==> step_claim(old(deps.storage).view(), final(deps.storage).view(), info.sender@, &env.block)
@ensures C10.claim_pays_matured_once
    r is Ok ==> r->Ok_0.messages@.len() == 1 && is_payout(r->Ok_0.messages@[0], config_of(old(deps.storage).view())->Some_0, info.sender@,
        matured_total(claims_of(old(deps.storage).view(), "claims"@, info.sender@), &env.block))
@ensures C09.claim_inv C06
    r is Ok ==> inv(final(deps.storage).view())
@ensures C10.claim_goes_through_when_matured
    claims_readable(old(deps.storage).view(), "claims"@, info.sender@)
        && matured_total(claims_of(old(deps.storage).view(), "claims"@, info.sender@), &env.block) > 0 ==> r is Ok
@prefix
    broadcast use cw4_axioms, string_conv, msg_conv, opt_conv;
    let ghost s0 = old(deps.storage).view();
    proof {
        lemma_ns5();
        lemma_claims_set(s0, info.sender@, waiting(claims_of(s0, "claims"@, info.sender@), &env.block));
    }
@end

@fn contracts/cw4-stake/src/contract.rs instantiate
@requires
    old(deps.storage).view() == SMap::<Seq<u8>, Seq<u8>>::empty()
@ensures C09.instantiate_inv C10 C14 C06
    r is Ok ==> inv(final(deps.storage).view()) && books(final(deps.storage).view()) == 0
        && config_of(final(deps.storage).view())->Some_0.min_bond.0 >= 1
@ensures C14.instantiate_admin_as_given
    r is Ok ==> admin_of(final(deps.storage).view(), "admin"@) is Some
        && (msg.admin is None ==> admin_of(final(deps.storage).view(), "admin"@)->Some_0 is None)
        && (msg.admin is Some ==> admin_of(final(deps.storage).view(), "admin"@)->Some_0 is Some && admin_of(final(deps.storage).view(), "admin"@)->Some_0->Some_0@ == msg.admin->Some_0@)
@ensures C10.instantiate_config_as_given C14
    r is Ok ==> config_of(final(deps.storage).view()) is Some && config_of(final(deps.storage).view())->Some_0.denom == msg.denom
        && config_of(final(deps.storage).view())->Some_0.tokens_per_weight == msg.tokens_per_weight
        && config_of(final(deps.storage).view())->Some_0.unbonding_period == msg.unbonding_period
        && config_of(final(deps.storage).view())->Some_0.min_bond.0 == (if msg.min_bond.0 >= 1 { msg.min_bond.0 } else { 1 })
        && hooks_of(final(deps.storage).view(), "cw4-hooks"@).len() == 0
@prefix
    broadcast use cw4_axioms;
    proof { lemma_ns5(); }
@insert_before "Ok(Response::default())" 1
    proof {
        let t = deps.storage.view();
        assert forall|k: Seq<u8>| t.contains_key(k) implies k == cw2_key() || k == item_key("admin"@) || k == item_key("config"@) || k == tkey() by { }
        assert(unpath(cw2_key()).0 == "contract_info"@ && unpath(item_key("admin"@)).0 == "admin"@ && unpath(item_key("config"@)).0 == "config"@ && unpath(tkey()).0 == "total"@);
        lemma_sum_zero(t, w_members()); lemma_sum_zero(t, w_stake()); lemma_sum_zero(t, w_claims());
    }
@end

pub open spec fn step_msg(s: Raw, t: Raw, sender: Addr, funds: Vec<Coin>, b: &BlockInfo, msg: ExecuteMsg) -> bool {
    match msg {
        ExecuteMsg::Bond {} => step_bond(s, t, sender@, Balance::Native(NativeBalance(funds)), b.height),
        ExecuteMsg::Unbond { tokens } => step_unbond(s, t, sender@, tokens, b),
        ExecuteMsg::Claim {} => step_claim(s, t, sender@, b),
        ExecuteMsg::Receive(w) => step_bond(s, t, w.sender@, Balance::Cw20(Cw20CoinVerified { address: sender, amount: w.amount }), b.height),
        ExecuteMsg::UpdateAdmin { admin } => is_admin_addr(s, "admin"@, sender@) && admin_of(t, "admin"@) is Some
            && t == s.insert(item_key("admin"@), admin_of(t, "admin"@)->Some_0.ser()),
        ExecuteMsg::AddHook { addr } => is_admin_addr(s, "admin"@, sender@) && same_but(s, t, item_key("cw4-hooks"@)),
        ExecuteMsg::RemoveHook { addr } => is_admin_addr(s, "admin"@, sender@) && same_but(s, t, item_key("cw4-hooks"@)),
    }
}
pub proof fn lemma_same_but5(s: Raw, t: Raw, k: Seq<u8>)
    requires same_but(s, t, k), unpath(k).0 != "members"@, unpath(k).0 != "stake"@, unpath(k).0 != "claims"@, k != tkey(), k != item_key("config"@)
    ensures msum(t) == msum(s), total_of(t) == total_of(s), config_of(t) == config_of(s), books(t) == books(s),
        forall|x: Seq<char>| member_of(t, x) == member_of(s, x) && stake_of(t, x) == stake_of(s, x) && claims_of(t, "claims"@, x) == claims_of(s, "claims"@, x)
{
    broadcast use cw4_axioms;
    if t.contains_key(k) {
        let t2 = s.insert(k, t[k]);
        assert forall|k2: Seq<u8>| t.contains_key(k2) == t2.contains_key(k2) by { if k2 != k { assert(kv(s, k2) == kv(t, k2)); } }
        assert forall|k2: Seq<u8>| t.contains_key(k2) implies t[k2] == t2[k2] by { if k2 != k { assert(kv(s, k2) == kv(t, k2)); } }
        assert(t.dom() =~= t2.dom()); assert(t =~= t2);
    } else {
        let t2 = s.remove(k);
        assert forall|k2: Seq<u8>| t.contains_key(k2) == t2.contains_key(k2) by { if k2 != k { assert(kv(s, k2) == kv(t, k2)); } }
        assert forall|k2: Seq<u8>| t.contains_key(k2) implies t[k2] == t2[k2] by { if k2 != k { assert(kv(s, k2) == kv(t, k2)); } }
        assert(t.dom() =~= t2.dom()); assert(t =~= t2);
    }
    assert(kv(s, tkey()) == kv(t, tkey()) && kv(s, item_key("config"@)) == kv(t, item_key("config"@)));
    assert forall|x: Seq<char>| member_of(t, x) == member_of(s, x) && stake_of(t, x) == stake_of(s, x) && claims_of(t, "claims"@, x) == claims_of(s, "claims"@, x) by {
        assert(unpath(mkey(x)).0 == "members"@ && unpath(skey(x)).0 == "stake"@ && unpath(claims_key("claims"@, x)).0 == "claims"@);
        assert(kv(s, mkey(x)) == kv(t, mkey(x)) && kv(s, skey(x)) == kv(t, skey(x)) && kv(s, claims_key("claims"@, x)) == kv(t, claims_key("claims"@, x)));
    }
}

@fn contracts/cw4-stake/src/contract.rs execute
@requires
    inv(old(deps.storage).view())
@ensures C10.execute_step C09 C14 C06
    r is Ok ==> step_msg(old(deps.storage).view(), final(deps.storage).view(), info.sender, info.funds, &env.block, msg)
@ensures C09.execute_inv C10 C06
    r is Ok ==> inv(final(deps.storage).view())
@ensures C14.execute_dispatch_msgs C10
    r is Ok ==> match msg {
        ExecuteMsg::Bond {} => exists|amt: Uint128| #[trigger] accepted(config_of(old(deps.storage).view())->Some_0, Balance::Native(NativeBalance(info.funds)), amt)
            && membership_msgs_ok(old(deps.storage).view(), r->Ok_0.messages@, info.sender@, weight_u64(stake_of(old(deps.storage).view(), info.sender@) + amt@, config_of(old(deps.storage).view())->Some_0)),
        ExecuteMsg::Unbond { tokens } => membership_msgs_ok(old(deps.storage).view(), r->Ok_0.messages@, info.sender@,
            weight_u64((stake_of(old(deps.storage).view(), info.sender@) - tokens@) as nat, config_of(old(deps.storage).view())->Some_0)),
        ExecuteMsg::Claim {} => r->Ok_0.messages@.len() == 1 && is_payout(r->Ok_0.messages@[0], config_of(old(deps.storage).view())->Some_0, info.sender@,
            matured_total(claims_of(old(deps.storage).view(), "claims"@, info.sender@), &env.block)),
        ExecuteMsg::Receive(w) => exists|amt: Uint128| #[trigger] accepted(config_of(old(deps.storage).view())->Some_0, Balance::Cw20(Cw20CoinVerified { address: info.sender, amount: w.amount }), amt)
            && membership_msgs_ok(old(deps.storage).view(), r->Ok_0.messages@, w.sender@, weight_u64(stake_of(old(deps.storage).view(), w.sender@) + amt@, config_of(old(deps.storage).view())->Some_0)),
        _ => r->Ok_0.messages@.len() == 0,
    }
@prefix
    broadcast use cw4_axioms;
    proof {
        lemma_ns5();
        let s = old(deps.storage).view();
        assert(unpath(item_key("admin"@)) != unpath(tkey()) && unpath(item_key("admin"@)) != unpath(item_key("config"@)));
        assert forall|v: Seq<u8>| #![auto] inv(s.insert(item_key("admin"@), v)) by { }
        assert(unpath(item_key("cw4-hooks"@)) != unpath(tkey()) && unpath(item_key("cw4-hooks"@)) != unpath(item_key("config"@)));
        assert forall|t: Raw| #![auto] same_but(s, t, item_key("cw4-hooks"@)) implies inv(t) by { lemma_same_but5(s, t, item_key("cw4-hooks"@)); }
    }
@end

@fn contracts/cw4-stake/src/contract.rs query_total_weight
@ensures C09.query_total C06
    r is Ok ==> Some(r->Ok_0.weight) == total_of(deps.storage.view())
@end

@fn contracts/cw4-stake/src/contract.rs query_member
@ensures C09.query_member_now C10 C06
    r is Ok && height is None ==> r->Ok_0.weight == member_of(deps.storage.view(), addr@)
@ensures C09.query_member_at_height C06
    r is Ok && height is Some ==> r->Ok_0.weight == at_height::<u64>(deps.storage.view(), "members"@, "members__changelog"@, utf8(addr@), height->Some_0)
@end

@fn contracts/cw4-stake/src/contract.rs query_staked
@ensures C10.query_staked
    r is Ok ==> r->Ok_0.stake@ == stake_of(deps.storage.view(), addr@)
@prefix
    broadcast use cw4_axioms;
@end

@include inc/snapshot_lemmas.vsi

// ===================================================================== lemmas (C10)
// serves: C10
/// C10, per step: what the contract owes (stakes + unreleased claims) grows only by exactly the accepted bond amount and shrinks only
/// by exactly the payout of Claim; Unbond moves stake into a claim that matures after the unbonding period; a user's stake changes
/// only by their own bond / unbond
#[verifier::rlimit(40)]
pub proof fn lemma_c10_step(s: Raw, t: Raw, sender: Addr, funds: Vec<Coin>, b: &BlockInfo, msg: ExecuteMsg, x: Seq<char>)
    requires inv(s), step_msg(s, t, sender, funds, b, msg)
    ensures
        match msg {
            ExecuteMsg::Bond {} => exists|amount: Uint128| #[trigger] accepted(config_of(s)->Some_0, Balance::Native(NativeBalance(funds)), amount)
                && books(t) == books(s) + amount@ && stake_of(t, sender@) == stake_of(s, sender@) + amount@ && (x != sender@ ==> stake_of(t, x) == stake_of(s, x)),
            ExecuteMsg::Receive(w) => exists|amount: Uint128| #[trigger] accepted(config_of(s)->Some_0, Balance::Cw20(Cw20CoinVerified { address: sender, amount: w.amount }), amount)
                && books(t) == books(s) + amount@ && stake_of(t, w.sender@) == stake_of(s, w.sender@) + amount@ && (x != w.sender@ ==> stake_of(t, x) == stake_of(s, x)),
            ExecuteMsg::Unbond { tokens } => books(t) == books(s) && stake_of(t, sender@) == stake_of(s, sender@) - tokens@ && (x != sender@ ==> stake_of(t, x) == stake_of(s, x))
                && claims_of(t, "claims"@, sender@) == claims_of(s, "claims"@, sender@).push(Claim { amount: tokens, release_at: config_of(s)->Some_0.unbonding_period.after_spec(b) }),
            ExecuteMsg::Claim {} => books(t) + matured_total(claims_of(s, "claims"@, sender@), b) == books(s) && stake_of(t, x) == stake_of(s, x)
                && claims_of(t, "claims"@, sender@) == waiting(claims_of(s, "claims"@, sender@), b),
            _ => books(t) == books(s) && stake_of(t, x) == stake_of(s, x),
        },
        // membership follows stake (C10): after a bond/unbond the member entry is exactly the weight the new stake implies
        (msg is Bond || msg is Unbond) ==> weight_is(member_of(t, sender@), stake_of(t, sender@), config_of(s)->Some_0),
{
    broadcast use cw4_axioms;
    lemma_ns5();
    match msg {
        ExecuteMsg::Bond {} => {
            let amount = choose|amount: Uint128| #[trigger] accepted(config_of(s)->Some_0, Balance::Native(NativeBalance(funds)), amount)
                && stake_of(s, sender@) + amount@ <= u128::MAX && weight_fits(stake_of(s, sender@) + amount@, config_of(s)->Some_0)
                && step_membership(stake_set(s, sender@, stake_of(s, sender@) + amount@), t, sender@, weight_u64(stake_of(s, sender@) + amount@, config_of(s)->Some_0), b.height);
            lemma_stake_set(s, sender@, stake_of(s, sender@) + amount@);
            let s1 = stake_set(s, sender@, stake_of(s, sender@) + amount@);
            let new = weight_u64(stake_of(s, sender@) + amount@, config_of(s)->Some_0);
            if new != member_of(s1, sender@) { lemma_membership(s1, sender@, new, b.height, (total_of(s1)->Some_0 + optval(new) - optval(member_of(s1, sender@))) as u64); }
        }
        ExecuteMsg::Receive(w) => {
            let bal = Balance::Cw20(Cw20CoinVerified { address: sender, amount: w.amount });
            let amount = choose|amount: Uint128| #[trigger] accepted(config_of(s)->Some_0, bal, amount)
                && stake_of(s, w.sender@) + amount@ <= u128::MAX && weight_fits(stake_of(s, w.sender@) + amount@, config_of(s)->Some_0)
                && step_membership(stake_set(s, w.sender@, stake_of(s, w.sender@) + amount@), t, w.sender@, weight_u64(stake_of(s, w.sender@) + amount@, config_of(s)->Some_0), b.height);
            lemma_stake_set(s, w.sender@, stake_of(s, w.sender@) + amount@);
            let s1 = stake_set(s, w.sender@, stake_of(s, w.sender@) + amount@);
            let new = weight_u64(stake_of(s, w.sender@) + amount@, config_of(s)->Some_0);
            if new != member_of(s1, w.sender@) { lemma_membership(s1, w.sender@, new, b.height, (total_of(s1)->Some_0 + optval(new) - optval(member_of(s1, w.sender@))) as u64); }
        }
        ExecuteMsg::Unbond { tokens } => {
            let v = (stake_of(s, sender@) - tokens@) as nat;
            lemma_stake_set(s, sender@, v);
            let s1 = stake_set(s, sender@, v);
            let c = claims_of(s, "claims"@, sender@).push(Claim { amount: tokens, release_at: config_of(s)->Some_0.unbonding_period.after_spec(b) });
            lemma_claims_set(s1, sender@, c);
            let s2 = s1.insert(claims_key("claims"@, sender@), ser_claims(c));
            assert(claims_total(c) == claims_total(claims_of(s, "claims"@, sender@)) + tokens@) by { assert(c.drop_last() =~= claims_of(s, "claims"@, sender@)); }
            let new = weight_u64(v, config_of(s)->Some_0);
            if new != member_of(s2, sender@) { lemma_membership(s2, sender@, new, b.height, (total_of(s2)->Some_0 + optval(new) - optval(member_of(s2, sender@))) as u64); }
        }
        ExecuteMsg::Claim {} => {
            lemma_claims_set(s, sender@, waiting(claims_of(s, "claims"@, sender@), b));
            lemma_waiting_total(claims_of(s, "claims"@, sender@), b);
        }
        ExecuteMsg::UpdateAdmin { admin } => {
            assert(unpath(item_key("admin"@)) != unpath(tkey()) && unpath(item_key("admin"@)) != unpath(item_key("config"@)));
            assert(unpath(skey(x)) != unpath(item_key("admin"@)));
        }
        ExecuteMsg::AddHook { addr } => { assert(unpath(item_key("cw4-hooks"@)) != unpath(tkey()) && unpath(item_key("cw4-hooks"@)) != unpath(item_key("config"@))); lemma_same_but5(s, t, item_key("cw4-hooks"@)); }
        ExecuteMsg::RemoveHook { addr } => { assert(unpath(item_key("cw4-hooks"@)) != unpath(tkey()) && unpath(item_key("cw4-hooks"@)) != unpath(item_key("config"@))); lemma_same_but5(s, t, item_key("cw4-hooks"@)); }
    }
}
/// matured + waiting == all claims
pub proof fn lemma_waiting_total(c: Seq<Claim>, b: &BlockInfo)
    ensures claims_total(waiting(c, b)) + matured_total(c, b) == claims_total(c)
    decreases c.len()
{
    if c.len() > 0 {
        lemma_waiting_total(c.drop_last(), b);
        if !c.last().release_at.expired(b) { assert(waiting(c, b).drop_last() =~= waiting(c.drop_last(), b)); }
    }
}

// ===================================================================== C20: member listing
@struct packages/cw4/src/query.rs MemberListResponse
@const contracts/cw4-stake/src/contract.rs MAX_LIMIT
@const contracts/cw4-stake/src/contract.rs DEFAULT_LIMIT
@include inc/paging.vsi
pub open spec fn str_cursor(c: Option<String>) -> Option<Seq<u8>> { match c { Some(s) => Some(utf8(s@)), None => None } }

@fn contracts/cw4-stake/src/contract.rs list_members [closures: 2]
@ensures C20.list_members_page C09 C06
    r is Ok ==> ({
        let pg = page(listing(deps.storage.view(), "members"@, Seq::<u8>::empty(), false), str_cursor(start_after), limit);
        r->Ok_0.members@.len() == pg.len() && forall|i: int| 0 <= i < pg.len() ==> utf8((#[trigger] r->Ok_0.members@[i]).addr@) == pg[i].0
            && u64::de(pg[i].1) == Some(r->Ok_0.members@[i].weight)
    })
@eta ".as_ref().map" 1
    __c: &Addr -> Bound<&Addr>
@closure_types 1
    item: StdResult<(Addr, u64)>
@closure 1 C20.list_members_map
    (res: StdResult<Member>)
    ensures match item { Ok((a, w)) => res is Ok && res->Ok_0.addr@ == a@ && res->Ok_0.weight == w, Err(_) => res is Err }
@closure_types 2
    __p2_0: (Addr, u64)
@closure 2 C20.list_members_entry
    (res: Member)
    ensures res.addr@ == __p2_0.0@ && res.weight == __p2_0.1
@prefix
    broadcast use string_conv;
@end

// ===================================================================== the query entry point routes every message to its query function
@enum contracts/cw4-stake/src/msg.rs QueryMsg
impl JsonT for MemberResponse { uninterp spec fn json(self) -> Seq<u8>; uninterp spec fn unjson(b: Seq<u8>) -> Option<Self>; }
impl JsonT for MemberListResponse { uninterp spec fn json(self) -> Seq<u8>; uninterp spec fn unjson(b: Seq<u8>) -> Option<Self>; }
impl JsonT for TotalWeightResponse { uninterp spec fn json(self) -> Seq<u8>; uninterp spec fn unjson(b: Seq<u8>) -> Option<Self>; }
impl JsonT for AdminResponse { uninterp spec fn json(self) -> Seq<u8>; uninterp spec fn unjson(b: Seq<u8>) -> Option<Self>; }
impl JsonT for HooksResponse { uninterp spec fn json(self) -> Seq<u8>; uninterp spec fn unjson(b: Seq<u8>) -> Option<Self>; }
impl JsonT for ClaimsResponse { uninterp spec fn json(self) -> Seq<u8>; uninterp spec fn unjson(b: Seq<u8>) -> Option<Self>; }
impl JsonT for StakedResponse { uninterp spec fn json(self) -> Seq<u8>; uninterp spec fn unjson(b: Seq<u8>) -> Option<Self>; }
@fn contracts/cw4-stake/src/contract.rs query
@ensures C09.query_routes C10 C14 C20 C06
    r is Ok ==> match msg {
        QueryMsg::Member { addr, at_height } => exists|x: MemberResponse| r->Ok_0@ == x.json() && call_ensures(query_member, (deps, addr, at_height), Ok::<MemberResponse, StdError>(x)),
        QueryMsg::TotalWeight {} => exists|x: TotalWeightResponse| r->Ok_0@ == x.json() && call_ensures(query_total_weight, (deps,), Ok::<TotalWeightResponse, StdError>(x)),
        QueryMsg::ListMembers { start_after, limit } => exists|x: MemberListResponse| r->Ok_0@ == x.json() && call_ensures(list_members, (deps, start_after, limit), Ok::<MemberListResponse, StdError>(x)),
        QueryMsg::Staked { address } => exists|x: StakedResponse| r->Ok_0@ == x.json() && call_ensures(query_staked, (deps, address), Ok::<StakedResponse, StdError>(x)),
        QueryMsg::Claims { address } => exists|x: ClaimsResponse| r->Ok_0@ == x.json() && x.claims@ == claims_of(deps.storage.view(), "claims"@, address@),
        QueryMsg::Admin {} => exists|x: AdminResponse| r->Ok_0@ == x.json() && admin_answer(deps.storage.view(), "admin"@, x),
        QueryMsg::Hooks {} => exists|x: HooksResponse| r->Ok_0@ == x.json() && hooks_answer(deps.storage.view(), "cw4-hooks"@, x),
    }
@end
