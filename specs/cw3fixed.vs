@unit cw3fixed
@shim core.rs cw_utils.rs std_more.rs cw3deps.rs cw2.rs std_adapters.rs range.rs
@properties C03 C05 C06 C20

@include inc/cw3_proposal.vsi

// ===================================================================== cw3-fixed-multisig: data and state
@struct packages/cw3/src/query.rs ProposalResponse
@struct packages/cw3/src/query.rs VoteInfo
@struct packages/cw3/src/query.rs VoteResponse
@struct packages/cw3/src/query.rs VoterResponse
@struct packages/cw3/src/query.rs VoterDetail
@struct contracts/cw3-fixed-multisig/src/msg.rs Voter
@struct contracts/cw3-fixed-multisig/src/msg.rs InstantiateMsg
@enum contracts/cw3-fixed-multisig/src/msg.rs ExecuteMsg
@enum contracts/cw3-fixed-multisig/src/error.rs ContractError
@struct contracts/cw3-fixed-multisig/src/state.rs Config
impl SerT for Config { uninterp spec fn ser(self) -> Seq<u8>; uninterp spec fn de(b: Seq<u8>) -> Option<Self>; }
impl SerT for Proposal { uninterp spec fn ser(self) -> Seq<u8>; uninterp spec fn de(b: Seq<u8>) -> Option<Self>; }
impl SerT for Ballot { uninterp spec fn ser(self) -> Seq<u8>; uninterp spec fn de(b: Seq<u8>) -> Option<Self>; }

@const contracts/cw3-fixed-multisig/src/contract.rs CONTRACT_NAME
@const contracts/cw3-fixed-multisig/src/contract.rs CONTRACT_VERSION
@const contracts/cw3-fixed-multisig/src/state.rs CONFIG
@const contracts/cw3-fixed-multisig/src/state.rs PROPOSAL_COUNT
@const contracts/cw3-fixed-multisig/src/state.rs BALLOTS
@const contracts/cw3-fixed-multisig/src/state.rs PROPOSALS
@const contracts/cw3-fixed-multisig/src/state.rs VOTERS

// ===================================================================== abstract view
pub open spec fn pkey(id: u64) -> Seq<u8> { path("proposals"@, u64_kb(id)) }
pub open spec fn bkey_raw(id: u64, ab: Seq<u8>) -> Seq<u8> { path("votes"@, pair_kb(u64_kb(id), ab)) }
pub open spec fn bkey(id: u64, a: Seq<char>) -> Seq<u8> { bkey_raw(id, utf8(a)) }
pub open spec fn vkey(a: Seq<char>) -> Seq<u8> { path("voters"@, utf8(a)) }
pub open spec fn cfg_key() -> Seq<u8> { item_key("config"@) }
pub open spec fn count_key() -> Seq<u8> { item_key("proposal_count"@) }
pub open spec fn prop(s: Raw, id: u64) -> Option<Proposal> { raw_get::<Proposal>(s, pkey(id)) }
pub open spec fn ballot(s: Raw, id: u64, a: Seq<char>) -> Option<Ballot> { raw_get::<Ballot>(s, bkey(id, a)) }
pub open spec fn voter_of(s: Raw, a: Seq<char>) -> Option<u64> { raw_get::<u64>(s, vkey(a)) }
pub open spec fn cfg_of(s: Raw) -> Option<Config> { raw_get::<Config>(s, cfg_key()) }
pub open spec fn count(s: Raw) -> u64 { match raw_get::<u64>(s, count_key()) { Some(c) => c, None => 0 } }

/// `k` is the storage key of an entry of namespace `ns` (canonical: built by `path`)
pub open spec fn in_ns(k: Seq<u8>, ns: Seq<char>) -> bool { unpath(k).0 == ns && k == path(ns, unpath(k).1) }
pub open spec fn u64val(v: Seq<u8>) -> nat { match u64_de(v) { Some(x) => x as nat, None => 0 } }
/// weight of the voter table
pub open spec fn w_voters() -> spec_fn(Seq<u8>, Seq<u8>) -> nat {
    |k: Seq<u8>, v: Seq<u8>| if in_ns(k, "voters"@) { u64val(v) } else { 0nat }
}
pub open spec fn voters_total(s: Raw) -> nat { sum_w(s, w_voters()) }
/// weight of the voters that have a ballot of kind `kind` (any kind if None) on proposal `id`, counted with their
/// weight in the voter table (C06: the snapshot the proposal was opened against is the fixed voter list)
pub open spec fn w_sel(s: Raw, id: u64, kind: Option<Vote>) -> spec_fn(Seq<u8>, Seq<u8>) -> nat {
    |k: Seq<u8>, v: Seq<u8>| if in_ns(k, "voters"@) {
        match raw_get::<Ballot>(s, bkey_raw(id, unpath(k).1)) {
            Some(b) => if kind is None || kind == Some(b.vote) { u64val(v) } else { 0nat },
            None => 0nat,
        }
    } else { 0nat }
}
pub open spec fn sel(s: Raw, id: u64, kind: Option<Vote>) -> nat { sum_w(s, w_sel(s, id, kind)) }

/// C03/C06: the stored tally of proposal `id` is, kind by kind, the weight of the voters with a recorded ballot of that kind
pub open spec fn tally_matches(s: Raw, id: u64, v: Votes) -> bool {
    v.yes == sel(s, id, Some(Vote::Yes)) && v.no == sel(s, id, Some(Vote::No))
    && v.abstain == sel(s, id, Some(Vote::Abstain)) && v.veto == sel(s, id, Some(Vote::Veto))
    && tally(v) == sel(s, id, None)
}
pub open spec fn prop_inv(s: Raw, id: u64, p: Proposal) -> bool {
    cfg_of(s) is Some && p.total_weight == cfg_of(s)->Some_0.total_weight && p.threshold == cfg_of(s)->Some_0.threshold
    && tally_matches(s, id, p.votes) && 1 <= id <= count(s)
}
pub open spec fn inv(s: Raw) -> bool {
    cfg_of(s) is Some && cfg_of(s)->Some_0.threshold.valid(cfg_of(s)->Some_0.total_weight)
    && cfg_of(s)->Some_0.total_weight == voters_total(s)
    && (forall|id: u64| #![trigger pkey(id)] prop(s, id) is Some ==> prop_inv(s, id, prop(s, id)->Some_0))
    // every ballot belongs to an existing proposal id and records its voter's weight in the voter table
    && (forall|id: u64, ab: Seq<u8>| #![trigger bkey_raw(id, ab)] s.contains_key(bkey_raw(id, ab)) ==> 1 <= id <= count(s))
    && (forall|id: u64, a: Seq<char>| #![trigger bkey(id, a)] ballot(s, id, a) is Some ==> voter_of(s, a) == Some(ballot(s, id, a)->Some_0.weight))
}

pub broadcast group cw3_axioms { ax_path, ax_utf8, ax_u64_ser, ax_u64_kb, ax_ser, ax_pair_kb, lemma_sum_insert, lemma_sum_remove_b, addr_ext }

pub proof fn lemma_ns3()
    ensures "proposals"@ != "votes"@, "proposals"@ != "voters"@, "proposals"@ != "config"@, "proposals"@ != "proposal_count"@, "proposals"@ != "contract_info"@,
        "votes"@ != "voters"@, "votes"@ != "config"@, "votes"@ != "proposal_count"@, "votes"@ != "contract_info"@,
        "voters"@ != "config"@, "voters"@ != "proposal_count"@, "voters"@ != "contract_info"@,
        "config"@ != "proposal_count"@, "config"@ != "contract_info"@, "proposal_count"@ != "contract_info"@,
{
    reveal_strlit("proposals"); reveal_strlit("votes"); reveal_strlit("voters"); reveal_strlit("config");
    reveal_strlit("proposal_count"); reveal_strlit("contract_info");
    assert("proposals"@.len() == 9); assert("votes"@.len() == 5); assert("voters"@.len() == 6); assert("config"@.len() == 6);
    assert("proposal_count"@.len() == 14); assert("contract_info"@.len() == 13);
    assert("voters"@[0] == 'v'); assert("config"@[0] == 'c');
}

/// the selected weight never exceeds the whole voter table
pub proof fn lemma_sel_le(s: Raw, id: u64, kind: Option<Vote>)
    ensures sel(s, id, kind) <= voters_total(s)
{
    lemma_sum_le(s, w_sel(s, id, kind), w_voters());
}

/// a write outside "voters" and "votes" changes no selected weight and not the voter total
pub proof fn lemma_side_write3(s: Raw, k: Seq<u8>, v: Seq<u8>, id: u64, kind: Option<Vote>)
    requires unpath(k).0 != "voters"@, unpath(k).0 != "votes"@
    ensures sel(s.insert(k, v), id, kind) == sel(s, id, kind), voters_total(s.insert(k, v)) == voters_total(s)
{
    broadcast use cw3_axioms;
    let t = s.insert(k, v);
    assert forall|k2: Seq<u8>| t.contains_key(k2) implies #[trigger] w_sel(t, id, kind)(k2, t[k2]) == w_sel(s, id, kind)(k2, t[k2]) by {
        if unpath(k2).0 == "voters"@ {
            assert(unpath(bkey_raw(id, unpath(k2).1)).0 == "votes"@);
            assert(bkey_raw(id, unpath(k2).1) != k);
        }
    }
    lemma_sum_eq(t, w_sel(t, id, kind), w_sel(s, id, kind));
}

/// casting the first ballot of voter `a` on proposal `id`: the selected weight of `id` grows by a's voter weight for
/// the matching kinds; other proposals are unaffected; the voter total is unchanged
pub proof fn lemma_cast(s: Raw, id: u64, a: Seq<char>, b: Ballot, id2: u64, kind: Option<Vote>)
    requires !s.contains_key(bkey(id, a))
    ensures
        voters_total(s.insert(bkey(id, a), b.ser())) == voters_total(s),
        id2 != id ==> sel(s.insert(bkey(id, a), b.ser()), id2, kind) == sel(s, id2, kind),
        id2 == id ==> sel(s.insert(bkey(id, a), b.ser()), id, kind) == sel(s, id, kind)
            + (if kind is None || kind == Some(b.vote) { match voter_of(s, a) { Some(w) => w as nat, None => 0nat } } else { 0nat }),
{
    broadcast use cw3_axioms;
    lemma_ns3();
    let kb = bkey(id, a);
    let t = s.insert(kb, b.ser());
    let w_t = w_sel(t, id2, kind); let w_s = w_sel(s, id2, kind);
    // the new key itself carries no weight (namespace "votes")
    assert(unpath(kb).0 == "votes"@);
    // weights over t differ from weights over s only at a's voter key, and only when id2 == id
    assert forall|k2: Seq<u8>| s.contains_key(k2) && k2 != vkey(a) implies #[trigger] w_t(k2, s[k2]) == w_s(k2, s[k2]) by {
        if in_ns(k2, "voters"@) {
            let q = bkey_raw(id2, unpath(k2).1);
            if q == kb {
                assert(unpath(q) == unpath(kb));
                assert(unpair_kb(pair_kb(u64_kb(id2), unpath(k2).1)) == unpair_kb(pair_kb(u64_kb(id), utf8(a))));
                assert(unpath(k2).1 == utf8(a));
                assert(k2 == vkey(a));
            }
        }
    }
    lemma_sum_change_one(s, w_s, w_t, vkey(a));
    // inserting kb (weight 0 in t's weights) does not change the sum
    assert(sum_w(t, w_t) + (if s.contains_key(kb) { w_t(kb, s[kb]) } else { 0nat }) == sum_w(s, w_t) + w_t(kb, b.ser()));
    if id2 != id {
        assert(u64_unkb(u64_kb(id2)) != u64_unkb(u64_kb(id)));
        assert(unpair_kb(pair_kb(u64_kb(id2), utf8(a))) != unpair_kb(pair_kb(u64_kb(id), utf8(a))));
        assert(bkey_raw(id2, utf8(a)) != kb);
    }
}

// ===================================================================== functions under contract
@fn contracts/cw3-fixed-multisig/src/state.rs next_id
@requires
    count(old(store).view()) < u64::MAX
@ensures C05.next_id_increasing
    r is Ok ==> r->Ok_0 == count(old(store).view()) + 1
        && final(store).view() == old(store).view().insert(count_key(), u64_ser(r->Ok_0))
@prefix
    broadcast use cw3_axioms;
@end

// --------------------------------------------------------------------- vote
pub open spec fn add_vote_spec(v: Votes, vote: Vote, w: u64) -> Votes {
    match vote {
        Vote::Yes => Votes { yes: (v.yes + w) as u64, ..v },
        Vote::No => Votes { no: (v.no + w) as u64, ..v },
        Vote::Abstain => Votes { abstain: (v.abstain + w) as u64, ..v },
        Vote::Veto => Votes { veto: (v.veto + w) as u64, ..v },
    }
}
pub open spec fn voted_prop(p: Proposal, vote: Vote, w: u64, b: &BlockInfo) -> Proposal {
    let p1 = Proposal { votes: add_vote_spec(p.votes, vote, w), ..p };
    Proposal { status: spec_status(p1, b), ..p1 }
}
pub open spec fn vote_allowed(s: Raw, id: u64, a: Seq<char>, b: &BlockInfo) -> bool {
    prop(s, id) is Some
    && (prop(s, id)->Some_0.status == Status::Open || prop(s, id)->Some_0.status == Status::Passed || prop(s, id)->Some_0.status == Status::Rejected)
    && !prop(s, id)->Some_0.expires.expired(b)
    && voter_of(s, a) is Some && voter_of(s, a)->Some_0 >= 1
    && ballot(s, id, a) is None && !s.contains_key(bkey(id, a))
}
pub open spec fn vote_result(s: Raw, id: u64, a: Seq<char>, vote: Vote, b: &BlockInfo) -> Raw {
    s.insert(bkey(id, a), (Ballot { weight: voter_of(s, a)->Some_0, vote }).ser())
     .insert(pkey(id), voted_prop(prop(s, id)->Some_0, vote, voter_of(s, a)->Some_0, b).ser())
}
/// C06 / C03: one successful Vote call
pub open spec fn step_vote(s: Raw, t: Raw, a: Seq<char>, b: &BlockInfo, id: u64, vote: Vote) -> bool {
    vote_allowed(s, id, a, b) && t == vote_result(s, id, a, vote, b)
}

pub proof fn lemma_vote_preserves(s: Raw, id: u64, a: Seq<char>, vote: Vote, b: &BlockInfo)
    requires inv(s), vote_allowed(s, id, a, b)
    ensures
        tally(prop(s, id)->Some_0.votes) + voter_of(s, a)->Some_0 <= prop(s, id)->Some_0.total_weight,
        prop_wf(prop(s, id)->Some_0),
        inv(vote_result(s, id, a, vote, b)),
{
    broadcast use cw3_axioms;
    lemma_ns3();
    let p = prop(s, id)->Some_0;
    let w = voter_of(s, a)->Some_0;
    let bl = Ballot { weight: w, vote };
    let t1 = s.insert(bkey(id, a), bl.ser());
    let p2 = voted_prop(p, vote, w, b);
    let t = t1.insert(pkey(id), p2.ser());
    assert(t == vote_result(s, id, a, vote, b));
    // the five sums of proposal `id`
    lemma_cast(s, id, a, bl, id, None); lemma_cast(s, id, a, bl, id, Some(Vote::Yes)); lemma_cast(s, id, a, bl, id, Some(Vote::No));
    lemma_cast(s, id, a, bl, id, Some(Vote::Abstain)); lemma_cast(s, id, a, bl, id, Some(Vote::Veto));
    lemma_side_write3(t1, pkey(id), p2.ser(), id, None); lemma_side_write3(t1, pkey(id), p2.ser(), id, Some(Vote::Yes));
    lemma_side_write3(t1, pkey(id), p2.ser(), id, Some(Vote::No)); lemma_side_write3(t1, pkey(id), p2.ser(), id, Some(Vote::Abstain));
    lemma_side_write3(t1, pkey(id), p2.ser(), id, Some(Vote::Veto));
    lemma_sel_le(t1, id, None);
    assert(prop_inv(s, id, p));
    assert(tally(p.votes) + w <= p.total_weight);
    lemma_sel_le(s, id, None);
    // frame: config, count, voters untouched
    assert(unpath(cfg_key()) != unpath(bkey(id, a)) && unpath(cfg_key()) != unpath(pkey(id)));
    assert(unpath(count_key()) != unpath(bkey(id, a)) && unpath(count_key()) != unpath(pkey(id)));
    assert(cfg_of(t) == cfg_of(s) && count(t) == count(s));
    assert forall|x: Seq<char>| voter_of(t, x) == voter_of(s, x) by {
        assert(unpath(vkey(x)) != unpath(bkey(id, a)) && unpath(vkey(x)) != unpath(pkey(id)));
    }
    assert(prop(t, id) == Some(p2));
    assert(prop_inv(t, id, p2));
    assert forall|id2: u64| prop(t, id2) is Some implies prop_inv(t, id2, prop(t, id2)->Some_0) by {
        if id2 != id {
            assert(u64_unkb(u64_kb(id2)) != u64_unkb(u64_kb(id)));
            assert(unpath(pkey(id2)) != unpath(pkey(id)) && unpath(pkey(id2)) != unpath(bkey(id, a)));
            assert(prop(t, id2) == prop(s, id2));
            assert(prop_inv(s, id2, prop(s, id2)->Some_0));
            lemma_cast(s, id, a, bl, id2, None); lemma_cast(s, id, a, bl, id2, Some(Vote::Yes)); lemma_cast(s, id, a, bl, id2, Some(Vote::No));
            lemma_cast(s, id, a, bl, id2, Some(Vote::Abstain)); lemma_cast(s, id, a, bl, id2, Some(Vote::Veto));
            lemma_side_write3(t1, pkey(id), p2.ser(), id2, None); lemma_side_write3(t1, pkey(id), p2.ser(), id2, Some(Vote::Yes));
            lemma_side_write3(t1, pkey(id), p2.ser(), id2, Some(Vote::No)); lemma_side_write3(t1, pkey(id), p2.ser(), id2, Some(Vote::Abstain));
            lemma_side_write3(t1, pkey(id), p2.ser(), id2, Some(Vote::Veto));
        }
    }
    lemma_side_write3(t1, pkey(id), p2.ser(), id, None);
    assert(voters_total(t) == voters_total(s));
    assert forall|id2: u64, ab: Seq<u8>| t.contains_key(bkey_raw(id2, ab)) implies 1 <= id2 <= count(t) by {
        assert(unpath(bkey_raw(id2, ab)) != unpath(pkey(id)));
        if bkey_raw(id2, ab) == bkey(id, a) {
            assert(unpair_kb(pair_kb(u64_kb(id2), ab)) == unpair_kb(pair_kb(u64_kb(id), utf8(a))));
            assert(u64_unkb(u64_kb(id2)) == u64_unkb(u64_kb(id)));
        } else {
            assert(s.contains_key(bkey_raw(id2, ab)));
        }
    }
    assert forall|id2: u64, x: Seq<char>| ballot(t, id2, x) is Some implies voter_of(t, x) == Some(ballot(t, id2, x)->Some_0.weight) by {
        assert(unpath(bkey(id2, x)) != unpath(pkey(id)));
        if bkey(id2, x) == bkey(id, a) {
            assert(unpair_kb(pair_kb(u64_kb(id2), utf8(x))) == unpair_kb(pair_kb(u64_kb(id), utf8(a))));
            assert(unutf8(utf8(x)) == unutf8(utf8(a)));
        } else {
            assert(ballot(t, id2, x) == ballot(s, id2, x));
        }
    }
}

@fn contracts/cw3-fixed-multisig/src/contract.rs execute_vote [closures: 1]
@requires
    inv(old(deps.storage).view())
@ensures C06.vote_exact C03 C05
    r is Ok ==> step_vote(old(deps.storage).view(), final(deps.storage).view(), info.sender@, &env.block, proposal_id, vote)
@ensures C03.vote_inv C05 C06
    r is Ok ==> inv(final(deps.storage).view())
@ensures C05.vote_nomsg
    r is Ok ==> r->Ok_0.messages@.len() == 0
@ensures C06.an_entitled_voter_is_never_refused C03
    vote_allowed(old(deps.storage).view(), proposal_id, info.sender@, &env.block) ==> r is Ok
@closure 1 C06.vote_once
    (res: Result<Ballot, ContractError>)
    ensures res is Ok ==> bal is None && res->Ok_0 == (Ballot { weight: vote_power, vote }), bal is None ==> res is Ok
@prefix
    broadcast use cw3_axioms;
    proof {
        if vote_allowed(old(deps.storage).view(), proposal_id, info.sender@, &env.block) {
            lemma_vote_preserves(old(deps.storage).view(), proposal_id, info.sender@, vote, &env.block);
        }
    }
@end

// --------------------------------------------------------------------- execute / close
/// rewriting a stored proposal without touching its tally, threshold and total keeps the invariant
pub proof fn lemma_prop_write(s: Raw, id: u64, p2: Proposal)
    requires inv(s), prop(s, id) is Some,
        p2.votes == prop(s, id)->Some_0.votes, p2.threshold == prop(s, id)->Some_0.threshold, p2.total_weight == prop(s, id)->Some_0.total_weight,
    ensures inv(s.insert(pkey(id), p2.ser())), prop(s.insert(pkey(id), p2.ser()), id) == Some(p2),
        forall|id2: u64| id2 != id ==> prop(s.insert(pkey(id), p2.ser()), id2) == prop(s, id2),
{
    broadcast use cw3_axioms;
    lemma_ns3();
    let t = s.insert(pkey(id), p2.ser());
    assert(unpath(cfg_key()) != unpath(pkey(id)) && unpath(count_key()) != unpath(pkey(id)));
    assert(cfg_of(t) == cfg_of(s) && count(t) == count(s));
    assert forall|id2: u64| id2 != id implies prop(t, id2) == prop(s, id2) by {
        assert(u64_unkb(u64_kb(id2)) != u64_unkb(u64_kb(id)));
        assert(unpath(pkey(id2)) != unpath(pkey(id)));
    }
    assert forall|id2: u64| prop(t, id2) is Some implies prop_inv(t, id2, prop(t, id2)->Some_0) by {
        lemma_side_write3(s, pkey(id), p2.ser(), id2, None); lemma_side_write3(s, pkey(id), p2.ser(), id2, Some(Vote::Yes));
        lemma_side_write3(s, pkey(id), p2.ser(), id2, Some(Vote::No)); lemma_side_write3(s, pkey(id), p2.ser(), id2, Some(Vote::Abstain));
        lemma_side_write3(s, pkey(id), p2.ser(), id2, Some(Vote::Veto));
        if id2 != id { assert(prop(t, id2) == prop(s, id2)); assert(prop_inv(s, id2, prop(s, id2)->Some_0)); }
        else { assert(prop_inv(s, id, prop(s, id)->Some_0)); }
    }
    lemma_side_write3(s, pkey(id), p2.ser(), id, None);
    assert forall|id2: u64, ab: Seq<u8>| t.contains_key(bkey_raw(id2, ab)) implies 1 <= id2 <= count(t) by {
        assert(unpath(bkey_raw(id2, ab)) != unpath(pkey(id)));
        assert(s.contains_key(bkey_raw(id2, ab)));
    }
    assert forall|id2: u64, x: Seq<char>| ballot(t, id2, x) is Some implies voter_of(t, x) == Some(ballot(t, id2, x)->Some_0.weight) by {
        assert(unpath(bkey(id2, x)) != unpath(pkey(id)) && unpath(vkey(x)) != unpath(pkey(id)));
        assert(ballot(t, id2, x) == ballot(s, id2, x));
    }
}
/// every stored proposal is well-formed for the threshold functions (valid threshold, tally within the total)
pub proof fn lemma_stored_wf(s: Raw, id: u64)
    requires inv(s), prop(s, id) is Some
    ensures prop_wf(prop(s, id)->Some_0)
{
    assert(prop_inv(s, id, prop(s, id)->Some_0));
    lemma_sel_le(s, id, None);
}

pub open spec fn step_execute(s: Raw, t: Raw, b: &BlockInfo, id: u64) -> bool {
    prop(s, id) is Some && spec_status(prop(s, id)->Some_0, b) == Status::Passed
    && t == s.insert(pkey(id), (Proposal { status: Status::Executed, ..prop(s, id)->Some_0 }).ser())
}
pub open spec fn step_close(s: Raw, t: Raw, b: &BlockInfo, id: u64) -> bool {
    prop(s, id) is Some
    && prop(s, id)->Some_0.status != Status::Executed && prop(s, id)->Some_0.status != Status::Rejected && prop(s, id)->Some_0.status != Status::Passed
    && spec_status(prop(s, id)->Some_0, b) != Status::Passed
    && prop(s, id)->Some_0.expires.expired(b)
    && t == s.insert(pkey(id), (Proposal { status: Status::Rejected, ..prop(s, id)->Some_0 }).ser())
}

@fn contracts/cw3-fixed-multisig/src/contract.rs execute_execute
@requires
    inv(old(deps.storage).view())
@ensures C05.execute_refused_leaves_no_trace C03
    r is Err ==> final(deps.storage).view() == old(deps.storage).view()
@ensures C05.execute_only_passed C03
    r is Ok ==> step_execute(old(deps.storage).view(), final(deps.storage).view(), &env.block, proposal_id)
@ensures C05.execute_dispatches_exactly
    r is Ok ==> r->Ok_0.messages@ == submsgs_of(prop(old(deps.storage).view(), proposal_id)->Some_0.msgs@)
@ensures C05.execute_inv C03 C06
    r is Ok ==> inv(final(deps.storage).view())
@ensures C05.execute_goes_through_on_passed_proposals C03
    prop(old(deps.storage).view(), proposal_id) is Some && spec_status(prop(old(deps.storage).view(), proposal_id)->Some_0, &env.block) == Status::Passed ==> r is Ok
@prefix
    broadcast use cw3_axioms;
    proof {
        if prop(old(deps.storage).view(), proposal_id) is Some {
            lemma_stored_wf(old(deps.storage).view(), proposal_id);
            lemma_prop_write(old(deps.storage).view(), proposal_id, Proposal { status: Status::Executed, ..prop(old(deps.storage).view(), proposal_id)->Some_0 });
        }
    }
@end

@fn contracts/cw3-fixed-multisig/src/contract.rs execute_close
@requires
    inv(old(deps.storage).view())
@ensures C05.close_refused_leaves_no_trace C03
    r is Err ==> final(deps.storage).view() == old(deps.storage).view()
@ensures C05.close_only_expired_unpassed C03
    r is Ok ==> step_close(old(deps.storage).view(), final(deps.storage).view(), &env.block, proposal_id)
@ensures C05.close_dispatches_nothing
    r is Ok ==> r->Ok_0.messages@.len() == 0
@ensures C05.close_inv C03 C06
    r is Ok ==> inv(final(deps.storage).view())
@ensures C05.close_goes_through_on_failed_proposals C03
    prop(old(deps.storage).view(), proposal_id) is Some && ({
        let p = prop(old(deps.storage).view(), proposal_id)->Some_0;
        p.status != Status::Executed && p.status != Status::Rejected && p.status != Status::Passed
        && spec_status(p, &env.block) != Status::Passed && p.expires.expired(&env.block)
    }) ==> r is Ok
@prefix
    broadcast use cw3_axioms;
    proof {
        if prop(old(deps.storage).view(), proposal_id) is Some {
            lemma_stored_wf(old(deps.storage).view(), proposal_id);
            lemma_prop_write(old(deps.storage).view(), proposal_id, Proposal { status: Status::Rejected, ..prop(old(deps.storage).view(), proposal_id)->Some_0 });
        }
    }
@end

// --------------------------------------------------------------------- propose
pub open spec fn clamp_expiry(latest: Option<Expiration>, max: Expiration) -> Option<Expiration> {
    let e = match latest { Some(x) => x, None => max };
    if !e.comparable(max) { None } else if e.le_spec(max) { Some(e) } else { Some(max) }
}
pub open spec fn new_prop(s: Raw, sender: Addr, b: &BlockInfo, title: String, description: String, msgs: Vec<CosmosMsg<Empty>>, expires: Expiration) -> Proposal {
    let p0 = Proposal {
        title, description, start_height: b.height, expires, msgs, status: Status::Open,
        threshold: cfg_of(s)->Some_0.threshold, total_weight: cfg_of(s)->Some_0.total_weight,
        votes: Votes { yes: voter_of(s, sender@)->Some_0, no: 0, abstain: 0, veto: 0 },
        proposer: sender, deposit: None,
    };
    Proposal { status: spec_status(p0, b), ..p0 }
}
pub open spec fn propose_result(s: Raw, sender: Addr, p: Proposal) -> Raw {
    let id = (count(s) + 1) as u64;
    s.insert(count_key(), u64_ser(id)).insert(pkey(id), p.ser())
     .insert(bkey(id, sender@), (Ballot { weight: voter_of(s, sender@)->Some_0, vote: Vote::Yes }).ser())
}
/// C05 / C06: one successful Propose call
pub open spec fn step_propose(s: Raw, t: Raw, sender: Addr, b: &BlockInfo, title: String, description: String, msgs: Vec<CosmosMsg<Empty>>, latest: Option<Expiration>) -> bool {
    voter_of(s, sender@) is Some && cfg_of(s) is Some
    && clamp_expiry(latest, cfg_of(s)->Some_0.max_voting_period.after_spec(b)) is Some
    && t == propose_result(s, sender, new_prop(s, sender, b, title, description, msgs,
            clamp_expiry(latest, cfg_of(s)->Some_0.max_voting_period.after_spec(b))->Some_0))
}

pub proof fn lemma_no_ballots_zero(s: Raw, id: u64, kind: Option<Vote>)
    requires forall|ab: Seq<u8>| !s.contains_key(#[trigger] bkey_raw(id, ab))
    ensures sel(s, id, kind) == 0
{
    lemma_sum_zero(s, w_sel(s, id, kind));
}

pub proof fn lemma_propose_preserves(s: Raw, sender: Addr, p: Proposal)
    requires inv(s), voter_of(s, sender@) is Some, count(s) < u64::MAX,
        p.votes == (Votes { yes: voter_of(s, sender@)->Some_0, no: 0, abstain: 0, veto: 0 }),
        p.threshold == cfg_of(s)->Some_0.threshold, p.total_weight == cfg_of(s)->Some_0.total_weight,
    ensures inv(propose_result(s, sender, p)), voter_of(s, sender@)->Some_0 <= cfg_of(s)->Some_0.total_weight,
        prop(propose_result(s, sender, p), (count(s) + 1) as u64) == Some(p),
        count(propose_result(s, sender, p)) == count(s) + 1,
        forall|id2: u64| id2 != count(s) + 1 ==> prop(propose_result(s, sender, p), id2) == prop(s, id2),
{
    broadcast use cw3_axioms;
    lemma_ns3();
    let id = (count(s) + 1) as u64;
    let a = sender@;
    let w = voter_of(s, a)->Some_0;
    let bl = Ballot { weight: w, vote: Vote::Yes };
    let t0 = s.insert(count_key(), u64_ser(id));
    let t1 = t0.insert(pkey(id), p.ser());
    let t = t1.insert(bkey(id, a), bl.ser());
    assert(t == propose_result(s, sender, p));
    // a's weight is one summand of the voter table
    lemma_sum_ge_one(s, w_voters(), vkey(a));
    assert(w <= voters_total(s));
    // fresh id: no ballots, no proposal
    assert forall|ab: Seq<u8>| !s.contains_key(#[trigger] bkey_raw(id, ab)) by {
        if s.contains_key(bkey_raw(id, ab)) { assert(1 <= id <= count(s)); }
    }
    assert(prop(s, id) is None) by { if prop(s, id) is Some { assert(prop_inv(s, id, prop(s, id)->Some_0)); } }
    assert(unpath(cfg_key()) != unpath(count_key()) && unpath(cfg_key()) != unpath(pkey(id)) && unpath(cfg_key()) != unpath(bkey(id, a)));
    assert(unpath(count_key()) != unpath(pkey(id)) && unpath(count_key()) != unpath(bkey(id, a)));
    assert(cfg_of(t) == cfg_of(s) && count(t) == id);
    assert forall|x: Seq<char>| voter_of(t, x) == voter_of(s, x) by {
        assert(unpath(vkey(x)) != unpath(count_key()) && unpath(vkey(x)) != unpath(pkey(id)) && unpath(vkey(x)) != unpath(bkey(id, a)));
    }
    assert(unpath(pkey(id)) != unpath(bkey(id, a)));
    assert(prop(t, id) == Some(p));
    assert forall|id2: u64| id2 != id implies prop(t, id2) == prop(s, id2) by {
        assert(u64_unkb(u64_kb(id2)) != u64_unkb(u64_kb(id)));
        assert(unpath(pkey(id2)) != unpath(pkey(id)) && unpath(pkey(id2)) != unpath(count_key()) && unpath(pkey(id2)) != unpath(bkey(id, a)));
    }
    // sums: side writes (count, proposal), then the proposer's ballot
    assert forall|id2: u64, kind: Option<Vote>| true implies
        #[trigger] sel(t, id2, kind) == sel(s, id2, kind) + (if id2 == id && (kind is None || kind == Some(Vote::Yes)) { w as nat } else { 0nat }) by {
        lemma_side_write3(s, count_key(), u64_ser(id), id2, kind);
        lemma_side_write3(t0, pkey(id), p.ser(), id2, kind);
        assert(!t1.contains_key(bkey(id, a))) by { assert(!s.contains_key(bkey_raw(id, utf8(a)))); }
        lemma_cast(t1, id, a, bl, id2, kind);
        assert(voter_of(t1, a) == voter_of(s, a)) by {
            assert(unpath(vkey(a)) != unpath(count_key()) && unpath(vkey(a)) != unpath(pkey(id)));
        }
    }
    lemma_no_ballots_zero(s, id, None); lemma_no_ballots_zero(s, id, Some(Vote::Yes)); lemma_no_ballots_zero(s, id, Some(Vote::No));
    lemma_no_ballots_zero(s, id, Some(Vote::Abstain)); lemma_no_ballots_zero(s, id, Some(Vote::Veto));
    assert(sel(t, id, None) == w && sel(t, id, Some(Vote::Yes)) == w && sel(t, id, Some(Vote::No)) == 0
        && sel(t, id, Some(Vote::Abstain)) == 0 && sel(t, id, Some(Vote::Veto)) == 0);
    assert(prop_inv(t, id, p));
    lemma_side_write3(s, count_key(), u64_ser(id), id, None);
    lemma_side_write3(t0, pkey(id), p.ser(), id, None);
    lemma_cast(t1, id, a, bl, id, None);
    assert(voters_total(t) == voters_total(s));
    assert forall|id2: u64| prop(t, id2) is Some implies prop_inv(t, id2, prop(t, id2)->Some_0) by {
        if id2 != id {
            assert(prop(t, id2) == prop(s, id2));
            assert(prop_inv(s, id2, prop(s, id2)->Some_0));
            assert(sel(t, id2, None) == sel(s, id2, None) && sel(t, id2, Some(Vote::Yes)) == sel(s, id2, Some(Vote::Yes))
                && sel(t, id2, Some(Vote::No)) == sel(s, id2, Some(Vote::No)) && sel(t, id2, Some(Vote::Abstain)) == sel(s, id2, Some(Vote::Abstain))
                && sel(t, id2, Some(Vote::Veto)) == sel(s, id2, Some(Vote::Veto)));
        }
    }
    assert forall|id2: u64, ab: Seq<u8>| t.contains_key(bkey_raw(id2, ab)) implies 1 <= id2 <= count(t) by {
        assert(unpath(bkey_raw(id2, ab)) != unpath(pkey(id)) && unpath(bkey_raw(id2, ab)) != unpath(count_key()));
        if bkey_raw(id2, ab) == bkey(id, a) {
            assert(unpair_kb(pair_kb(u64_kb(id2), ab)) == unpair_kb(pair_kb(u64_kb(id), utf8(a))));
            assert(u64_unkb(u64_kb(id2)) == u64_unkb(u64_kb(id)));
        } else {
            assert(s.contains_key(bkey_raw(id2, ab)));
        }
    }
    assert forall|id2: u64, x: Seq<char>| ballot(t, id2, x) is Some implies voter_of(t, x) == Some(ballot(t, id2, x)->Some_0.weight) by {
        assert(unpath(bkey(id2, x)) != unpath(pkey(id)) && unpath(bkey(id2, x)) != unpath(count_key()));
        if bkey(id2, x) == bkey(id, a) {
            assert(unpair_kb(pair_kb(u64_kb(id2), utf8(x))) == unpair_kb(pair_kb(u64_kb(id), utf8(a))));
            assert(unutf8(utf8(x)) == unutf8(utf8(a)));
        } else {
            assert(ballot(t, id2, x) == ballot(s, id2, x));
        }
    }
}

@fn contracts/cw3-fixed-multisig/src/contract.rs execute_propose
@requires
    inv(old(deps.storage).view()),
    count(old(deps.storage).view()) < u64::MAX
@ensures C05.propose_exact C06 C03
    r is Ok ==> step_propose(old(deps.storage).view(), final(deps.storage).view(), info.sender, &env.block, title, description, msgs, latest)
@ensures C05.propose_inv C03 C06
    r is Ok ==> inv(final(deps.storage).view())
@ensures C05.propose_nomsg
    r is Ok ==> r->Ok_0.messages@.len() == 0
@prefix
    broadcast use cw3_axioms;
    proof {
        let s = old(deps.storage).view();
        if voter_of(s, info.sender@) is Some && clamp_expiry(latest, cfg_of(s)->Some_0.max_voting_period.after_spec(&env.block)) is Some {
            lemma_propose_preserves(s, info.sender, new_prop(s, info.sender, &env.block, title, description, msgs,
                clamp_expiry(latest, cfg_of(s)->Some_0.max_voting_period.after_spec(&env.block))->Some_0));
        }
    }
@end

// --------------------------------------------------------------------- instantiate (C06: total weight == sum of the voter table)
pub open spec fn wsum(vs: Seq<Voter>, n: int) -> nat decreases n {
    if n <= 0 { 0 } else { wsum(vs, n - 1) + vs[n - 1].weight as nat }
}
pub proof fn lemma_wsum(vs: Seq<Voter>, ws: Seq<u64>, n: int)
    requires 0 <= n <= vs.len(), ws.len() == vs.len(), forall|i: int| 0 <= i < vs.len() ==> ws[i] == vs[i].weight
    ensures seq_sum_u64(ws.take(n)) == wsum(vs, n)
    decreases n
{
    if n > 0 {
        lemma_wsum(vs, ws, n - 1);
        assert(ws.take(n).drop_last() =~= ws.take(n - 1));
    }
}

@fn contracts/cw3-fixed-multisig/src/contract.rs instantiate [loops: 1]
@requires
    old(deps.storage).view() == SMap::<Seq<u8>, Seq<u8>>::empty()
@ensures C06.instantiate_total_is_sum C03 C05
    r is Ok ==> inv(final(deps.storage).view())
@ensures C06.instantiate_voters
    r is Ok ==> forall|j: int| 0 <= j < msg.voters@.len() ==> voter_of(final(deps.storage).view(), (#[trigger] msg.voters@[j]).addr@) == Some(msg.voters@[j].weight)
@ensures C05.instantiate_no_proposals
    r is Ok ==> count(final(deps.storage).view()) == 0
@ensures C05.instantiate_config_as_given C03 C06
    r is Ok ==> cfg_of(final(deps.storage).view()) is Some && cfg_of(final(deps.storage).view())->Some_0.threshold == msg.threshold
        && cfg_of(final(deps.storage).view())->Some_0.max_voting_period == msg.max_voting_period
@adapter map_sum 1
@closure_types 1
    v: &Voter
@closure 1 C06.instantiate_weight_closure
    (res: u64)
    ensures res == v.weight
@loop 1 C06.instantiate_loop
    invariant
        it.index@ <= msg.voters@.len(),
        voters_total(deps.storage.view()) == wsum(msg.voters@, it.index@ as int),
        forall|k: Seq<u8>| deps.storage.view().contains_key(k) ==> k == cw2_key() || k == cfg_key() || unpath(k).0 == "voters"@,
        cfg_of(deps.storage.view()) == Some(cfg),
        forall|j: int| 0 <= j < it.index@ ==> voter_of(deps.storage.view(), (#[trigger] msg.voters@[j]).addr@) == Some(msg.voters@[j].weight),
@prefix
    broadcast use cw3_axioms;
    proof { lemma_ns3(); }
@insert_before "msg.threshold.validate(total_weight)?" 1
    proof {
        let ws = choose|ws: Seq<u64>| #![auto] ws.len() == msg.voters@.len() && (forall|i: int| 0 <= i < msg.voters@.len() ==> ws[i] == msg.voters@[i].weight) && seq_sum_u64(ws) == total_weight;
        lemma_wsum(msg.voters@, ws, msg.voters@.len() as int);
        assert(ws.take(ws.len() as int) =~= ws);
    }
@insert_before "for voter in msg.voters.iter()" 1
    proof {
        lemma_sum_zero(deps.storage.view(), w_voters());
    }
@insert_before "VOTERS.save(" 1
    let ghost pre = deps.storage.view();
@loop_end 1
    proof {
        broadcast use cw3_axioms;
        lemma_ns3();
        let post = deps.storage.view();
        let i = it.index@ as int;
        assert(post == pre.insert(vkey(key@), u64_ser(voter.weight)));
        assert(unpath(cfg_key()) != unpath(vkey(key@)));
        assert forall|j: int| 0 <= j < i implies voter_of(post, (#[trigger] msg.voters@[j]).addr@) == Some(msg.voters@[j].weight) by {
            // distinct from the key just written (it was not present before)
            assert(pre.contains_key(vkey(msg.voters@[j].addr@)));
        }
    }
@insert_before "Ok(Response::default())" 1
    proof {
        broadcast use cw3_axioms;
        let t = deps.storage.view();
        assert forall|id: u64| prop(t, id) is None by { assert(!t.contains_key(pkey(id))) by { assert(unpath(pkey(id)).0 == "proposals"@); } }
        assert forall|id: u64, ab: Seq<u8>| !t.contains_key(#[trigger] bkey_raw(id, ab)) by { assert(unpath(bkey_raw(id, ab)).0 == "votes"@); }
        assert(!t.contains_key(count_key())) by { assert(unpath(count_key()).0 == "proposal_count"@); }
    }
@end

// --------------------------------------------------------------------- dispatcher and queries
pub open spec fn step_msg(s: Raw, t: Raw, sender: Addr, b: &BlockInfo, msg: ExecuteMsg) -> bool {
    match msg {
        ExecuteMsg::Propose { title, description, msgs, latest } => step_propose(s, t, sender, b, title, description, msgs, latest),
        ExecuteMsg::Vote { proposal_id, vote } => step_vote(s, t, sender@, b, proposal_id, vote),
        ExecuteMsg::Execute { proposal_id } => step_execute(s, t, b, proposal_id),
        ExecuteMsg::Close { proposal_id } => step_close(s, t, b, proposal_id),
    }
}
/// messages dispatched by one successful call: the proposal's own messages on Execute, nothing otherwise
pub open spec fn dispatch_ok(s: Raw, msgs: Seq<SubMsg<Empty>>, msg: ExecuteMsg) -> bool {
    match msg {
        ExecuteMsg::Execute { proposal_id } => msgs == submsgs_of(prop(s, proposal_id)->Some_0.msgs@),
        _ => msgs.len() == 0,
    }
}

@fn contracts/cw3-fixed-multisig/src/contract.rs execute
@requires
    inv(old(deps.storage).view()),
    count(old(deps.storage).view()) < u64::MAX
@ensures C05.execute_step C03 C06
    r is Ok ==> step_msg(old(deps.storage).view(), final(deps.storage).view(), info.sender, &env.block, msg)
@ensures C05.execute_inv C03 C06
    r is Ok ==> inv(final(deps.storage).view())
@ensures C05.execute_dispatch
    r is Ok ==> dispatch_ok(old(deps.storage).view(), r->Ok_0.messages@, msg)
@end

@fn contracts/cw3-fixed-multisig/src/contract.rs query_proposal
@requires
    inv(deps.storage.view())
@ensures C03.query_status
    r is Ok ==> prop(deps.storage.view(), id) is Some && r->Ok_0.status == spec_status(prop(deps.storage.view(), id)->Some_0, &env.block)
@ensures C05.query_content
    r is Ok ==> r->Ok_0.id == id && r->Ok_0.msgs == prop(deps.storage.view(), id)->Some_0.msgs && r->Ok_0.expires == prop(deps.storage.view(), id)->Some_0.expires
        && r->Ok_0.proposer == prop(deps.storage.view(), id)->Some_0.proposer
        && r->Ok_0.title == prop(deps.storage.view(), id)->Some_0.title && r->Ok_0.description == prop(deps.storage.view(), id)->Some_0.description
@ensures C06.query_threshold_total
    r is Ok ==> r->Ok_0.threshold == (match prop(deps.storage.view(), id)->Some_0.threshold {
        Threshold::AbsoluteCount { weight } => ThresholdResponse::AbsoluteCount { weight, total_weight: prop(deps.storage.view(), id)->Some_0.total_weight },
        Threshold::AbsolutePercentage { percentage } => ThresholdResponse::AbsolutePercentage { percentage, total_weight: prop(deps.storage.view(), id)->Some_0.total_weight },
        Threshold::ThresholdQuorum { threshold, quorum } => ThresholdResponse::ThresholdQuorum { threshold, quorum, total_weight: prop(deps.storage.view(), id)->Some_0.total_weight },
    })
@prefix
    broadcast use cw3_axioms;
    proof { if prop(deps.storage.view(), id) is Some { lemma_stored_wf(deps.storage.view(), id); } }
@end

@fn contracts/cw3-fixed-multisig/src/contract.rs query_vote [closures: 1]
@ensures C06.query_vote
    r is Ok ==> match ballot(deps.storage.view(), proposal_id, voter@) {
        Some(b) => r->Ok_0.vote is Some && r->Ok_0.vote->Some_0.weight == b.weight && r->Ok_0.vote->Some_0.vote == b.vote
            && r->Ok_0.vote->Some_0.proposal_id == proposal_id && r->Ok_0.vote->Some_0.voter@ == voter@,
        None => r->Ok_0.vote is None,
    }
@closure 1 C06.query_vote_map
    (res: VoteInfo)
    ensures res.proposal_id == proposal_id && res.vote == b.vote && res.weight == b.weight && res.voter@ == voter@
@prefix
    broadcast use cw3_axioms, string_conv;
@end

@fn contracts/cw3-fixed-multisig/src/contract.rs query_voter
@ensures C06.query_voter
    r is Ok ==> r->Ok_0.weight == voter_of(deps.storage.view(), voter@)
@prefix
    broadcast use cw3_axioms;
@end

@fn contracts/cw3-fixed-multisig/src/contract.rs query_threshold
@ensures C06.query_threshold
    r is Ok ==> cfg_of(deps.storage.view()) is Some && r->Ok_0 == (match cfg_of(deps.storage.view())->Some_0.threshold {
        Threshold::AbsoluteCount { weight } => ThresholdResponse::AbsoluteCount { weight, total_weight: cfg_of(deps.storage.view())->Some_0.total_weight },
        Threshold::AbsolutePercentage { percentage } => ThresholdResponse::AbsolutePercentage { percentage, total_weight: cfg_of(deps.storage.view())->Some_0.total_weight },
        Threshold::ThresholdQuorum { threshold, quorum } => ThresholdResponse::ThresholdQuorum { threshold, quorum, total_weight: cfg_of(deps.storage.view())->Some_0.total_weight },
    })
@end

@include inc/cw3_lemmas.vsi

// ===================================================================== history lemmas (C03, C05, C06) over the dispatcher's contract
pub open spec fn exec_post(s: Raw, t: Raw, sender: Addr, b: &BlockInfo, msg: ExecuteMsg) -> bool { step_msg(s, t, sender, b, msg) && inv(t) }
pub open spec fn same_content(p: Proposal, q: Proposal) -> bool {
    q.title == p.title && q.description == p.description && q.start_height == p.start_height && q.expires == p.expires && q.msgs == p.msgs
    && q.threshold == p.threshold && q.total_weight == p.total_weight && q.proposer == p.proposer && q.deposit == p.deposit
}
/// allowed moves of the stored status
pub open spec fn status_forward(a: Status, b: Status) -> bool {
    a == b || ((a == Status::Open || a == Status::Pending) && (b == Status::Passed || b == Status::Rejected || b == Status::Executed))
    || (a == Status::Passed && b == Status::Executed)
}
pub proof fn lemma_frame_fixed(s: Raw, t: Raw, sender: Addr, b: &BlockInfo, msg: ExecuteMsg)
    requires inv(s), step_msg(s, t, sender, b, msg), count(s) < u64::MAX
    ensures cfg_of(t) == cfg_of(s), forall|x: Seq<char>| voter_of(t, x) == voter_of(s, x),
        count(t) == (if msg is Propose { count(s) + 1 } else { count(s) as int }),
{
    broadcast use cw3_axioms;
    lemma_ns3();
    match msg {
        ExecuteMsg::Propose { title, description, msgs, latest } => {
            let p = new_prop(s, sender, b, title, description, msgs, clamp_expiry(latest, cfg_of(s)->Some_0.max_voting_period.after_spec(b))->Some_0);
            lemma_propose_preserves(s, sender, p);
            let id = (count(s) + 1) as u64;
            assert forall|x: Seq<char>| voter_of(t, x) == voter_of(s, x) by {
                assert(unpath(vkey(x)) != unpath(count_key()) && unpath(vkey(x)) != unpath(pkey(id)) && unpath(vkey(x)) != unpath(bkey(id, sender@)));
            }
            assert(unpath(cfg_key()) != unpath(count_key()) && unpath(cfg_key()) != unpath(pkey(id)) && unpath(cfg_key()) != unpath(bkey(id, sender@)));
        }
        ExecuteMsg::Vote { proposal_id, vote } => {
            assert forall|x: Seq<char>| voter_of(t, x) == voter_of(s, x) by {
                assert(unpath(vkey(x)) != unpath(pkey(proposal_id)) && unpath(vkey(x)) != unpath(bkey(proposal_id, sender@)));
            }
            assert(unpath(cfg_key()) != unpath(pkey(proposal_id)) && unpath(cfg_key()) != unpath(bkey(proposal_id, sender@)));
            assert(unpath(count_key()) != unpath(pkey(proposal_id)) && unpath(count_key()) != unpath(bkey(proposal_id, sender@)));
        }
        ExecuteMsg::Execute { proposal_id } => {
            assert forall|x: Seq<char>| voter_of(t, x) == voter_of(s, x) by { assert(unpath(vkey(x)) != unpath(pkey(proposal_id))); }
            assert(unpath(cfg_key()) != unpath(pkey(proposal_id)) && unpath(count_key()) != unpath(pkey(proposal_id)));
        }
        ExecuteMsg::Close { proposal_id } => {
            assert forall|x: Seq<char>| voter_of(t, x) == voter_of(s, x) by { assert(unpath(vkey(x)) != unpath(pkey(proposal_id))); }
            assert(unpath(cfg_key()) != unpath(pkey(proposal_id)) && unpath(count_key()) != unpath(pkey(proposal_id)));
        }
    }
}

pub open spec fn c05_post(s: Raw, t: Raw, b: &BlockInfo, msg: ExecuteMsg, id: u64) -> bool {
    (prop(s, id) is Some ==> prop(t, id) is Some && same_content(prop(s, id)->Some_0, prop(t, id)->Some_0)
        && status_forward(prop(s, id)->Some_0.status, prop(t, id)->Some_0.status))
    && (prop(s, id) is None && prop(t, id) is Some ==> msg is Propose && id == count(s) + 1 && count(t) == id)
    && (msg is Execute && msg->Execute_proposal_id == id ==> prop(t, id)->Some_0.status == Status::Executed
        && spec_status(prop(s, id)->Some_0, b) == Status::Passed)
    && (msg is Close && msg->Close_proposal_id == id ==> prop(t, id)->Some_0.status == Status::Rejected
        && prop(s, id)->Some_0.expires.expired(b) && spec_status(prop(s, id)->Some_0, b) != Status::Passed)
}
pub proof fn lemma_c05_propose(s: Raw, t: Raw, sender: Addr, b: &BlockInfo, title: String, description: String, msgs: Vec<CosmosMsg<Empty>>, latest: Option<Expiration>, id: u64)
    requires inv(s), step_propose(s, t, sender, b, title, description, msgs, latest), count(s) < u64::MAX
    ensures c05_post(s, t, b, ExecuteMsg::Propose { title, description, msgs, latest }, id)
{
    let p = new_prop(s, sender, b, title, description, msgs, clamp_expiry(latest, cfg_of(s)->Some_0.max_voting_period.after_spec(b))->Some_0);
    lemma_propose_preserves(s, sender, p);
    if prop(s, id) is Some { assert(prop_inv(s, id, prop(s, id)->Some_0)); }
}
pub proof fn lemma_c05_vote(s: Raw, t: Raw, sender: Addr, b: &BlockInfo, proposal_id: u64, vote: Vote, id: u64)
    requires inv(s), step_vote(s, t, sender@, b, proposal_id, vote)
    ensures c05_post(s, t, b, ExecuteMsg::Vote { proposal_id, vote }, id)
{
    broadcast use cw3_axioms;
    lemma_ns3();
    let p = prop(s, proposal_id)->Some_0;
    let p2 = voted_prop(p, vote, voter_of(s, sender@)->Some_0, b);
    assert(unpath(pkey(id)) != unpath(bkey(proposal_id, sender@)));
    if id != proposal_id {
        assert(u64_unkb(u64_kb(id)) != u64_unkb(u64_kb(proposal_id)));
        assert(unpath(pkey(id)) != unpath(pkey(proposal_id)));
        assert(prop(t, id) == prop(s, id));
    } else {
        assert(prop(t, id) == Some(p2));
    }
}
pub proof fn lemma_c05_execute(s: Raw, t: Raw, b: &BlockInfo, proposal_id: u64, id: u64)
    requires inv(s), step_execute(s, t, b, proposal_id)
    ensures c05_post(s, t, b, ExecuteMsg::Execute { proposal_id }, id)
{
    lemma_prop_write(s, proposal_id, Proposal { status: Status::Executed, ..prop(s, proposal_id)->Some_0 });
}
pub proof fn lemma_c05_close(s: Raw, t: Raw, b: &BlockInfo, proposal_id: u64, id: u64)
    requires inv(s), step_close(s, t, b, proposal_id)
    ensures c05_post(s, t, b, ExecuteMsg::Close { proposal_id }, id)
{
    lemma_prop_write(s, proposal_id, Proposal { status: Status::Rejected, ..prop(s, proposal_id)->Some_0 });
}

// serves: C05
/// C05, per step and per proposal id: content, threshold, total and expiry are fixed at creation; the stored status only moves
/// forward; a new proposal gets the next id; Execute leaves Executed, Close leaves Rejected
pub proof fn lemma_c05_step(s: Raw, t: Raw, sender: Addr, b: &BlockInfo, msg: ExecuteMsg, id: u64)
    requires inv(s), exec_post(s, t, sender, b, msg), count(s) < u64::MAX
    ensures c05_post(s, t, b, msg, id)
{
    match msg {
        ExecuteMsg::Propose { title, description, msgs, latest } => { lemma_c05_propose(s, t, sender, b, title, description, msgs, latest, id); }
        ExecuteMsg::Vote { proposal_id, vote } => { lemma_c05_vote(s, t, sender, b, proposal_id, vote, id); }
        ExecuteMsg::Execute { proposal_id } => { lemma_c05_execute(s, t, b, proposal_id, id); }
        ExecuteMsg::Close { proposal_id } => { lemma_c05_close(s, t, b, proposal_id, id); }
    }
}

// serves: C05
/// the expiry fixed at creation is never later than the maximum voting period allows
pub proof fn lemma_c05_expiry_clamped(latest: Option<Expiration>, max: Expiration)
    requires clamp_expiry(latest, max) is Some
    ensures clamp_expiry(latest, max)->Some_0.le_spec(max)
{
}

// serves: C06
/// C06, per step: a recorded ballot never changes; a new ballot is the caller's own, with the caller's weight in the fixed voter
/// table (>= 1 unless it is the proposer's implicit Yes), cast before expiry on a proposal that is not executed; the voter table and the
/// total weight never change
pub proof fn lemma_c06_step(s: Raw, t: Raw, sender: Addr, b: &BlockInfo, msg: ExecuteMsg, id: u64, a: Seq<char>)
    requires inv(s), exec_post(s, t, sender, b, msg), count(s) < u64::MAX
    ensures
        ballot(s, id, a) is Some ==> ballot(t, id, a) == ballot(s, id, a),
        ballot(s, id, a) is None && ballot(t, id, a) is Some ==> a == sender@ && voter_of(s, a) == Some(ballot(t, id, a)->Some_0.weight)
            && match msg {
                ExecuteMsg::Vote { proposal_id, vote } => proposal_id == id && ballot(t, id, a)->Some_0.weight >= 1 && ballot(t, id, a)->Some_0.vote == vote
                    && !prop(s, id)->Some_0.expires.expired(b) && prop(s, id)->Some_0.status != Status::Executed,
                ExecuteMsg::Propose { .. } => id == count(s) + 1 && ballot(t, id, a)->Some_0.vote == Vote::Yes,
                _ => false,
            },
        voter_of(t, a) == voter_of(s, a),
        cfg_of(t)->Some_0.total_weight == cfg_of(s)->Some_0.total_weight,
{
    broadcast use cw3_axioms;
    lemma_ns3();
    lemma_frame_fixed(s, t, sender, b, msg);
    match msg {
        ExecuteMsg::Propose { title, description, msgs, latest } => {
            let nid = (count(s) + 1) as u64;
            assert(unpath(bkey(id, a)) != unpath(count_key()) && unpath(bkey(id, a)) != unpath(pkey(nid)));
            if bkey(id, a) == bkey(nid, sender@) {
                assert(unpair_kb(pair_kb(u64_kb(id), utf8(a))) == unpair_kb(pair_kb(u64_kb(nid), utf8(sender@))));
                assert(u64_unkb(u64_kb(id)) == u64_unkb(u64_kb(nid)) && unutf8(utf8(a)) == unutf8(utf8(sender@)));
                if ballot(s, id, a) is Some { assert(s.contains_key(bkey_raw(id, utf8(a)))); }
            }
        }
        ExecuteMsg::Vote { proposal_id, vote } => {
            assert(unpath(bkey(id, a)) != unpath(pkey(proposal_id)));
            if bkey(id, a) == bkey(proposal_id, sender@) {
                assert(unpair_kb(pair_kb(u64_kb(id), utf8(a))) == unpair_kb(pair_kb(u64_kb(proposal_id), utf8(sender@))));
                assert(u64_unkb(u64_kb(id)) == u64_unkb(u64_kb(proposal_id)) && unutf8(utf8(a)) == unutf8(utf8(sender@)));
            }
        }
        ExecuteMsg::Execute { proposal_id } => { assert(unpath(bkey(id, a)) != unpath(pkey(proposal_id))); }
        ExecuteMsg::Close { proposal_id } => { assert(unpath(bkey(id, a)) != unpath(pkey(proposal_id))); }
    }
}

// serves: C06 C03
/// in every reachable state the recorded tally of a proposal is, kind by kind, the weight of its recorded ballots and never
/// exceeds the total weight the threshold is measured against, which is the sum of the fixed voter table
pub proof fn lemma_c06_tally_bounded(s: Raw, id: u64)
    requires inv(s), prop(s, id) is Some
    ensures tally_matches(s, id, prop(s, id)->Some_0.votes),
        tally(prop(s, id)->Some_0.votes) <= prop(s, id)->Some_0.total_weight,
        prop(s, id)->Some_0.total_weight == voters_total(s),
{
    assert(prop_inv(s, id, prop(s, id)->Some_0));
    lemma_sel_le(s, id, None);
}

// serves: C03
/// a proposal is admitted to Execute only if its threshold rule is met by positive Yes weight at that block
/// (for a proposal still stored as Open; a stored Passed status was computed the same way when it was set)
pub proof fn lemma_c03_execute_needs_pass(s: Raw, t: Raw, b: &BlockInfo, id: u64)
    requires inv(s), step_execute(s, t, b, id), prop(s, id)->Some_0.status == Status::Open
    ensures spec_passed(prop(s, id)->Some_0, prop(s, id)->Some_0.expires.expired(b)), prop(s, id)->Some_0.votes.yes > 0
{
}

pub struct Call { pub sender: Addr, pub block: BlockInfo, pub msg: ExecuteMsg, pub ok: bool }
pub open spec fn step_at(st: Seq<Raw>, calls: Seq<Call>, i: int) -> bool {
    if calls[i].ok { exec_post(st[i], st[i + 1], calls[i].sender, &calls[i].block, calls[i].msg) } else { st[i + 1] == st[i] }
}
pub open spec fn history(st: Seq<Raw>, calls: Seq<Call>) -> bool {
    st.len() == calls.len() + 1 && inv(st[0]) && (forall|i: int| 0 <= i < calls.len() ==> #[trigger] step_at(st, calls, i))
    && (forall|i: int| 0 <= i < st.len() ==> count(#[trigger] st[i]) < u64::MAX)
}
// serves: C03 C05 C06
pub proof fn lemma_history_inv(st: Seq<Raw>, calls: Seq<Call>, i: int)
    requires history(st, calls), 0 <= i <= calls.len()
    ensures inv(st[i])
    decreases i
{
    if i > 0 { lemma_history_inv(st, calls, i - 1); assert(step_at(st, calls, i - 1)); }
}
// serves: C05
/// over any history a proposal, once it exists, keeps its content and its stored status only moves forward
pub proof fn lemma_c05_history(st: Seq<Raw>, calls: Seq<Call>, i: int, j: int, id: u64)
    requires history(st, calls), 0 <= i <= j <= calls.len(), prop(st[i], id) is Some
    ensures prop(st[j], id) is Some, same_content(prop(st[i], id)->Some_0, prop(st[j], id)->Some_0),
        status_forward(prop(st[i], id)->Some_0.status, prop(st[j], id)->Some_0.status),
    decreases j - i
{
    if i < j {
        lemma_c05_history(st, calls, i, j - 1, id);
        lemma_history_inv(st, calls, j - 1);
        assert(step_at(st, calls, j - 1));
        if calls[j - 1].ok { lemma_c05_step(st[j - 1], st[j], calls[j - 1].sender, &calls[j - 1].block, calls[j - 1].msg, id); }
    }
}
// serves: C05
/// a proposal's messages are dispatched at most once: after a successful Execute of `id` no later Execute of `id` succeeds
pub proof fn lemma_c05_execute_once(st: Seq<Raw>, calls: Seq<Call>, i: int, j: int, id: u64)
    requires history(st, calls), 0 <= i < j < calls.len(),
        calls[i].ok, calls[i].msg is Execute, calls[i].msg->Execute_proposal_id == id,
        calls[j].msg is Execute, calls[j].msg->Execute_proposal_id == id,
    ensures !calls[j].ok
{
    lemma_history_inv(st, calls, i);
    assert(step_at(st, calls, i));
    lemma_c05_step(st[i], st[i + 1], calls[i].sender, &calls[i].block, calls[i].msg, id);
    lemma_history_inv(st, calls, i + 1);
    assert(prop_inv(st[i + 1], id, prop(st[i + 1], id)->Some_0));
    lemma_c05_history(st, calls, i + 1, j, id);
    lemma_history_inv(st, calls, j);
    assert(step_at(st, calls, j));
    if calls[j].ok {
        lemma_c05_step(st[j], st[j + 1], calls[j].sender, &calls[j].block, calls[j].msg, id);
        assert(prop(st[j], id)->Some_0.status == Status::Executed);
    }
}

// ===================================================================== C20: listings of cw3-fixed-multisig
@struct packages/cw3/src/query.rs ProposalListResponse
@struct packages/cw3/src/query.rs VoteListResponse
@struct packages/cw3/src/query.rs VoterListResponse
@const contracts/cw3-fixed-multisig/src/contract.rs MAX_LIMIT
@const contracts/cw3-fixed-multisig/src/contract.rs DEFAULT_LIMIT
@include inc/paging.vsi

/// the response entry a stored proposal is shown as (status recomputed at the query block, C03)
pub open spec fn shows(r: ProposalResponse<Empty>, id: u64, p: Proposal, b: &BlockInfo) -> bool {
    r.id == id && r.status == spec_status(p, b) && r.msgs == p.msgs && r.expires == p.expires && r.proposer == p.proposer
    && r.title == p.title && r.description == p.description && r.deposit == p.deposit
    && r.threshold == p.threshold.resp(p.total_weight)
}
@fn contracts/cw3-fixed-multisig/src/contract.rs map_proposal [closures: 1]
@requires
    item is Ok ==> prop_wf(item->Ok_0.1)
@ensures C20.map_proposal C03 C05
    match item { Ok((id, p)) => r is Ok && shows(r->Ok_0, id, p, block), Err(_) => r is Err }
@closure 1 C20.map_proposal_closure
    (res: ProposalResponse<Empty>)
    requires prop_wf(__p1_0.1)
    ensures shows(res, __p1_0.0, __p1_0.1, block)
@end

pub open spec fn u64_cursor(c: Option<u64>) -> Option<Seq<u8>> { match c { Some(x) => Some(u64_kb(x)), None => None } }
pub open spec fn str_cursor(c: Option<String>) -> Option<Seq<u8>> { match c { Some(s) => Some(utf8(s@)), None => None } }
/// every stored proposal is well-formed (from inv): needed because listings recompute the status
pub proof fn lemma_all_stored_wf(s: Raw)
    requires inv(s)
    ensures forall|id: u64| #![trigger pkey(id)] prop(s, id) is Some ==> prop_wf(prop(s, id)->Some_0)
{
    assert forall|id: u64| prop(s, id) is Some implies prop_wf(prop(s, id)->Some_0) by { lemma_stored_wf(s, id); }
}

/// a listed entry that decodes as (u64 id, Proposal) is a well-formed proposal
pub open spec fn entry_wf(e: Entry) -> bool {
    forall|id: u64| #![trigger u64_kb(id)] e.0 == u64_kb(id) && Proposal::de(e.1) is Some ==> prop_wf(Proposal::de(e.1)->Some_0)
}
pub proof fn lemma_listed_wf(s: Raw)
    requires inv(s)
    ensures forall|i: int| 0 <= i < listing(s, "proposals"@, Seq::<u8>::empty(), false).len() ==> entry_wf(#[trigger] listing(s, "proposals"@, Seq::<u8>::empty(), false)[i])
{
    broadcast use ax_listing;
    let l = listing(s, "proposals"@, Seq::<u8>::empty(), false);
    assert forall|i: int| 0 <= i < l.len() implies entry_wf(#[trigger] l[i]) by {
        assert(s.contains_key(path("proposals"@, full_key(Seq::<u8>::empty(), l[i].0, false))));
        assert forall|id: u64| l[i].0 == #[trigger] u64_kb(id) && Proposal::de(l[i].1) is Some implies prop_wf(Proposal::de(l[i].1)->Some_0) by {
            assert(s.contains_key(pkey(id)));
            lemma_stored_wf(s, id);
        }
    }
}

@fn contracts/cw3-fixed-multisig/src/contract.rs list_proposals [closures: 1]
@requires
    inv(deps.storage.view())
@ensures C20.list_proposals_page C03 C05
    r is Ok ==> ({
        let pg = page(listing(deps.storage.view(), "proposals"@, Seq::<u8>::empty(), false), u64_cursor(start_after), limit);
        r->Ok_0.proposals@.len() == pg.len() && forall|i: int| 0 <= i < pg.len() ==> u64_kb((#[trigger] r->Ok_0.proposals@[i]).id) == pg[i].0
            && Proposal::de(pg[i].1) is Some && shows(r->Ok_0.proposals@[i], r->Ok_0.proposals@[i].id, Proposal::de(pg[i].1)->Some_0, &env.block)
    })
@eta "start_after.map" 1
    __c: u64 -> Bound<u64>
@closure_types 1
    p: StdResult<(u64, Proposal)>
@closure 1 C20.list_proposals_map
    (res: StdResult<ProposalResponse<Empty>>)
    requires p is Ok ==> prop_wf(p->Ok_0.1)
    ensures match p { Ok((id, pp)) => res is Ok && shows(res->Ok_0, id, pp, &env.block), Err(_) => res is Err }
@prefix
    broadcast use cw3_axioms, ax_listing;
    proof {
        let s = deps.storage.view();
        let l = listing(s, "proposals"@, Seq::<u8>::empty(), false);
        lemma_listed_wf(s);
        lemma_scan_all(l, match start_after { Some(c) => Some((u64_kb(c), false)), None => None }, None, Order::Ascending, |e: Entry| entry_wf(e));
    }
@end

@fn contracts/cw3-fixed-multisig/src/contract.rs reverse_proposals [closures: 1]
@requires
    inv(deps.storage.view())
@ensures C20.reverse_proposals_page C03 C05
    r is Ok ==> ({
        let pg = page_desc(listing(deps.storage.view(), "proposals"@, Seq::<u8>::empty(), false), u64_cursor(start_before), limit);
        r->Ok_0.proposals@.len() == pg.len() && forall|i: int| 0 <= i < pg.len() ==> u64_kb((#[trigger] r->Ok_0.proposals@[i]).id) == pg[i].0
            && Proposal::de(pg[i].1) is Some && shows(r->Ok_0.proposals@[i], r->Ok_0.proposals@[i].id, Proposal::de(pg[i].1)->Some_0, &env.block)
    })
@eta "start_before.map" 1
    __c: u64 -> Bound<u64>
@closure_types 1
    p: StdResult<(u64, Proposal)>
@closure 1 C20.reverse_proposals_map
    (res: StdResult<ProposalResponse<Empty>>)
    requires p is Ok ==> prop_wf(p->Ok_0.1)
    ensures match p { Ok((id, pp)) => res is Ok && shows(res->Ok_0, id, pp, &env.block), Err(_) => res is Err }
@prefix
    broadcast use cw3_axioms, ax_listing;
    proof {
        let s = deps.storage.view();
        let l = listing(s, "proposals"@, Seq::<u8>::empty(), false);
        lemma_listed_wf(s);
        lemma_scan_all(l, None, match start_before { Some(c) => Some((u64_kb(c), false)), None => None }, Order::Descending, |e: Entry| entry_wf(e));
    }
@end

@fn contracts/cw3-fixed-multisig/src/contract.rs list_votes [closures: 3]
@ensures C20.list_votes_page C03 C06
    r is Ok ==> ({
        let pg = page(listing(deps.storage.view(), "votes"@, u64_kb(proposal_id), true), str_cursor(start_after), limit);
        r->Ok_0.votes@.len() == pg.len() && forall|i: int| 0 <= i < pg.len() ==> utf8((#[trigger] r->Ok_0.votes@[i]).voter@) == pg[i].0
            && r->Ok_0.votes@[i].proposal_id == proposal_id && Ballot::de(pg[i].1) is Some
            && r->Ok_0.votes@[i].vote == Ballot::de(pg[i].1)->Some_0.vote && r->Ok_0.votes@[i].weight == Ballot::de(pg[i].1)->Some_0.weight
    })
@closure_types 1
    s: String
@closure 1 C20.list_votes_cursor
    (res: Bound<&Addr>)
    ensures res.raw() == (utf8(s@), false)
@closure_types 2
    item: StdResult<(Addr, Ballot)>
@closure 2 C20.list_votes_map
    (res: StdResult<VoteInfo>)
    ensures match item { Ok((a, b)) => res is Ok && res->Ok_0.voter@ == a@ && res->Ok_0.proposal_id == proposal_id && res->Ok_0.vote == b.vote && res->Ok_0.weight == b.weight, Err(_) => res is Err }
@closure_types 3
    __p3_0: (Addr, Ballot)
@closure 3 C20.list_votes_entry
    (res: VoteInfo)
    ensures res.voter@ == __p3_0.0@ && res.proposal_id == proposal_id && res.vote == __p3_0.1.vote && res.weight == __p3_0.1.weight
@prefix
    broadcast use string_conv, ax_bytes_from_string;
@end

@fn contracts/cw3-fixed-multisig/src/contract.rs list_voters [closures: 3]
@ensures C20.list_voters_page C06
    r is Ok ==> ({
        let pg = page(listing(deps.storage.view(), "voters"@, Seq::<u8>::empty(), false), str_cursor(start_after), limit);
        r->Ok_0.voters@.len() == pg.len() && forall|i: int| 0 <= i < pg.len() ==> utf8((#[trigger] r->Ok_0.voters@[i]).addr@) == pg[i].0
            && u64::de(pg[i].1) == Some(r->Ok_0.voters@[i].weight)
    })
@closure_types 1
    s: String
@closure 1 C20.list_voters_cursor
    (res: Bound<&Addr>)
    ensures res.raw() == (utf8(s@), false)
@closure_types 2
    item: StdResult<(Addr, u64)>
@closure 2 C20.list_voters_map
    (res: StdResult<VoterDetail>)
    ensures match item { Ok((a, w)) => res is Ok && res->Ok_0.addr@ == a@ && res->Ok_0.weight == w, Err(_) => res is Err }
@closure_types 3
    __p3_0: (Addr, u64)
@closure 3 C20.list_voters_entry
    (res: VoterDetail)
    ensures res.addr@ == __p3_0.0@ && res.weight == __p3_0.1
@prefix
    broadcast use string_conv, ax_bytes_from_string;
@end

// ===================================================================== the query entry point routes every message to its query function
@enum contracts/cw3-fixed-multisig/src/msg.rs QueryMsg
impl JsonT for ThresholdResponse { uninterp spec fn json(self) -> Seq<u8>; uninterp spec fn unjson(b: Seq<u8>) -> Option<Self>; }
impl JsonT for ProposalResponse<Empty> { uninterp spec fn json(self) -> Seq<u8>; uninterp spec fn unjson(b: Seq<u8>) -> Option<Self>; }
impl JsonT for VoteResponse { uninterp spec fn json(self) -> Seq<u8>; uninterp spec fn unjson(b: Seq<u8>) -> Option<Self>; }
impl JsonT for VoterResponse { uninterp spec fn json(self) -> Seq<u8>; uninterp spec fn unjson(b: Seq<u8>) -> Option<Self>; }
impl JsonT for ProposalListResponse<Empty> { uninterp spec fn json(self) -> Seq<u8>; uninterp spec fn unjson(b: Seq<u8>) -> Option<Self>; }
impl JsonT for VoteListResponse { uninterp spec fn json(self) -> Seq<u8>; uninterp spec fn unjson(b: Seq<u8>) -> Option<Self>; }
impl JsonT for VoterListResponse { uninterp spec fn json(self) -> Seq<u8>; uninterp spec fn unjson(b: Seq<u8>) -> Option<Self>; }
@fn contracts/cw3-fixed-multisig/src/contract.rs query
@requires
    inv(deps.storage.view())
@ensures C03.query_routes C05 C06 C20
    r is Ok ==> match msg {
        QueryMsg::Threshold {} => exists|x: ThresholdResponse| r->Ok_0@ == x.json() && call_ensures(query_threshold, (deps,), Ok::<ThresholdResponse, StdError>(x)),
        QueryMsg::Proposal { proposal_id } => exists|x: ProposalResponse<Empty>| r->Ok_0@ == x.json() && call_ensures(query_proposal, (deps, env, proposal_id), Ok::<ProposalResponse<Empty>, StdError>(x)),
        QueryMsg::Vote { proposal_id, voter } => exists|x: VoteResponse| r->Ok_0@ == x.json() && call_ensures(query_vote, (deps, proposal_id, voter), Ok::<VoteResponse, StdError>(x)),
        QueryMsg::ListProposals { start_after, limit } => exists|x: ProposalListResponse<Empty>| r->Ok_0@ == x.json() && call_ensures(list_proposals, (deps, env, start_after, limit), Ok::<ProposalListResponse<Empty>, StdError>(x)),
        QueryMsg::ReverseProposals { start_before, limit } => exists|x: ProposalListResponse<Empty>| r->Ok_0@ == x.json() && call_ensures(reverse_proposals, (deps, env, start_before, limit), Ok::<ProposalListResponse<Empty>, StdError>(x)),
        QueryMsg::ListVotes { proposal_id, start_after, limit } => exists|x: VoteListResponse| r->Ok_0@ == x.json() && call_ensures(list_votes, (deps, proposal_id, start_after, limit), Ok::<VoteListResponse, StdError>(x)),
        QueryMsg::Voter { address } => exists|x: VoterResponse| r->Ok_0@ == x.json() && call_ensures(query_voter, (deps, address), Ok::<VoterResponse, StdError>(x)),
        QueryMsg::ListVoters { start_after, limit } => exists|x: VoterListResponse| r->Ok_0@ == x.json() && call_ensures(list_voters, (deps, start_after, limit), Ok::<VoterListResponse, StdError>(x)),
    }
@end
