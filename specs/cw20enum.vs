@unit cw20enum
@shim core.rs cw_utils.rs std_more.rs cw2.rs range.rs
@properties C19 C20 C01 C02 C13

@struct packages/cw20/src/query.rs AllowanceResponse [default: AllowanceResponse { allowance: Uint128(0), expires: Expiration::Never {} }]
@struct packages/cw20/src/query.rs AllowanceInfo
@struct packages/cw20/src/query.rs AllAllowancesResponse [noderive]
@struct packages/cw20/src/query.rs SpenderAllowanceInfo
@struct packages/cw20/src/query.rs AllSpenderAllowancesResponse [noderive]
@struct packages/cw20/src/query.rs AllAccountsResponse [noderive]
impl SerT for AllowanceResponse { uninterp spec fn ser(self) -> Seq<u8>; uninterp spec fn de(b: Seq<u8>) -> Option<Self>; }
@const contracts/cw20-base/src/state.rs BALANCES
@const contracts/cw20-base/src/state.rs ALLOWANCES
@const contracts/cw20-base/src/state.rs ALLOWANCES_SPENDER
@const contracts/cw20-base/src/enumerable.rs MAX_LIMIT
@const contracts/cw20-base/src/enumerable.rs DEFAULT_LIMIT

@include inc/paging.vsi

pub open spec fn cursor_of(start_after: Option<String>) -> Option<Seq<u8>> { match start_after { Some(s) => Some(utf8(s@)), None => None } }

@fn contracts/cw20-base/src/enumerable.rs query_owner_allowances [closures: 3]
@ensures C20.owner_allowances_page C19 C02
    r is Ok ==> ({
        let pg = page(listing(deps.storage.view(), "allowance"@, utf8(owner@), true), cursor_of(start_after), limit);
        r->Ok_0.allowances@.len() == pg.len() && forall|i: int| 0 <= i < pg.len() ==> utf8((#[trigger] r->Ok_0.allowances@[i]).spender@) == pg[i].0
            && AllowanceResponse::de(pg[i].1) == Some(AllowanceResponse { allowance: r->Ok_0.allowances@[i].allowance, expires: r->Ok_0.allowances@[i].expires })
    })
@closure_types 1
    s: String
@closure 1 C20.owner_allowances_cursor
    (res: Bound<&Addr>)
    ensures res.raw() == (utf8(s@), false)
@closure_types 2
    item: StdResult<(Addr, AllowanceResponse)>
@closure 2 C20.owner_allowances_map
    (res: StdResult<AllowanceInfo>)
    ensures match item { Ok((a, al)) => res is Ok && res->Ok_0.spender@ == a@ && res->Ok_0.allowance == al.allowance && res->Ok_0.expires == al.expires, Err(_) => res is Err }
@closure 3 C20.owner_allowances_map_inner
    (res: AllowanceInfo)
    ensures res.spender@ == __p3_0.0@ && res.allowance == __p3_0.1.allowance && res.expires == __p3_0.1.expires
@prefix
    broadcast use string_conv;
@end

@fn contracts/cw20-base/src/enumerable.rs query_spender_allowances [closures: 3]
@ensures C20.spender_allowances_page C19 C02
    r is Ok ==> ({
        let pg = page(listing(deps.storage.view(), "allowance_spender"@, utf8(spender@), true), cursor_of(start_after), limit);
        r->Ok_0.allowances@.len() == pg.len() && forall|i: int| 0 <= i < pg.len() ==> utf8((#[trigger] r->Ok_0.allowances@[i]).owner@) == pg[i].0
            && AllowanceResponse::de(pg[i].1) == Some(AllowanceResponse { allowance: r->Ok_0.allowances@[i].allowance, expires: r->Ok_0.allowances@[i].expires })
    })
@closure_types 1
    s: String
@closure 1 C20.spender_allowances_cursor
    (res: Bound<&Addr>)
    ensures res.raw() == (utf8(s@), false)
@closure_types 2
    item: StdResult<(Addr, AllowanceResponse)>
@closure 2 C20.spender_allowances_map
    (res: StdResult<SpenderAllowanceInfo>)
    ensures match item { Ok((a, al)) => res is Ok && res->Ok_0.owner@ == a@ && res->Ok_0.allowance == al.allowance && res->Ok_0.expires == al.expires, Err(_) => res is Err }
@closure 3 C20.spender_allowances_map_inner
    (res: SpenderAllowanceInfo)
    ensures res.owner@ == __p3_0.0@ && res.allowance == __p3_0.1.allowance && res.expires == __p3_0.1.expires
@prefix
    broadcast use string_conv;
@end

@fn contracts/cw20-base/src/enumerable.rs query_all_accounts [closures: 2]
@ensures C20.all_accounts_page C01
    r is Ok ==> ({
        let pg = page(listing(deps.storage.view(), "balance"@, Seq::<u8>::empty(), false), cursor_of(start_after), limit);
        r->Ok_0.accounts@.len() == pg.len() && forall|i: int| 0 <= i < pg.len() ==> utf8((#[trigger] r->Ok_0.accounts@[i])@) == pg[i].0
    })
@replace E12 "Into::into" 1
    |__a: Addr| -> (res: String) ensures res@ == __a@ { __a.into() }
@closure_types 1
    s: String
@closure 1 C20.all_accounts_cursor
    (res: Bound<&Addr>)
    ensures res.raw() == (utf8(s@), false)
@closure_types 2
    item: StdResult<Addr>
@closure 2 C20.all_accounts_map
    (res: StdResult<String>)
    ensures match item { Ok(a) => res is Ok && res->Ok_0@ == a@, Err(_) => res is Err }
@prefix
    broadcast use string_conv;
@end

// --------------------------------------------------------------------- C19: the three allowance views agree
pub open spec fn akey(o: Seq<char>, sp: Seq<char>) -> Seq<u8> { path("allowance"@, pair_kb(utf8(o), utf8(sp))) }
pub open spec fn skey(sp: Seq<char>, o: Seq<char>) -> Seq<u8> { path("allowance_spender"@, pair_kb(utf8(sp), utf8(o))) }
pub open spec fn allow(s: Raw, o: Seq<char>, sp: Seq<char>) -> Option<AllowanceResponse> { raw_get::<AllowanceResponse>(s, akey(o, sp)) }
pub open spec fn allow_s(s: Raw, sp: Seq<char>, o: Seq<char>) -> Option<AllowanceResponse> { raw_get::<AllowanceResponse>(s, skey(sp, o)) }
/// the invariant maintained by the cw20 unit (specs/cw20.vs inv_mirror)
pub open spec fn inv_mirror(s: Raw) -> bool {
    forall|o: Seq<char>, sp: Seq<char>| #![trigger akey(o, sp)] #![trigger skey(sp, o)] allow(s, o, sp) == allow_s(s, sp, o)
}
// serves: C19
/// every entry of the owner listing is the point-query value of that (owner, spender); every entry of the spender listing too
/// (under the mirror invariant); and every stored allowance appears in both listings
pub proof fn lemma_c19_views_agree(s: Raw, o: Seq<char>, sp: Seq<char>)
    requires inv_mirror(s)
    ensures
        forall|i: int| 0 <= i < listing(s, "allowance"@, utf8(o), true).len() && (#[trigger] listing(s, "allowance"@, utf8(o), true)[i]).0 == utf8(sp)
            ==> AllowanceResponse::de(listing(s, "allowance"@, utf8(o), true)[i].1) == allow(s, o, sp),
        forall|i: int| 0 <= i < listing(s, "allowance_spender"@, utf8(sp), true).len() && (#[trigger] listing(s, "allowance_spender"@, utf8(sp), true)[i]).0 == utf8(o)
            ==> AllowanceResponse::de(listing(s, "allowance_spender"@, utf8(sp), true)[i].1) == allow(s, o, sp),
        s.contains_key(akey(o, sp)) ==> exists|i: int| 0 <= i < listing(s, "allowance"@, utf8(o), true).len() && listing(s, "allowance"@, utf8(o), true)[i].0 == utf8(sp),
        s.contains_key(skey(sp, o)) ==> exists|i: int| 0 <= i < listing(s, "allowance_spender"@, utf8(sp), true).len() && listing(s, "allowance_spender"@, utf8(sp), true)[i].0 == utf8(o),
{
    broadcast use ax_listing;
    assert(allow(s, o, sp) == allow_s(s, sp, o));
    assert(akey(o, sp) == path("allowance"@, full_key(utf8(o), utf8(sp), true)));
    assert(skey(sp, o) == path("allowance_spender"@, full_key(utf8(sp), utf8(o), true)));
}

// --------------------------------------------------------------------- C19: migration of a pre-0.14 token (no spender listing yet)
@enum contracts/cw20-base/src/error.rs ContractError
@struct contracts/cw20-base/src/msg.rs MigrateMsg
@const contracts/cw20-base/src/contract.rs CONTRACT_NAME
@const contracts/cw20-base/src/contract.rs CONTRACT_VERSION
pub open spec fn kv2(s: Raw, k: Seq<u8>) -> Option<Seq<u8>> { if s.contains_key(k) { Some(s[k]) } else { None } }
pub open spec fn no_spender_entries(s: Raw) -> bool { forall|k: Seq<u8>| s.contains_key(k) ==> unpath(k).0 != "allowance_spender"@ }
pub open spec fn pre_0_14(s: Raw) -> bool { semver::ver_lt(cw2_stored_version(s), semver::ver_parse("0.14.0"@)->Some_0) }

pub open spec fn typed_data(data: Seq<((Addr, Addr), AllowanceResponse)>, l: Seq<Entry>) -> bool {
    data.len() == l.len() && forall|i: int| 0 <= i < l.len() ==> pair_kb(utf8((#[trigger] data[i]).0.0@), utf8(data[i].0.1@)) == l[i].0 && AllowanceResponse::de(l[i].1) == Some(data[i].1)
}

@fn contracts/cw20-base/src/contract.rs migrate [loops: 1]
@requires
    pre_0_14(old(deps.storage).view()) ==> no_spender_entries(old(deps.storage).view()),
    !pre_0_14(old(deps.storage).view()) ==> inv_mirror(old(deps.storage).view())
@ensures C19.migrate_builds_spender_view C02 C20
    r is Ok ==> inv_mirror(final(deps.storage).view())
@ensures C19.migrate_keeps_owner_view C01 C13 C02
    r is Ok ==> forall|k: Seq<u8>| unpath(k).0 != "allowance_spender"@ && k != cw2_key() ==> #[trigger] kv2(final(deps.storage).view(), k) == kv2(old(deps.storage).view(), k)
@loop 1 C19.migrate_loop
    invariant
        it.index@ <= data@.len(),
        typed_data(data@, l), l == listing(s1, "allowance"@, Seq::<u8>::empty(), false), sorted_strict(l),
        forall|k: Seq<u8>| unpath(k).0 != "allowance_spender"@ ==> #[trigger] kv2(deps.storage.view(), k) == kv2(s1, k),
        no_spender_entries(s1),
        forall|j: int| 0 <= j < it.index@ ==> allow_s(deps.storage.view(), (#[trigger] data@[j]).0.1@, data@[j].0.0@) == Some(data@[j].1),
        forall|sp: Seq<char>, o: Seq<char>| #![trigger skey(sp, o)] deps.storage.view().contains_key(skey(sp, o)) ==> exists|j: int| 0 <= j < it.index@ && data@[j].0.0@ == o && data@[j].0.1@ == sp,
@prefix
    broadcast use ax_path, ax_utf8, ax_ser, ax_pair_kb, addr_ext, ax_listing, ax_bytes_lt_irrefl, ax_bytes_lt_trans, ax_parse_0_14;
    let ghost s0 = deps.storage.view();
@insert_before "~ALLOWANCES" 1
    let ghost s1 = deps.storage.view();
    let ghost l = listing(s1, "allowance"@, Seq::<u8>::empty(), false);
    proof {
        assert(unpath(cw2_key()).0 == "contract_info"@) ;
        reveal_strlit("contract_info"); reveal_strlit("allowance_spender");
        assert("contract_info"@.len() != "allowance_spender"@.len());
        assert(no_spender_entries(s1));
    }
@insert_before "for ((owner, spender), allowance) in data" 1
    proof {
        assert(scan(l, None, None, Order::Ascending) == l) by { lemma_keep_all(l, |e: Entry| within(e.0, None, None)); }
        assert(typed_data(data@, l));
    }
@loop_begin 1
    broadcast use ax_path, ax_utf8, ax_ser, ax_pair_kb, addr_ext, ax_listing, ax_bytes_lt_irrefl, ax_bytes_lt_trans;
    let ghost pre = deps.storage.view();
    let ghost i = it.index@ as int;
@loop_end 1
    proof {
        let post = deps.storage.view();
        assert(data@[i] == ((owner, spender), allowance));
        assert(post == pre.insert(skey(spender@, owner@), allowance.ser()));
        assert(unpath(skey(spender@, owner@)).0 == "allowance_spender"@);
        assert forall|k: Seq<u8>| unpath(k).0 != "allowance_spender"@ implies #[trigger] kv2(post, k) == kv2(s1, k) by { assert(kv2(pre, k) == kv2(s1, k)); }
        assert forall|j: int| 0 <= j < i + 1 implies allow_s(post, (#[trigger] data@[j]).0.1@, data@[j].0.0@) == Some(data@[j].1) by {
            if j < i {
                if skey(data@[j].0.1@, data@[j].0.0@) == skey(spender@, owner@) {
                    assert(unpair_kb(pair_kb(utf8(data@[j].0.1@), utf8(data@[j].0.0@))) == unpair_kb(pair_kb(utf8(spender@), utf8(owner@))));
                    assert(l[j].0 == l[i].0);
                    assert(bytes_lt(l[j].0, l[i].0));
                }
                assert(allow_s(pre, data@[j].0.1@, data@[j].0.0@) == Some(data@[j].1));
            }
        }
        assert forall|sp: Seq<char>, o: Seq<char>| post.contains_key(skey(sp, o)) implies exists|j: int| 0 <= j < i + 1 && data@[j].0.0@ == o && data@[j].0.1@ == sp by {
            if skey(sp, o) == skey(spender@, owner@) {
                assert(unpair_kb(pair_kb(utf8(sp), utf8(o))) == unpair_kb(pair_kb(utf8(spender@), utf8(owner@))));
                assert(unutf8(utf8(sp)) == unutf8(utf8(spender@)) && unutf8(utf8(o)) == unutf8(utf8(owner@)));
                assert(data@[i].0.0@ == o && data@[i].0.1@ == sp);
            } else {
                assert(pre.contains_key(skey(sp, o)));
                let j = choose|j: int| 0 <= j < i && data@[j].0.0@ == o && data@[j].0.1@ == sp;
                assert(0 <= j < i + 1 && data@[j].0.0@ == o && data@[j].0.1@ == sp);
            }
        }
    }
@after_loop 1
    proof {
        let t = deps.storage.view();
        reveal_strlit("allowance_spender"); reveal_strlit("allowance");
        assert("allowance_spender"@.len() == 17 && "allowance"@.len() == 9);
        assert forall|o: Seq<char>, sp: Seq<char>| allow(t, o, sp) == allow_s(t, sp, o) by {
            assert(unpath(akey(o, sp)).0 == "allowance"@);
            assert(kv2(t, akey(o, sp)) == kv2(s1, akey(o, sp)));
            assert(akey(o, sp) == path("allowance"@, full_key(Seq::<u8>::empty(), pair_kb(utf8(o), utf8(sp)), false)));
            if s1.contains_key(akey(o, sp)) {
                let i = choose|i: int| 0 <= i < l.len() && l[i].0 == pair_kb(utf8(o), utf8(sp));
                assert(unpair_kb(pair_kb(utf8(data@[i].0.0@), utf8(data@[i].0.1@))) == unpair_kb(pair_kb(utf8(o), utf8(sp))));
                assert(unutf8(utf8(data@[i].0.0@)) == unutf8(utf8(o)) && unutf8(utf8(data@[i].0.1@)) == unutf8(utf8(sp)));
                assert(allow_s(t, data@[i].0.1@, data@[i].0.0@) == Some(data@[i].1));
                assert(s1[path("allowance"@, full_key(Seq::<u8>::empty(), l[i].0, false))] == l[i].1);
            } else {
                if t.contains_key(skey(sp, o)) {
                    let j = choose|j: int| 0 <= j < data@.len() && data@[j].0.0@ == o && data@[j].0.1@ == sp;
                    assert(s1.contains_key(path("allowance"@, full_key(Seq::<u8>::empty(), l[j].0, false))));
                }
            }
        }
    }
@insert_before "Ok(Response::default())" 1
    proof {
        let t = deps.storage.view();
        if !pre_0_14(s0) {
            assert forall|o: Seq<char>, sp: Seq<char>| allow(t, o, sp) == allow_s(t, sp, o) by {
                assert(allow(s0, o, sp) == allow_s(s0, sp, o));
                assert(unpath(akey(o, sp)).0 == "allowance"@ && unpath(skey(sp, o)).0 == "allowance_spender"@ && unpath(cw2_key()).0 == "contract_info"@);
                reveal_strlit("contract_info"); reveal_strlit("allowance_spender"); reveal_strlit("allowance");
                assert("contract_info"@.len() == 13 && "allowance_spender"@.len() == 17 && "allowance"@.len() == 9);
            }
        }
    }
@end
