@unit cw3flex
@shim core.rs cw_utils.rs cw3deps.rs cw2.rs std_adapters.rs querier.rs
@properties C03 C05 C06 C15

@include inc/cw3_types.vsi
@include inc/cw3_fns_relaxed.vsi
