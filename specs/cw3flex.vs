@unit cw3flex
@shim core.rs cw_utils.rs std_more.rs cw3deps.rs cw2.rs std_adapters.rs querier.rs range.rs
@properties C03 C05 C06 C15 C20 C09

@include inc/cw3_types.vsi
@include inc/cw3_fns_relaxed.vsi
@include inc/cw4_helpers.vsi
@include inc/cw3_deposit.vsi

// ===================================================================== cw3-flex-multisig: data and state
@struct packages/cw3/src/query.rs ProposalResponse
@struct packages/cw3/src/query.rs VoteInfo
@struct packages/cw3/src/query.rs VoteResponse
@struct packages/cw3/src/query.rs VoterResponse
@enum contracts/cw3-flex-multisig/src/state.rs Executor
@struct contracts/cw3-flex-multisig/src/state.rs Config
@struct contracts/cw3-flex-multisig/src/msg.rs InstantiateMsg
@enum contracts/cw3-flex-multisig/src/msg.rs ExecuteMsg
@enum contracts/cw3-flex-multisig/src/error.rs ContractError
impl SerT for Config { uninterp spec fn ser(self) -> Seq<u8>; uninterp spec fn de(b: Seq<u8>) -> Option<Self>; }
impl SerT for Proposal { uninterp spec fn ser(self) -> Seq<u8>; uninterp spec fn de(b: Seq<u8>) -> Option<Self>; }
impl SerT for Ballot { uninterp spec fn ser(self) -> Seq<u8>; uninterp spec fn de(b: Seq<u8>) -> Option<Self>; }

@const contracts/cw3-flex-multisig/src/contract.rs CONTRACT_NAME
@const contracts/cw3-flex-multisig/src/contract.rs CONTRACT_VERSION
@const contracts/cw3-flex-multisig/src/state.rs CONFIG
@const contracts/cw3-fixed-multisig/src/state.rs PROPOSAL_COUNT
@const contracts/cw3-fixed-multisig/src/state.rs BALLOTS
@const contracts/cw3-fixed-multisig/src/state.rs PROPOSALS

pub open spec fn pkey(id: u64) -> Seq<u8> { path("proposals"@, u64_kb(id)) }
pub open spec fn bkey_raw(id: u64, ab: Seq<u8>) -> Seq<u8> { path("votes"@, pair_kb(u64_kb(id), ab)) }
pub open spec fn bkey(id: u64, a: Seq<char>) -> Seq<u8> { bkey_raw(id, utf8(a)) }
pub open spec fn cfg_key() -> Seq<u8> { item_key("config"@) }
pub open spec fn count_key() -> Seq<u8> { item_key("proposal_count"@) }
pub open spec fn prop_of(s: Raw, id: u64) -> Option<Proposal> { raw_get::<Proposal>(s, pkey(id)) }
pub open spec fn ballot(s: Raw, id: u64, a: Seq<char>) -> Option<Ballot> { raw_get::<Ballot>(s, bkey(id, a)) }
pub open spec fn cfg_of(s: Raw) -> Option<Config> { raw_get::<Config>(s, cfg_key()) }
pub open spec fn count(s: Raw) -> u64 { match raw_get::<u64>(s, count_key()) { Some(c) => c, None => 0 } }
pub open spec fn group_of(s: Raw) -> Seq<char> { cfg_of(s)->Some_0.group_addr.0@ }

/// `k` is the storage key of an entry of namespace `ns`
pub open spec fn in_ns(k: Seq<u8>, ns: Seq<char>) -> bool { unpath(k).0 == ns && k == path(ns, unpath(k).1) }
/// weight of the recorded ballots of kind `kind` (any kind if None) on proposal `id`
pub open spec fn w_ballots(id: u64, kind: Option<Vote>) -> spec_fn(Seq<u8>, Seq<u8>) -> nat {
    |k: Seq<u8>, v: Seq<u8>| if in_ns(k, "votes"@) && unpath(k).1 == pair_kb(u64_kb(id), unpair_kb(unpath(k).1).1) {
        match Ballot::de(v) { Some(b) => if kind is None || kind == Some(b.vote) { b.weight as nat } else { 0nat }, None => 0nat }
    } else { 0nat }
}
pub open spec fn cast(s: Raw, id: u64, kind: Option<Vote>) -> nat { sum_w(s, w_ballots(id, kind)) }
/// C03: the stored tally is, kind by kind, the sum of the recorded ballots of that proposal
pub open spec fn tally_matches(s: Raw, id: u64, v: Votes) -> bool {
    v.yes == cast(s, id, Some(Vote::Yes)) && v.no == cast(s, id, Some(Vote::No))
    && v.abstain == cast(s, id, Some(Vote::Abstain)) && v.veto == cast(s, id, Some(Vote::Veto))
}
pub open spec fn prop_inv(s: Raw, id: u64, p: Proposal) -> bool {
    p.threshold == cfg_of(s)->Some_0.threshold && p.deposit == cfg_of(s)->Some_0.proposal_deposit
    && tally_matches(s, id, p.votes) && 1 <= id <= count(s)
}
pub open spec fn inv(s: Raw) -> bool {
    cfg_of(s) is Some && pct_valid(cfg_of(s)->Some_0.threshold)
    && (forall|id: u64| #![trigger pkey(id)] prop_of(s, id) is Some ==> prop_inv(s, id, prop_of(s, id)->Some_0))
    && (forall|id: u64, ab: Seq<u8>| #![trigger bkey_raw(id, ab)] s.contains_key(bkey_raw(id, ab)) ==> 1 <= id <= count(s))
}

pub broadcast group cw3_axioms { ax_path, ax_utf8, ax_u64_ser, ax_u64_kb, ax_ser, ax_pair_kb, lemma_sum_insert, lemma_sum_remove_b, addr_ext }
pub proof fn lemma_ns3()
    ensures "proposals"@ != "votes"@, "proposals"@ != "config"@, "proposals"@ != "proposal_count"@, "proposals"@ != "contract_info"@,
        "votes"@ != "config"@, "votes"@ != "proposal_count"@, "votes"@ != "contract_info"@,
        "config"@ != "proposal_count"@, "config"@ != "contract_info"@, "proposal_count"@ != "contract_info"@,
{
    reveal_strlit("proposals"); reveal_strlit("votes"); reveal_strlit("config"); reveal_strlit("proposal_count"); reveal_strlit("contract_info");
    assert("proposals"@.len() == 9); assert("votes"@.len() == 5); assert("config"@.len() == 6);
    assert("proposal_count"@.len() == 14); assert("contract_info"@.len() == 13);
}
/// a write outside "votes" changes no ballot sum
pub proof fn lemma_side_write3(s: Raw, k: Seq<u8>, v: Seq<u8>, id: u64, kind: Option<Vote>)
    requires unpath(k).0 != "votes"@
    ensures cast(s.insert(k, v), id, kind) == cast(s, id, kind)
{
    broadcast use cw3_axioms;
}
/// the first ballot of `a` on `id` adds its weight to the matching sums of `id` and to nothing else
pub proof fn lemma_cast(s: Raw, id: u64, a: Seq<char>, b: Ballot, id2: u64, kind: Option<Vote>)
    requires !s.contains_key(bkey(id, a))
    ensures cast(s.insert(bkey(id, a), b.ser()), id2, kind) == cast(s, id2, kind)
        + (if id2 == id && (kind is None || kind == Some(b.vote)) { b.weight as nat } else { 0nat }),
{
    broadcast use cw3_axioms;
    if id2 != id { assert(u64_unkb(u64_kb(id2)) != u64_unkb(u64_kb(id))); }
}

@fn contracts/cw3-fixed-multisig/src/state.rs next_id
@requires
    count(old(store).view()) < u64::MAX
@ensures C05.next_id_increasing
    r is Ok ==> r->Ok_0 == count(old(store).view()) + 1
        && final(store).view() == old(store).view().insert(count_key(), u64_ser(r->Ok_0))
@prefix
    broadcast use cw3_axioms;
@end

/// who may execute a passed proposal (C05): anyone, any current group member, or one fixed address
pub open spec fn authorized(c: Config, w: int, sender: Seq<char>) -> bool {
    match c.executor {
        None => true,
        Some(Executor::Member) => grp_member_now(w, c.group_addr.0@, sender) is Some,
        Some(Executor::Only(a)) => a@ == sender,
    }
}
@method contracts/cw3-flex-multisig/src/state.rs Config authorize
@ensures C05.authorize_exact
    r is Ok ==> authorized(*self, querier.world(), sender@)
@ensures C05.authorize_never_refuses_the_entitled C15
    (match self.executor { None => true, Some(Executor::Only(a)) => a@ == sender@,
        Some(Executor::Member) => raw_query_ok(querier.world(), self.group_addr.0@) && grp_member_now(querier.world(), self.group_addr.0@, sender@) is Some }) ==> r is Ok
@end

// --------------------------------------------------------------------- vote
pub open spec fn add_vote_spec(v: Votes, vote: Vote, w: u64) -> Votes {
    match vote {
        Vote::Yes => Votes { yes: (v.yes + w) as u64, ..v },
        Vote::No => Votes { no: (v.no + w) as u64, ..v },
        Vote::Abstain => Votes { abstain: (v.abstain + w) as u64, ..v },
        Vote::Veto => Votes { veto: (v.veto + w) as u64, ..v },
    }
}
pub open spec fn voted_prop(p: Proposal, vote: Vote, w: u64, b: &BlockInfo) -> Proposal {
    let p1 = Proposal { votes: add_vote_spec(p.votes, vote, w), ..p };
    Proposal { status: spec_status(p1, b), ..p1 }
}
/// C06 (group-backed): the voter's weight is its weight in the group at the proposal's start height, and must be >= 1
pub open spec fn snapshot_weight(s: Raw, w: int, id: u64, a: Seq<char>, wt: u64) -> bool {
    exists|st: String| #![auto] st@ == a && grp_member_at(w, group_of(s), st, Some(prop_of(s, id)->Some_0.start_height)) == Some(Some(wt))
}
pub open spec fn vote_allowed(s: Raw, id: u64, a: Seq<char>, b: &BlockInfo) -> bool {
    cfg_of(s) is Some && prop_of(s, id) is Some
    && (prop_of(s, id)->Some_0.status == Status::Open || prop_of(s, id)->Some_0.status == Status::Passed || prop_of(s, id)->Some_0.status == Status::Rejected)
    && !prop_of(s, id)->Some_0.expires.expired(b)
    && !s.contains_key(bkey(id, a))
}
pub open spec fn vote_result(s: Raw, id: u64, a: Seq<char>, vote: Vote, wt: u64, b: &BlockInfo) -> Raw {
    s.insert(bkey(id, a), (Ballot { weight: wt, vote }).ser())
     .insert(pkey(id), voted_prop(prop_of(s, id)->Some_0, vote, wt, b).ser())
}
pub open spec fn tally_no_overflow(v: Votes, vote: Vote, w: u64) -> bool {
    match vote { Vote::Yes => v.yes + w <= u64::MAX, Vote::No => v.no + w <= u64::MAX, Vote::Abstain => v.abstain + w <= u64::MAX, Vote::Veto => v.veto + w <= u64::MAX }
}
pub open spec fn step_vote(s: Raw, t: Raw, w: int, a: Seq<char>, b: &BlockInfo, id: u64, vote: Vote) -> bool {
    vote_allowed(s, id, a, b) && exists|wt: u64| #![auto] wt >= 1 && snapshot_weight(s, w, id, a, wt)
        && tally_no_overflow(prop_of(s, id)->Some_0.votes, vote, wt) && t == vote_result(s, id, a, vote, wt, b)
}

pub proof fn lemma_vote_preserves(s: Raw, id: u64, a: Seq<char>, vote: Vote, wt: u64, b: &BlockInfo)
    requires inv(s), vote_allowed(s, id, a, b), tally_no_overflow(prop_of(s, id)->Some_0.votes, vote, wt)
    ensures inv(vote_result(s, id, a, vote, wt, b)),
        prop_of(vote_result(s, id, a, vote, wt, b), id) == Some(voted_prop(prop_of(s, id)->Some_0, vote, wt, b)),
{
    broadcast use cw3_axioms;
    lemma_ns3();
    let p = prop_of(s, id)->Some_0;
    let bl = Ballot { weight: wt, vote };
    let t1 = s.insert(bkey(id, a), bl.ser());
    let p2 = voted_prop(p, vote, wt, b);
    let t = t1.insert(pkey(id), p2.ser());
    assert(prop_inv(s, id, p));
    assert(unpath(cfg_key()) != unpath(bkey(id, a)) && unpath(cfg_key()) != unpath(pkey(id)));
    assert(unpath(count_key()) != unpath(bkey(id, a)) && unpath(count_key()) != unpath(pkey(id)));
    assert(cfg_of(t) == cfg_of(s) && count(t) == count(s));
    assert(prop_of(t, id) == Some(p2));
    assert forall|id2: u64, kind: Option<Vote>| true implies #[trigger] cast(t, id2, kind) == cast(s, id2, kind)
        + (if id2 == id && (kind is None || kind == Some(vote)) { wt as nat } else { 0nat }) by {
        lemma_cast(s, id, a, bl, id2, kind);
        lemma_side_write3(t1, pkey(id), p2.ser(), id2, kind);
    }
    assert(cast(t, id, Some(Vote::Yes)) == cast(s, id, Some(Vote::Yes)) + (if vote == Vote::Yes { wt as nat } else { 0nat }));
    assert(cast(t, id, Some(Vote::No)) == cast(s, id, Some(Vote::No)) + (if vote == Vote::No { wt as nat } else { 0nat }));
    assert(cast(t, id, Some(Vote::Abstain)) == cast(s, id, Some(Vote::Abstain)) + (if vote == Vote::Abstain { wt as nat } else { 0nat }));
    assert(cast(t, id, Some(Vote::Veto)) == cast(s, id, Some(Vote::Veto)) + (if vote == Vote::Veto { wt as nat } else { 0nat }));
    assert(prop_inv(t, id, p2));
    assert forall|id2: u64| prop_of(t, id2) is Some implies prop_inv(t, id2, prop_of(t, id2)->Some_0) by {
        if id2 != id {
            assert(u64_unkb(u64_kb(id2)) != u64_unkb(u64_kb(id)));
            assert(unpath(pkey(id2)) != unpath(pkey(id)) && unpath(pkey(id2)) != unpath(bkey(id, a)));
            assert(prop_of(t, id2) == prop_of(s, id2));
            assert(prop_inv(s, id2, prop_of(s, id2)->Some_0));
            assert(cast(t, id2, Some(Vote::Yes)) == cast(s, id2, Some(Vote::Yes)) && cast(t, id2, Some(Vote::No)) == cast(s, id2, Some(Vote::No))
                && cast(t, id2, Some(Vote::Abstain)) == cast(s, id2, Some(Vote::Abstain)) && cast(t, id2, Some(Vote::Veto)) == cast(s, id2, Some(Vote::Veto)));
        }
    }
    assert forall|id2: u64, ab: Seq<u8>| t.contains_key(bkey_raw(id2, ab)) implies 1 <= id2 <= count(t) by {
        assert(unpath(bkey_raw(id2, ab)) != unpath(pkey(id)));
        if bkey_raw(id2, ab) == bkey(id, a) {
            assert(unpair_kb(pair_kb(u64_kb(id2), ab)) == unpair_kb(pair_kb(u64_kb(id), utf8(a))));
            assert(u64_unkb(u64_kb(id2)) == u64_unkb(u64_kb(id)));
        } else {
            assert(s.contains_key(bkey_raw(id2, ab)));
        }
    }
}

@fn contracts/cw3-flex-multisig/src/contract.rs execute_vote [closures: 1]
@requires
    inv(old(deps.storage).view())
@ensures C06.vote_refused_leaves_no_trace C03 C05
    r is Err ==> final(deps.storage).view() == old(deps.storage).view()
@ensures C06.vote_exact C03 C05
    r is Ok ==> step_vote(old(deps.storage).view(), final(deps.storage).view(), deps.querier.world(), info.sender@, &env.block, proposal_id, vote)
@ensures C03.vote_inv C05 C06
    r is Ok ==> inv(final(deps.storage).view())
@ensures C05.vote_nomsg C15
    r is Ok ==> r->Ok_0.messages@.len() == 0
@ensures C15.voted_down_deposit_recoverable
    r is Ok && refundable(prop_of(old(deps.storage).view(), proposal_id)->Some_0.deposit)
        ==> prop_of(final(deps.storage).view(), proposal_id)->Some_0.status != Status::Rejected
            || prop_of(old(deps.storage).view(), proposal_id)->Some_0.status == Status::Rejected
@ensures C06.an_entitled_snapshot_voter_is_never_refused C03
    vote_allowed(old(deps.storage).view(), proposal_id, info.sender@, &env.block)
        && (forall|st: String| st@ == info.sender@ ==> (#[trigger] grp_member_at(deps.querier.world(), group_of(old(deps.storage).view()), st, Some(prop_of(old(deps.storage).view(), proposal_id)->Some_0.start_height))) is Some
            && grp_member_at(deps.querier.world(), group_of(old(deps.storage).view()), st, Some(prop_of(old(deps.storage).view(), proposal_id)->Some_0.start_height))->Some_0 is Some
            && grp_member_at(deps.querier.world(), group_of(old(deps.storage).view()), st, Some(prop_of(old(deps.storage).view(), proposal_id)->Some_0.start_height))->Some_0->Some_0 >= 1)
        ==> r is Ok
@closure 1 C06.vote_once
    (res: Result<Ballot, ContractError>)
    ensures res is Ok ==> bal is None && res->Ok_0 == (Ballot { weight: vote_power, vote }), bal is None ==> res is Ok
@prefix
    broadcast use cw3_axioms, opt_conv;
@insert_before "~is_voting_member(" 1
    proof {
        if prop_of(old(deps.storage).view(), proposal_id) is Some {
            let h0 = prop_of(old(deps.storage).view(), proposal_id)->Some_0.start_height;
            let g0 = group_of(old(deps.storage).view());
            let w0 = deps.querier.world();
            assert(<u64 as IntoSpec<Option<u64>>>::into_spec(h0) == Some(h0));
            if forall|st: String| st@ == info.sender@ ==> (#[trigger] grp_member_at(w0, g0, st, Some(h0))) is Some {
                assert forall|st: String| st@ == info.sender@ implies (#[trigger] grp_member_at(w0, g0, st, <u64 as IntoSpec<Option<u64>>>::into_spec(h0))) is Some by {
                    assert(grp_member_at(w0, g0, st, Some(h0)) is Some);
                }
            }
        }
    }
@insert_before "BALLOTS.update(" 1
    proof {
        assert(vote_power >= 1);
        assert(snapshot_weight(old(deps.storage).view(), deps.querier.world(), proposal_id, info.sender@, vote_power));
    }
@insert_before "prop.votes.add_vote(vote, vote_power);" 1
    proof {
        assert(inv(old(deps.storage).view()));
        assert(prop_inv(old(deps.storage).view(), proposal_id, prop_of(old(deps.storage).view(), proposal_id)->Some_0));
    }
@insert_before "PROPOSALS.save(" 1
    proof {
        if vote_allowed(old(deps.storage).view(), proposal_id, info.sender@, &env.block)
            && tally_no_overflow(prop_of(old(deps.storage).view(), proposal_id)->Some_0.votes, vote, vote_power) {
            lemma_vote_preserves(old(deps.storage).view(), proposal_id, info.sender@, vote, vote_power, &env.block);
        }
    }
@end

// --------------------------------------------------------------------- propose
impl JsonT for TotalWeightResponse { uninterp spec fn json(self) -> Seq<u8>; uninterp spec fn unjson(b: Seq<u8>) -> Option<Self>; }
/// the group's total weight at the start of block `h` (the cw4 `TotalWeight { at_height }` smart query)
pub open spec fn grp_total_at(w: int, g: Seq<char>, h: Option<u64>) -> Option<u64> {
    match smart_answer(w, g, (Cw4QueryMsg::TotalWeight { at_height: h }).json()) {
        Some(b) => match TotalWeightResponse::unjson(b) { Some(t) => Some(t.weight), None => None },
        None => None,
    }
}
pub open spec fn clamp_expiry(latest: Option<Expiration>, max: Expiration) -> Option<Expiration> {
    let e = match latest { Some(x) => x, None => max };
    if !e.comparable(max) { None } else if e.le_spec(max) { Some(e) } else { Some(max) }
}
pub open spec fn new_prop(s: Raw, w: int, sender: Addr, b: &BlockInfo, title: String, description: String, msgs: Vec<CosmosMsg<Empty>>, expires: Expiration) -> Proposal {
    let p0 = Proposal {
        title, description, start_height: b.height, expires, msgs, status: Status::Open,
        threshold: cfg_of(s)->Some_0.threshold, total_weight: grp_total_now(w, group_of(s))->Some_0,
        votes: Votes { yes: grp_member_now(w, group_of(s), sender@)->Some_0, no: 0, abstain: 0, veto: 0 },
        proposer: sender, deposit: cfg_of(s)->Some_0.proposal_deposit,
    };
    Proposal { status: spec_status(p0, b), ..p0 }
}
pub open spec fn propose_result(s: Raw, sender: Addr, p: Proposal) -> Raw {
    let id = (count(s) + 1) as u64;
    s.insert(count_key(), u64_ser(id)).insert(pkey(id), p.ser())
     .insert(bkey(id, sender@), (Ballot { weight: p.votes.yes, vote: Vote::Yes }).ser())
}
pub open spec fn step_propose(s: Raw, t: Raw, w: int, sender: Addr, funds: Seq<Coin>, b: &BlockInfo, title: String, description: String, msgs: Vec<CosmosMsg<Empty>>, latest: Option<Expiration>) -> bool {
    cfg_of(s) is Some
    && (cfg_of(s)->Some_0.proposal_deposit is Some ==> native_paid(cfg_of(s)->Some_0.proposal_deposit->Some_0, funds))
    && grp_member_now(w, group_of(s), sender@) is Some && grp_total_now(w, group_of(s)) is Some
    && clamp_expiry(latest, cfg_of(s)->Some_0.max_voting_period.after_spec(b)) is Some
    && t == propose_result(s, sender, new_prop(s, w, sender, b, title, description, msgs,
            clamp_expiry(latest, cfg_of(s)->Some_0.max_voting_period.after_spec(b))->Some_0))
}
/// C15: the deposit is pulled exactly once (cw20) or was attached (native): the only messages of Propose
pub open spec fn take_msgs_ok(msgs: Seq<SubMsg<Empty>>, d: Option<DepositInfo>, proposer: Seq<char>, contract: Seq<char>) -> bool {
    match d {
        Some(dep) => if dep.denom is Cw20 && dep.amount.0 != 0 {
                msgs.len() == 1 && msgs[0] == SubMsg::<Empty>::new_spec(msgs[0].msg) && is_take_msg(msgs[0].msg, dep, proposer, contract)
            } else { msgs.len() == 0 },
        None => msgs.len() == 0,
    }
}

pub proof fn lemma_no_ballots_zero(s: Raw, id: u64, kind: Option<Vote>)
    requires forall|ab: Seq<u8>| !s.contains_key(#[trigger] bkey_raw(id, ab))
    ensures cast(s, id, kind) == 0
{
    broadcast use cw3_axioms;
    assert forall|k: Seq<u8>| s.contains_key(k) implies #[trigger] w_ballots(id, kind)(k, s[k]) == 0 by {
        if in_ns(k, "votes"@) && unpath(k).1 == pair_kb(u64_kb(id), unpair_kb(unpath(k).1).1) {
            assert(k == bkey_raw(id, unpair_kb(unpath(k).1).1));
        }
    }
    lemma_sum_zero(s, w_ballots(id, kind));
}

pub proof fn lemma_propose_preserves(s: Raw, sender: Addr, p: Proposal)
    requires inv(s), count(s) < u64::MAX,
        p.votes.no == 0 && p.votes.abstain == 0 && p.votes.veto == 0,
        p.threshold == cfg_of(s)->Some_0.threshold, p.deposit == cfg_of(s)->Some_0.proposal_deposit,
    ensures inv(propose_result(s, sender, p)),
        prop_of(propose_result(s, sender, p), (count(s) + 1) as u64) == Some(p),
        count(propose_result(s, sender, p)) == count(s) + 1,
        forall|id2: u64| id2 != count(s) + 1 ==> prop_of(propose_result(s, sender, p), id2) == prop_of(s, id2),
{
    broadcast use cw3_axioms;
    lemma_ns3();
    let id = (count(s) + 1) as u64;
    let a = sender@;
    let bl = Ballot { weight: p.votes.yes, vote: Vote::Yes };
    let t0 = s.insert(count_key(), u64_ser(id));
    let t1 = t0.insert(pkey(id), p.ser());
    let t = t1.insert(bkey(id, a), bl.ser());
    assert(t == propose_result(s, sender, p));
    assert forall|ab: Seq<u8>| !s.contains_key(#[trigger] bkey_raw(id, ab)) by {
        if s.contains_key(bkey_raw(id, ab)) { assert(1 <= id <= count(s)); }
    }
    assert(unpath(cfg_key()) != unpath(count_key()) && unpath(cfg_key()) != unpath(pkey(id)) && unpath(cfg_key()) != unpath(bkey(id, a)));
    assert(unpath(count_key()) != unpath(pkey(id)) && unpath(count_key()) != unpath(bkey(id, a)));
    assert(cfg_of(t) == cfg_of(s) && count(t) == id);
    assert(unpath(pkey(id)) != unpath(bkey(id, a)));
    assert(prop_of(t, id) == Some(p));
    assert forall|id2: u64| id2 != id implies prop_of(t, id2) == prop_of(s, id2) by {
        assert(u64_unkb(u64_kb(id2)) != u64_unkb(u64_kb(id)));
        assert(unpath(pkey(id2)) != unpath(pkey(id)) && unpath(pkey(id2)) != unpath(count_key()) && unpath(pkey(id2)) != unpath(bkey(id, a)));
    }
    assert forall|id2: u64, kind: Option<Vote>| true implies
        #[trigger] cast(t, id2, kind) == cast(s, id2, kind) + (if id2 == id && (kind is None || kind == Some(Vote::Yes)) { p.votes.yes as nat } else { 0nat }) by {
        lemma_side_write3(s, count_key(), u64_ser(id), id2, kind);
        lemma_side_write3(t0, pkey(id), p.ser(), id2, kind);
        assert(!t1.contains_key(bkey(id, a))) by { assert(!s.contains_key(bkey_raw(id, utf8(a)))); }
        lemma_cast(t1, id, a, bl, id2, kind);
    }
    lemma_no_ballots_zero(s, id, Some(Vote::Yes)); lemma_no_ballots_zero(s, id, Some(Vote::No));
    lemma_no_ballots_zero(s, id, Some(Vote::Abstain)); lemma_no_ballots_zero(s, id, Some(Vote::Veto));
    assert(cast(t, id, Some(Vote::Yes)) == p.votes.yes && cast(t, id, Some(Vote::No)) == 0
        && cast(t, id, Some(Vote::Abstain)) == 0 && cast(t, id, Some(Vote::Veto)) == 0);
    assert(prop_inv(t, id, p));
    assert forall|id2: u64| prop_of(t, id2) is Some implies prop_inv(t, id2, prop_of(t, id2)->Some_0) by {
        if id2 != id {
            assert(prop_of(t, id2) == prop_of(s, id2));
            assert(prop_inv(s, id2, prop_of(s, id2)->Some_0));
            assert(cast(t, id2, Some(Vote::Yes)) == cast(s, id2, Some(Vote::Yes)) && cast(t, id2, Some(Vote::No)) == cast(s, id2, Some(Vote::No))
                && cast(t, id2, Some(Vote::Abstain)) == cast(s, id2, Some(Vote::Abstain)) && cast(t, id2, Some(Vote::Veto)) == cast(s, id2, Some(Vote::Veto)));
        }
    }
    assert forall|id2: u64, ab: Seq<u8>| t.contains_key(bkey_raw(id2, ab)) implies 1 <= id2 <= count(t) by {
        assert(unpath(bkey_raw(id2, ab)) != unpath(pkey(id)) && unpath(bkey_raw(id2, ab)) != unpath(count_key()));
        if bkey_raw(id2, ab) == bkey(id, a) {
            assert(unpair_kb(pair_kb(u64_kb(id2), ab)) == unpair_kb(pair_kb(u64_kb(id), utf8(a))));
            assert(u64_unkb(u64_kb(id2)) == u64_unkb(u64_kb(id)));
        } else {
            assert(s.contains_key(bkey_raw(id2, ab)));
        }
    }
}

/// a deposit that the configuration promises to return when the proposal fails
pub open spec fn refundable(d: Option<DepositInfo>) -> bool { d is Some && d->Some_0.refund_failed_proposals }

@fn contracts/cw3-flex-multisig/src/contract.rs execute_propose
@requires
    inv(old(deps.storage).view()),
    count(old(deps.storage).view()) < u64::MAX
@ensures C05.propose_exact C06 C03 C15
    r is Ok ==> step_propose(old(deps.storage).view(), final(deps.storage).view(), deps.querier.world(), info.sender, info.funds@, &env.block, title, description, msgs, latest)
@ensures C05.propose_inv C03 C06 C15
    r is Ok ==> inv(final(deps.storage).view())
@ensures C15.propose_takes_deposit_once
    r is Ok ==> take_msgs_ok(r->Ok_0.messages@, cfg_of(old(deps.storage).view())->Some_0.proposal_deposit, info.sender@, env.contract.address@)
@ensures C06.total_is_snapshot_total
    r is Ok ==> grp_total_at(deps.querier.world(), group_of(old(deps.storage).view()), Some(env.block.height))
        == Some(prop_of(final(deps.storage).view(), (count(old(deps.storage).view()) + 1) as u64)->Some_0.total_weight)
@ensures C06.proposer_snapshot
    r is Ok ==> exists|st: String| #![auto] st@ == info.sender@ && grp_member_at(deps.querier.world(), group_of(old(deps.storage).view()), st, Some(env.block.height))
        == Some(Some(prop_of(final(deps.storage).view(), (count(old(deps.storage).view()) + 1) as u64)->Some_0.votes.yes))
@ensures C15.propose_deposit_recoverable
    r is Ok && refundable(cfg_of(old(deps.storage).view())->Some_0.proposal_deposit)
        ==> prop_of(final(deps.storage).view(), (count(old(deps.storage).view()) + 1) as u64)->Some_0.status != Status::Rejected
@prefix
    broadcast use cw3_axioms, msg_conv;
    proof {
        let s = old(deps.storage).view();
        let w = deps.querier.world();
        if cfg_of(s) is Some && grp_total_now(w, group_of(s)) is Some {
            match cfg_of(s)->Some_0.threshold {
                Threshold::AbsolutePercentage { percentage } => { lemma_vn_le(grp_total_now(w, group_of(s))->Some_0 as int, D18() - percentage.0); }
                Threshold::ThresholdQuorum { threshold, quorum } => { lemma_vn_le(grp_total_now(w, group_of(s))->Some_0 as int, D18() - threshold.0); }
                _ => {}
            }
        }
        if cfg_of(s) is Some && grp_member_now(w, group_of(s), info.sender@) is Some && grp_total_now(w, group_of(s)) is Some
            && clamp_expiry(latest, cfg_of(s)->Some_0.max_voting_period.after_spec(&env.block)) is Some {
            lemma_propose_preserves(s, info.sender, new_prop(s, w, info.sender, &env.block, title, description, msgs,
                clamp_expiry(latest, cfg_of(s)->Some_0.max_voting_period.after_spec(&env.block))->Some_0));
        }
    }
@end

// --------------------------------------------------------------------- execute / close / hook
pub proof fn lemma_prop_write(s: Raw, id: u64, p2: Proposal)
    requires inv(s), prop_of(s, id) is Some,
        p2.votes == prop_of(s, id)->Some_0.votes, p2.threshold == prop_of(s, id)->Some_0.threshold, p2.deposit == prop_of(s, id)->Some_0.deposit,
    ensures inv(s.insert(pkey(id), p2.ser())), prop_of(s.insert(pkey(id), p2.ser()), id) == Some(p2),
        forall|id2: u64| id2 != id ==> prop_of(s.insert(pkey(id), p2.ser()), id2) == prop_of(s, id2),
        cfg_of(s.insert(pkey(id), p2.ser())) == cfg_of(s),
{
    broadcast use cw3_axioms;
    lemma_ns3();
    let t = s.insert(pkey(id), p2.ser());
    assert(unpath(cfg_key()) != unpath(pkey(id)) && unpath(count_key()) != unpath(pkey(id)));
    assert(cfg_of(t) == cfg_of(s) && count(t) == count(s));
    assert forall|id2: u64| id2 != id implies prop_of(t, id2) == prop_of(s, id2) by {
        assert(u64_unkb(u64_kb(id2)) != u64_unkb(u64_kb(id)));
        assert(unpath(pkey(id2)) != unpath(pkey(id)));
    }
    assert forall|id2: u64| prop_of(t, id2) is Some implies prop_inv(t, id2, prop_of(t, id2)->Some_0) by {
        lemma_side_write3(s, pkey(id), p2.ser(), id2, Some(Vote::Yes));
        lemma_side_write3(s, pkey(id), p2.ser(), id2, Some(Vote::No)); lemma_side_write3(s, pkey(id), p2.ser(), id2, Some(Vote::Abstain));
        lemma_side_write3(s, pkey(id), p2.ser(), id2, Some(Vote::Veto));
        if id2 != id { assert(prop_of(t, id2) == prop_of(s, id2)); assert(prop_inv(s, id2, prop_of(s, id2)->Some_0)); }
        else { assert(prop_inv(s, id, prop_of(s, id)->Some_0)); }
    }
    assert forall|id2: u64, ab: Seq<u8>| t.contains_key(bkey_raw(id2, ab)) implies 1 <= id2 <= count(t) by {
        assert(unpath(bkey_raw(id2, ab)) != unpath(pkey(id)));
        assert(s.contains_key(bkey_raw(id2, ab)));
    }
}
pub open spec fn step_execute(s: Raw, t: Raw, w: int, sender: Seq<char>, b: &BlockInfo, id: u64) -> bool {
    prop_of(s, id) is Some && spec_status(prop_of(s, id)->Some_0, b) == Status::Passed
    && cfg_of(s) is Some && authorized(cfg_of(s)->Some_0, w, sender)
    && t == s.insert(pkey(id), (Proposal { status: Status::Executed, ..prop_of(s, id)->Some_0 }).ser())
}
/// C05 / C15: Execute dispatches the refund (iff a deposit was taken) followed by exactly the proposal's messages, in order
pub open spec fn execute_msgs_ok(msgs: Seq<SubMsg<Empty>>, p: Proposal) -> bool {
    match p.deposit {
        Some(d) => msgs.len() == p.msgs@.len() + 1 && msgs[0] == SubMsg::<Empty>::new_spec(msgs[0].msg) && is_refund_msg(msgs[0].msg, d, p.proposer@)
            && (forall|i: int| 0 <= i < p.msgs@.len() ==> #[trigger] msgs[i + 1] == SubMsg::<Empty>::new_spec(p.msgs@[i])),
        None => msgs.len() == p.msgs@.len() && (forall|i: int| 0 <= i < p.msgs@.len() ==> #[trigger] msgs[i] == SubMsg::<Empty>::new_spec(p.msgs@[i])),
    }
}
pub open spec fn step_close(s: Raw, t: Raw, b: &BlockInfo, id: u64) -> bool {
    prop_of(s, id) is Some
    && prop_of(s, id)->Some_0.status != Status::Executed && prop_of(s, id)->Some_0.status != Status::Rejected && prop_of(s, id)->Some_0.status != Status::Passed
    && spec_status(prop_of(s, id)->Some_0, b) != Status::Passed
    && prop_of(s, id)->Some_0.expires.expired(b)
    && t == s.insert(pkey(id), (Proposal { status: Status::Rejected, ..prop_of(s, id)->Some_0 }).ser())
}
/// C15: Close returns the deposit iff refunds for failed proposals are enabled; nothing else is dispatched
pub open spec fn close_msgs_ok(msgs: Seq<SubMsg<Empty>>, p: Proposal) -> bool {
    if refundable(p.deposit) { msgs.len() == 1 && msgs[0] == SubMsg::<Empty>::new_spec(msgs[0].msg) && is_refund_msg(msgs[0].msg, p.deposit->Some_0, p.proposer@) }
    else { msgs.len() == 0 }
}

@fn contracts/cw3-flex-multisig/src/contract.rs execute_execute
@requires
    inv(old(deps.storage).view())
@ensures C05.execute_refused_leaves_no_trace C03 C15
    r is Err ==> final(deps.storage).view() == old(deps.storage).view()
@ensures C05.execute_only_passed_and_authorised C03 C15
    r is Ok ==> step_execute(old(deps.storage).view(), final(deps.storage).view(), deps.querier.world(), info.sender@, &env.block, proposal_id)
@ensures C05.execute_dispatches_exactly C15
    r is Ok ==> execute_msgs_ok(r->Ok_0.messages@, prop_of(old(deps.storage).view(), proposal_id)->Some_0)
@ensures C05.execute_inv C03 C06 C15
    r is Ok ==> inv(final(deps.storage).view())
@ensures C15.execute_goes_through_on_passed_proposals C05
    prop_of(old(deps.storage).view(), proposal_id) is Some && spec_status(prop_of(old(deps.storage).view(), proposal_id)->Some_0, &env.block) == Status::Passed
        && (match cfg_of(old(deps.storage).view())->Some_0.executor { None => true, Some(Executor::Only(a)) => a@ == info.sender@,
            Some(Executor::Member) => raw_query_ok(deps.querier.world(), group_of(old(deps.storage).view())) && grp_member_now(deps.querier.world(), group_of(old(deps.storage).view()), info.sender@) is Some })
        ==> r is Ok
@prefix
    broadcast use cw3_axioms, msg_conv;
    proof {
        if prop_of(old(deps.storage).view(), proposal_id) is Some {
            assert(prop_inv(old(deps.storage).view(), proposal_id, prop_of(old(deps.storage).view(), proposal_id)->Some_0));
            lemma_prop_write(old(deps.storage).view(), proposal_id, Proposal { status: Status::Executed, ..prop_of(old(deps.storage).view(), proposal_id)->Some_0 });
        }
    }
@end

@fn contracts/cw3-flex-multisig/src/contract.rs execute_close
@requires
    inv(old(deps.storage).view())
@ensures C05.close_refused_leaves_no_trace C03 C15
    r is Err ==> final(deps.storage).view() == old(deps.storage).view()
@ensures C05.close_only_expired_unpassed C03 C15
    r is Ok ==> step_close(old(deps.storage).view(), final(deps.storage).view(), &env.block, proposal_id)
@ensures C15.close_refund_iff_enabled C05
    r is Ok ==> close_msgs_ok(r->Ok_0.messages@, prop_of(old(deps.storage).view(), proposal_id)->Some_0)
@ensures C05.close_inv C03 C06 C15
    r is Ok ==> inv(final(deps.storage).view())
@ensures C15.close_goes_through_on_failed_proposals C05
    prop_of(old(deps.storage).view(), proposal_id) is Some && ({
        let p = prop_of(old(deps.storage).view(), proposal_id)->Some_0;
        p.status != Status::Executed && p.status != Status::Rejected && p.status != Status::Passed
        && spec_status(p, &env.block) != Status::Passed && p.expires.expired(&env.block)
    }) ==> r is Ok
@prefix
    broadcast use cw3_axioms, msg_conv;
    proof {
        if prop_of(old(deps.storage).view(), proposal_id) is Some {
            assert(prop_inv(old(deps.storage).view(), proposal_id, prop_of(old(deps.storage).view(), proposal_id)->Some_0));
            lemma_prop_write(old(deps.storage).view(), proposal_id, Proposal { status: Status::Rejected, ..prop_of(old(deps.storage).view(), proposal_id)->Some_0 });
        }
    }
@end

@fn contracts/cw3-flex-multisig/src/contract.rs execute_membership_hook
@ensures C06.hook_changes_nothing C03 C05 C15
    final(deps.storage).view() == old(deps.storage).view()
@ensures C05.hook_nomsg C15
    r is Ok ==> r->Ok_0.messages@.len() == 0
@end

// --------------------------------------------------------------------- instantiate, dispatcher, queries
// ASSUMED LEAF: validates a cw20 deposit token by querying its token info (packages/cw20/src/denom.rs); only used at instantiation
@method packages/cw20/src/denom.rs UncheckedDenom into_checked [assume]
@ensures C15.denom_checked
    r is Ok ==> match self { UncheckedDenom::Native(d) => r->Ok_0 == Denom::Native(d), UncheckedDenom::Cw20(a) => r->Ok_0 is Cw20 && r->Ok_0->Cw20_0@ == a@ }
@end

@method packages/cw3/src/deposit.rs UncheckedDepositInfo into_checked [closures: 1]
@ensures C15.deposit_checked
    r is Ok ==> self.amount.0 != 0 && r->Ok_0.amount == self.amount && r->Ok_0.refund_failed_proposals == self.refund_failed_proposals
@closure 1 C15.deposit_checked_err
    (res: DepositError)
    ensures true
@end

@fn contracts/cw3-flex-multisig/src/contract.rs instantiate
@requires
    old(deps.storage).view() == SMap::<Seq<u8>, Seq<u8>>::empty()
@ensures C05.instantiate_inv C03 C06 C15
    r is Ok ==> inv(final(deps.storage).view()) && count(final(deps.storage).view()) == 0
@ensures C06.instantiate_threshold_valid
    r is Ok ==> grp_total_now(deps.querier.world(), msg.group_addr@) is Some
@ensures C05.instantiate_config_as_given C03 C06 C15
    r is Ok ==> cfg_of(final(deps.storage).view()) is Some && cfg_of(final(deps.storage).view())->Some_0.threshold == msg.threshold
        && cfg_of(final(deps.storage).view())->Some_0.max_voting_period == msg.max_voting_period
        && cfg_of(final(deps.storage).view())->Some_0.group_addr.0@ == msg.group_addr@
        && cfg_of(final(deps.storage).view())->Some_0.executor == msg.executor
        && (msg.proposal_deposit is None <==> cfg_of(final(deps.storage).view())->Some_0.proposal_deposit is None)
        && (msg.proposal_deposit is Some ==> cfg_of(final(deps.storage).view())->Some_0.proposal_deposit->Some_0.amount == msg.proposal_deposit->Some_0.amount
            && cfg_of(final(deps.storage).view())->Some_0.proposal_deposit->Some_0.refund_failed_proposals == msg.proposal_deposit->Some_0.refund_failed_proposals)
        && msg.threshold.valid(grp_total_now(deps.querier.world(), msg.group_addr@)->Some_0)
        && cfg_of(final(deps.storage).view())->Some_0.threshold == msg.threshold
        && cfg_of(final(deps.storage).view())->Some_0.group_addr.0@ == msg.group_addr@
@closure 1 C06.instantiate_group_err
    (res: ContractError)
    ensures true
@closure 2 C15.instantiate_deposit_checked
    (res: Result<DepositInfo, DepositError>)
    ensures res is Ok ==> deposit.amount.0 != 0 && res->Ok_0.amount == deposit.amount && res->Ok_0.refund_failed_proposals == deposit.refund_failed_proposals
@prefix
    broadcast use cw3_axioms;
    proof { lemma_ns3(); }
@insert_before "Ok(Response::default())" 1
    proof {
        let t = deps.storage.view();
        assert forall|id: u64| prop_of(t, id) is None by { assert(!t.contains_key(pkey(id))) by { assert(unpath(pkey(id)).0 == "proposals"@); } }
        assert forall|id: u64, ab: Seq<u8>| !t.contains_key(#[trigger] bkey_raw(id, ab)) by { assert(unpath(bkey_raw(id, ab)).0 == "votes"@); }
        assert(!t.contains_key(count_key())) by { assert(unpath(count_key()).0 == "proposal_count"@); }
    }
@end

pub open spec fn step_msg(s: Raw, t: Raw, w: int, sender: Addr, funds: Seq<Coin>, b: &BlockInfo, msg: ExecuteMsg) -> bool {
    match msg {
        ExecuteMsg::Propose { title, description, msgs, latest } => step_propose(s, t, w, sender, funds, b, title, description, msgs, latest),
        ExecuteMsg::Vote { proposal_id, vote } => step_vote(s, t, w, sender@, b, proposal_id, vote),
        ExecuteMsg::Execute { proposal_id } => step_execute(s, t, w, sender@, b, proposal_id),
        ExecuteMsg::Close { proposal_id } => step_close(s, t, b, proposal_id),
        ExecuteMsg::MemberChangedHook(_) => t == s,
    }
}
/// messages of one successful call (C05: only Execute dispatches proposal messages; C15: deposit pulled / refunded)
pub open spec fn dispatch_ok(s: Raw, msgs: Seq<SubMsg<Empty>>, sender: Seq<char>, contract: Seq<char>, msg: ExecuteMsg) -> bool {
    match msg {
        ExecuteMsg::Propose { .. } => take_msgs_ok(msgs, cfg_of(s)->Some_0.proposal_deposit, sender, contract),
        ExecuteMsg::Vote { .. } => msgs.len() == 0,
        ExecuteMsg::Execute { proposal_id } => execute_msgs_ok(msgs, prop_of(s, proposal_id)->Some_0),
        ExecuteMsg::Close { proposal_id } => close_msgs_ok(msgs, prop_of(s, proposal_id)->Some_0),
        ExecuteMsg::MemberChangedHook(_) => msgs.len() == 0,
    }
}

@fn contracts/cw3-flex-multisig/src/contract.rs execute
@requires
    inv(old(deps.storage).view()),
    count(old(deps.storage).view()) < u64::MAX
@ensures C05.execute_step C03 C06 C15
    r is Ok ==> step_msg(old(deps.storage).view(), final(deps.storage).view(), deps.querier.world(), info.sender, info.funds@, &env.block, msg)
@ensures C05.execute_inv C03 C06 C15
    r is Ok ==> inv(final(deps.storage).view())
@ensures C05.execute_dispatch C15
    r is Ok ==> dispatch_ok(old(deps.storage).view(), r->Ok_0.messages@, info.sender@, env.contract.address@, msg)
@end

@fn contracts/cw3-flex-multisig/src/contract.rs query_proposal
@requires
    inv(deps.storage.view())
@ensures C03.query_status
    r is Ok ==> prop_of(deps.storage.view(), id) is Some && r->Ok_0.status == spec_status(prop_of(deps.storage.view(), id)->Some_0, &env.block)
@ensures C05.query_content C15
    r is Ok ==> r->Ok_0.id == id && r->Ok_0.msgs == prop_of(deps.storage.view(), id)->Some_0.msgs && r->Ok_0.expires == prop_of(deps.storage.view(), id)->Some_0.expires
        && r->Ok_0.proposer == prop_of(deps.storage.view(), id)->Some_0.proposer && r->Ok_0.deposit == prop_of(deps.storage.view(), id)->Some_0.deposit
@ensures C03.query_threshold_is_proposals_own C06 C05
    r is Ok ==> r->Ok_0.threshold == prop_of(deps.storage.view(), id)->Some_0.threshold.resp(prop_of(deps.storage.view(), id)->Some_0.total_weight)
@prefix
    proof { if prop_of(deps.storage.view(), id) is Some { assert(prop_inv(deps.storage.view(), id, prop_of(deps.storage.view(), id)->Some_0)); } }
@end

@fn contracts/cw3-flex-multisig/src/contract.rs query_threshold
@ensures C06.query_threshold_current_group_total
    r is Ok ==> cfg_of(deps.storage.view()) is Some && grp_total_now(deps.querier.world(), group_of(deps.storage.view())) is Some
        && r->Ok_0 == cfg_of(deps.storage.view())->Some_0.threshold.resp(grp_total_now(deps.querier.world(), group_of(deps.storage.view()))->Some_0)
@prefix
    broadcast use cw3_axioms;
@end

@fn contracts/cw3-flex-multisig/src/contract.rs query_vote [closures: 1]
@ensures C06.query_vote
    r is Ok ==> match ballot(deps.storage.view(), proposal_id, voter@) {
        Some(b) => r->Ok_0.vote is Some && r->Ok_0.vote->Some_0.weight == b.weight && r->Ok_0.vote->Some_0.vote == b.vote
            && r->Ok_0.vote->Some_0.proposal_id == proposal_id && r->Ok_0.vote->Some_0.voter@ == voter@,
        None => r->Ok_0.vote is None,
    }
@closure 1 C06.query_vote_map
    (res: VoteInfo)
    ensures res.proposal_id == proposal_id && res.vote == b.vote && res.weight == b.weight && res.voter@ == voter@
@prefix
    broadcast use cw3_axioms;
@end

@fn contracts/cw3-flex-multisig/src/contract.rs query_voter
@ensures C06.query_voter_is_group_member
    r is Ok ==> cfg_of(deps.storage.view()) is Some && r->Ok_0.weight == grp_member_now(deps.querier.world(), group_of(deps.storage.view()), voter@)
@end


// ===================================================================== lifecycle over histories (C05, C15)
/// the stored status of a proposal only moves forward: Open -> Passed / Rejected / Executed, Passed -> Executed; Rejected and
/// Executed are final
pub open spec fn status_forward(a: Status, b: Status) -> bool {
    a == b || a == Status::Open || (a == Status::Passed && b == Status::Executed) || a == Status::Pending
}
pub open spec fn same_content(p: Proposal, q: Proposal) -> bool {
    p.title == q.title && p.description == q.description && p.msgs == q.msgs && p.expires == q.expires && p.start_height == q.start_height
    && p.threshold == q.threshold && p.total_weight == q.total_weight && p.proposer == q.proposer && p.deposit == q.deposit
}
/// C05 / C15, per step and per existing proposal id
pub open spec fn lifecycle_post(s: Raw, t: Raw, msg: ExecuteMsg, id: u64) -> bool {
    prop_of(t, id) is Some && same_content(prop_of(s, id)->Some_0, prop_of(t, id)->Some_0)
    && status_forward(prop_of(s, id)->Some_0.status, prop_of(t, id)->Some_0.status)
    && (msg is Execute && msg->Execute_proposal_id == id ==> prop_of(s, id)->Some_0.status != Status::Executed && prop_of(s, id)->Some_0.status != Status::Rejected
        && prop_of(t, id)->Some_0.status == Status::Executed)
    && (msg is Close && msg->Close_proposal_id == id ==> prop_of(s, id)->Some_0.status != Status::Executed && prop_of(s, id)->Some_0.status != Status::Rejected
        && prop_of(s, id)->Some_0.status != Status::Passed && prop_of(t, id)->Some_0.status == Status::Rejected)
}
// serves: C05 C15
/// one lemma per message variant (each is its own, small SMT query)
pub proof fn lemma_lifecycle_propose(s: Raw, t: Raw, w: int, sender: Addr, funds: Seq<Coin>, b: &BlockInfo, msg: ExecuteMsg, id: u64)
    requires inv(s), count(s) < u64::MAX, step_msg(s, t, w, sender, funds, b, msg), prop_of(s, id) is Some, msg is Propose
    ensures lifecycle_post(s, t, msg, id)
{
    broadcast use cw3_axioms;
    lemma_ns3();
    let p = prop_of(s, id)->Some_0;
    assert(prop_inv(s, id, p));
    let nid = (count(s) + 1) as u64;
    assert(u64_unkb(u64_kb(nid)) != u64_unkb(u64_kb(id)));
    assert(unpath(pkey(id)) != unpath(pkey(nid)) && unpath(pkey(id)) != unpath(count_key()) && unpath(pkey(id)) != unpath(bkey(nid, sender@)));
}
// serves: C05 C15
pub proof fn lemma_lifecycle_vote(s: Raw, t: Raw, w: int, sender: Addr, funds: Seq<Coin>, b: &BlockInfo, msg: ExecuteMsg, id: u64)
    requires inv(s), count(s) < u64::MAX, step_msg(s, t, w, sender, funds, b, msg), prop_of(s, id) is Some, msg is Vote
    ensures lifecycle_post(s, t, msg, id)
{
    broadcast use cw3_axioms;
    lemma_ns3();
    let p = prop_of(s, id)->Some_0;
    assert(prop_inv(s, id, p));
    let proposal_id = msg->Vote_proposal_id;
    let vote = msg->Vote_vote;
    let wt = choose|wt: u64| #![auto] wt >= 1 && snapshot_weight(s, w, proposal_id, sender@, wt)
        && tally_no_overflow(prop_of(s, proposal_id)->Some_0.votes, vote, wt) && t == vote_result(s, proposal_id, sender@, vote, wt, b);
    lemma_vote_preserves(s, proposal_id, sender@, vote, wt, b);
    if proposal_id != id {
        assert(u64_unkb(u64_kb(proposal_id)) != u64_unkb(u64_kb(id)));
        assert(unpath(pkey(id)) != unpath(pkey(proposal_id)) && unpath(pkey(id)) != unpath(bkey(proposal_id, sender@)));
    } else {
        lemma_status_sticky(Proposal { votes: add_vote_spec(p.votes, vote, wt), ..p }, b);
    }
}
// serves: C05 C15
pub proof fn lemma_lifecycle_execute_close(s: Raw, t: Raw, w: int, sender: Addr, funds: Seq<Coin>, b: &BlockInfo, msg: ExecuteMsg, id: u64)
    requires inv(s), count(s) < u64::MAX, step_msg(s, t, w, sender, funds, b, msg), prop_of(s, id) is Some, msg is Execute || msg is Close
    ensures lifecycle_post(s, t, msg, id)
{
    broadcast use cw3_axioms;
    lemma_ns3();
    let p = prop_of(s, id)->Some_0;
    assert(prop_inv(s, id, p));
    match msg {
        ExecuteMsg::Execute { proposal_id } => {
            lemma_prop_write(s, proposal_id, Proposal { status: Status::Executed, ..prop_of(s, proposal_id)->Some_0 });
            if proposal_id == id { lemma_status_sticky(p, b); }
        }
        ExecuteMsg::Close { proposal_id } => {
            lemma_prop_write(s, proposal_id, Proposal { status: Status::Rejected, ..prop_of(s, proposal_id)->Some_0 });
        }
        _ => {}
    }
}
// serves: C05 C15
pub proof fn lemma_lifecycle_step(s: Raw, t: Raw, w: int, sender: Addr, funds: Seq<Coin>, b: &BlockInfo, msg: ExecuteMsg, id: u64)
    requires inv(s), count(s) < u64::MAX, step_msg(s, t, w, sender, funds, b, msg), prop_of(s, id) is Some
    ensures lifecycle_post(s, t, msg, id)
{
    match msg {
        ExecuteMsg::Propose { .. } => lemma_lifecycle_propose(s, t, w, sender, funds, b, msg, id),
        ExecuteMsg::Vote { .. } => lemma_lifecycle_vote(s, t, w, sender, funds, b, msg, id),
        ExecuteMsg::Execute { .. } => lemma_lifecycle_execute_close(s, t, w, sender, funds, b, msg, id),
        ExecuteMsg::Close { .. } => lemma_lifecycle_execute_close(s, t, w, sender, funds, b, msg, id),
        ExecuteMsg::MemberChangedHook(_) => {}
    }
}
/// the status recomputed for a proposal whose stored status is not Open is that stored status (sticky)
pub proof fn lemma_status_sticky(p: Proposal, b: &BlockInfo)
    ensures p.status != Status::Open ==> spec_status(p, b) == p.status,
        p.status == Status::Open ==> spec_status(p, b) == Status::Open || spec_status(p, b) == Status::Passed || spec_status(p, b) == Status::Rejected,
{
}
pub struct FlexCall { pub world: int, pub sender: Addr, pub funds: Seq<Coin>, pub block: BlockInfo, pub msg: ExecuteMsg }
/// one successful call of a history (failed calls change nothing, A1); the group contract's state `world` may differ from call to call
pub open spec fn flex_call_at(tr: Seq<Raw>, cs: Seq<FlexCall>, k: int) -> bool {
    inv(tr[k]) && count(tr[k]) < u64::MAX && step_msg(tr[k], tr[k + 1], cs[k].world, cs[k].sender, cs[k].funds, &cs[k].block, cs[k].msg)
}
// serves: C05 C15
/// over any history a proposal, once it exists, keeps its content (messages, proposer, deposit, expiry, threshold, total) and its
/// stored status only moves forward
pub proof fn lemma_c05_flex_history(tr: Seq<Raw>, cs: Seq<FlexCall>, i: int, j: int, id: u64)
    requires tr.len() == cs.len() + 1, 0 <= i <= j <= cs.len(), forall|k: int| 0 <= k < cs.len() ==> #[trigger] flex_call_at(tr, cs, k), prop_of(tr[i], id) is Some
    ensures prop_of(tr[j], id) is Some, same_content(prop_of(tr[i], id)->Some_0, prop_of(tr[j], id)->Some_0),
        status_forward(prop_of(tr[i], id)->Some_0.status, prop_of(tr[j], id)->Some_0.status),
    decreases j - i
{
    if i < j {
        lemma_c05_flex_history(tr, cs, i, j - 1, id);
        assert(flex_call_at(tr, cs, j - 1));
        lemma_lifecycle_step(tr[j - 1], tr[j], cs[j - 1].world, cs[j - 1].sender, cs[j - 1].funds, &cs[j - 1].block, cs[j - 1].msg, id);
    }
}
// serves: C05 C15
/// the proposal's messages and the deposit refund are dispatched at most once: after a successful Execute or Close of `id`
/// (the only calls that emit the refund, `dispatch_ok`) no later Execute or Close of `id` succeeds
pub proof fn lemma_c15_refund_once(tr: Seq<Raw>, cs: Seq<FlexCall>, i: int, j: int, id: u64)
    requires tr.len() == cs.len() + 1, 0 <= i < j < cs.len(), forall|k: int| 0 <= k < cs.len() ==> #[trigger] flex_call_at(tr, cs, k),
        prop_of(tr[i], id) is Some,
        (cs[i].msg is Execute && cs[i].msg->Execute_proposal_id == id) || (cs[i].msg is Close && cs[i].msg->Close_proposal_id == id),
    ensures !((cs[j].msg is Execute && cs[j].msg->Execute_proposal_id == id) || (cs[j].msg is Close && cs[j].msg->Close_proposal_id == id))
{
    assert(flex_call_at(tr, cs, i));
    lemma_lifecycle_step(tr[i], tr[i + 1], cs[i].world, cs[i].sender, cs[i].funds, &cs[i].block, cs[i].msg, id);
    lemma_c05_flex_history(tr, cs, i + 1, j, id);
    assert(flex_call_at(tr, cs, j));
    lemma_lifecycle_step(tr[j], tr[j + 1], cs[j].world, cs[j].sender, cs[j].funds, &cs[j].block, cs[j].msg, id);
}

// ===================================================================== C20: listings of cw3-flex-multisig
@struct packages/cw3/src/query.rs ProposalListResponse
@struct packages/cw3/src/query.rs VoteListResponse
@const contracts/cw3-flex-multisig/src/contract.rs MAX_LIMIT
@const contracts/cw3-flex-multisig/src/contract.rs DEFAULT_LIMIT
@include inc/paging.vsi

/// the response entry a stored proposal is shown as (status recomputed at the query block, C03)
pub open spec fn shows(r: ProposalResponse<Empty>, id: u64, p: Proposal, b: &BlockInfo) -> bool {
    r.id == id && r.status == spec_status(p, b) && r.msgs == p.msgs && r.expires == p.expires && r.proposer == p.proposer
    && r.title == p.title && r.description == p.description && r.deposit == p.deposit
    && r.threshold == p.threshold.resp(p.total_weight)
}
@fn contracts/cw3-flex-multisig/src/contract.rs map_proposal [closures: 1]
@requires
    item is Ok ==> pct_valid(item->Ok_0.1.threshold)
@ensures C20.map_proposal C03 C05
    match item { Ok((id, p)) => r is Ok && shows(r->Ok_0, id, p, block), Err(_) => r is Err }
@closure 1 C20.map_proposal_closure
    (res: ProposalResponse<Empty>)
    requires pct_valid(__p1_0.1.threshold)
    ensures shows(res, __p1_0.0, __p1_0.1, block)
@end

pub open spec fn u64_cursor(c: Option<u64>) -> Option<Seq<u8>> { match c { Some(x) => Some(u64_kb(x)), None => None } }
pub open spec fn str_cursor(c: Option<String>) -> Option<Seq<u8>> { match c { Some(s) => Some(utf8(s@)), None => None } }
/// a listed entry that decodes as (u64 id, Proposal) carries a valid threshold
pub open spec fn entry_wf(e: Entry) -> bool {
    forall|id: u64| #![trigger u64_kb(id)] e.0 == u64_kb(id) && Proposal::de(e.1) is Some ==> pct_valid(Proposal::de(e.1)->Some_0.threshold)
}
pub proof fn lemma_listed_wf(s: Raw)
    requires inv(s)
    ensures forall|i: int| 0 <= i < listing(s, "proposals"@, Seq::<u8>::empty(), false).len() ==> entry_wf(#[trigger] listing(s, "proposals"@, Seq::<u8>::empty(), false)[i])
{
    broadcast use ax_listing;
    let l = listing(s, "proposals"@, Seq::<u8>::empty(), false);
    assert forall|i: int| 0 <= i < l.len() implies entry_wf(#[trigger] l[i]) by {
        assert(s.contains_key(path("proposals"@, full_key(Seq::<u8>::empty(), l[i].0, false))));
        assert forall|id: u64| l[i].0 == #[trigger] u64_kb(id) && Proposal::de(l[i].1) is Some implies pct_valid(Proposal::de(l[i].1)->Some_0.threshold) by {
            assert(s.contains_key(pkey(id)));
            assert(prop_inv(s, id, prop_of(s, id)->Some_0));
        }
    }
}

@fn contracts/cw3-flex-multisig/src/contract.rs list_proposals [closures: 1]
@requires
    inv(deps.storage.view())
@ensures C20.list_proposals_page C03 C05
    r is Ok ==> ({
        let pg = page(listing(deps.storage.view(), "proposals"@, Seq::<u8>::empty(), false), u64_cursor(start_after), limit);
        r->Ok_0.proposals@.len() == pg.len() && forall|i: int| 0 <= i < pg.len() ==> u64_kb((#[trigger] r->Ok_0.proposals@[i]).id) == pg[i].0
            && Proposal::de(pg[i].1) is Some && shows(r->Ok_0.proposals@[i], r->Ok_0.proposals@[i].id, Proposal::de(pg[i].1)->Some_0, &env.block)
    })
@eta "start_after.map" 1
    __c: u64 -> Bound<u64>
@closure_types 1
    p: StdResult<(u64, Proposal)>
@closure 1 C20.list_proposals_map
    (res: StdResult<ProposalResponse<Empty>>)
    requires p is Ok ==> pct_valid(p->Ok_0.1.threshold)
    ensures match p { Ok((id, pp)) => res is Ok && shows(res->Ok_0, id, pp, &env.block), Err(_) => res is Err }
@prefix
    broadcast use cw3_axioms, ax_listing;
    proof {
        let s = deps.storage.view();
        let l = listing(s, "proposals"@, Seq::<u8>::empty(), false);
        lemma_listed_wf(s);
        lemma_scan_all(l, match start_after { Some(c) => Some((u64_kb(c), false)), None => None }, None, Order::Ascending, |e: Entry| entry_wf(e));
    }
@end

@fn contracts/cw3-flex-multisig/src/contract.rs reverse_proposals [closures: 1]
@requires
    inv(deps.storage.view())
@ensures C20.reverse_proposals_page C03 C05
    r is Ok ==> ({
        let pg = page_desc(listing(deps.storage.view(), "proposals"@, Seq::<u8>::empty(), false), u64_cursor(start_before), limit);
        r->Ok_0.proposals@.len() == pg.len() && forall|i: int| 0 <= i < pg.len() ==> u64_kb((#[trigger] r->Ok_0.proposals@[i]).id) == pg[i].0
            && Proposal::de(pg[i].1) is Some && shows(r->Ok_0.proposals@[i], r->Ok_0.proposals@[i].id, Proposal::de(pg[i].1)->Some_0, &env.block)
    })
@eta "start_before.map" 1
    __c: u64 -> Bound<u64>
@closure_types 1
    p: StdResult<(u64, Proposal)>
@closure 1 C20.reverse_proposals_map
    (res: StdResult<ProposalResponse<Empty>>)
    requires p is Ok ==> pct_valid(p->Ok_0.1.threshold)
    ensures match p { Ok((id, pp)) => res is Ok && shows(res->Ok_0, id, pp, &env.block), Err(_) => res is Err }
@prefix
    broadcast use cw3_axioms, ax_listing;
    proof {
        let s = deps.storage.view();
        let l = listing(s, "proposals"@, Seq::<u8>::empty(), false);
        lemma_listed_wf(s);
        lemma_scan_all(l, None, match start_before { Some(c) => Some((u64_kb(c), false)), None => None }, Order::Descending, |e: Entry| entry_wf(e));
    }
@end

@fn contracts/cw3-flex-multisig/src/contract.rs list_votes [closures: 2]
@ensures C20.list_votes_page C03 C06
    r is Ok ==> ({
        let pg = page(listing(deps.storage.view(), "votes"@, u64_kb(proposal_id), true), str_cursor(start_after), limit);
        r->Ok_0.votes@.len() == pg.len() && forall|i: int| 0 <= i < pg.len() ==> utf8((#[trigger] r->Ok_0.votes@[i]).voter@) == pg[i].0
            && r->Ok_0.votes@[i].proposal_id == proposal_id && Ballot::de(pg[i].1) is Some
            && r->Ok_0.votes@[i].vote == Ballot::de(pg[i].1)->Some_0.vote && r->Ok_0.votes@[i].weight == Ballot::de(pg[i].1)->Some_0.weight
    })
@eta ".as_ref().map" 1
    __c: &Addr -> Bound<&Addr>
@closure_types 1
    item: StdResult<(Addr, Ballot)>
@closure 1 C20.list_votes_map
    (res: StdResult<VoteInfo>)
    ensures match item { Ok((a, b)) => res is Ok && res->Ok_0.voter@ == a@ && res->Ok_0.proposal_id == proposal_id && res->Ok_0.vote == b.vote && res->Ok_0.weight == b.weight, Err(_) => res is Err }
@closure_types 2
    __p2_0: (Addr, Ballot)
@closure 2 C20.list_votes_entry
    (res: VoteInfo)
    ensures res.voter@ == __p2_0.0@ && res.proposal_id == proposal_id && res.vote == __p2_0.1.vote && res.weight == __p2_0.1.weight
@prefix
    broadcast use string_conv, cw3_axioms;
@end

// ===================================================================== the query entry point routes every message to its query function
@enum contracts/cw3-flex-multisig/src/msg.rs QueryMsg
@struct packages/cw3/src/query.rs VoterListResponse
@struct packages/cw3/src/query.rs VoterDetail
impl JsonT for ThresholdResponse { uninterp spec fn json(self) -> Seq<u8>; uninterp spec fn unjson(b: Seq<u8>) -> Option<Self>; }
impl JsonT for ProposalResponse<Empty> { uninterp spec fn json(self) -> Seq<u8>; uninterp spec fn unjson(b: Seq<u8>) -> Option<Self>; }
impl JsonT for VoteResponse { uninterp spec fn json(self) -> Seq<u8>; uninterp spec fn unjson(b: Seq<u8>) -> Option<Self>; }
impl JsonT for VoterResponse { uninterp spec fn json(self) -> Seq<u8>; uninterp spec fn unjson(b: Seq<u8>) -> Option<Self>; }
impl JsonT for ProposalListResponse<Empty> { uninterp spec fn json(self) -> Seq<u8>; uninterp spec fn unjson(b: Seq<u8>) -> Option<Self>; }
impl JsonT for VoteListResponse { uninterp spec fn json(self) -> Seq<u8>; uninterp spec fn unjson(b: Seq<u8>) -> Option<Self>; }
impl JsonT for VoterListResponse { uninterp spec fn json(self) -> Seq<u8>; uninterp spec fn unjson(b: Seq<u8>) -> Option<Self>; }
impl JsonT for Config { uninterp spec fn json(self) -> Seq<u8>; uninterp spec fn unjson(b: Seq<u8>) -> Option<Self>; }
// list_voters only forwards the group contract's own member listing (declaration only, nothing assumed about it)
@fn contracts/cw3-flex-multisig/src/contract.rs list_voters [assume]
@end
@fn contracts/cw3-flex-multisig/src/contract.rs query_config
@ensures C05.query_config
    r is Ok ==> Some(r->Ok_0) == cfg_of(deps.storage.view())
@prefix
    broadcast use cw3_axioms;
@end
@fn contracts/cw3-flex-multisig/src/contract.rs query
@requires
    inv(deps.storage.view())
@ensures C03.query_routes C05 C06 C15 C20
    r is Ok ==> match msg {
        QueryMsg::Threshold {} => exists|x: ThresholdResponse| r->Ok_0@ == x.json() && call_ensures(query_threshold, (deps,), Ok::<ThresholdResponse, StdError>(x)),
        QueryMsg::Proposal { proposal_id } => exists|x: ProposalResponse<Empty>| r->Ok_0@ == x.json() && call_ensures(query_proposal, (deps, env, proposal_id), Ok::<ProposalResponse<Empty>, StdError>(x)),
        QueryMsg::Vote { proposal_id, voter } => exists|x: VoteResponse| r->Ok_0@ == x.json() && call_ensures(query_vote, (deps, proposal_id, voter), Ok::<VoteResponse, StdError>(x)),
        QueryMsg::ListProposals { start_after, limit } => exists|x: ProposalListResponse<Empty>| r->Ok_0@ == x.json() && call_ensures(list_proposals, (deps, env, start_after, limit), Ok::<ProposalListResponse<Empty>, StdError>(x)),
        QueryMsg::ReverseProposals { start_before, limit } => exists|x: ProposalListResponse<Empty>| r->Ok_0@ == x.json() && call_ensures(reverse_proposals, (deps, env, start_before, limit), Ok::<ProposalListResponse<Empty>, StdError>(x)),
        QueryMsg::ListVotes { proposal_id, start_after, limit } => exists|x: VoteListResponse| r->Ok_0@ == x.json() && call_ensures(list_votes, (deps, proposal_id, start_after, limit), Ok::<VoteListResponse, StdError>(x)),
        QueryMsg::Voter { address } => exists|x: VoterResponse| r->Ok_0@ == x.json() && call_ensures(query_voter, (deps, address), Ok::<VoterResponse, StdError>(x)),
        QueryMsg::ListVoters { start_after, limit } => exists|x: VoterListResponse| r->Ok_0@ == x.json() && call_ensures(list_voters, (deps, start_after, limit), Ok::<VoterListResponse, StdError>(x)),
        QueryMsg::Config {} => exists|x: Config| r->Ok_0@ == x.json() && call_ensures(query_config, (deps,), Ok::<Config, StdError>(x)),
    }
@end
