@unit cw20
@shim core.rs cw_utils.rs
@properties C01 C02 C13 C19

// ===================================================================== extracted data types
@struct packages/cw20/src/coin.rs Cw20Coin
@struct packages/cw20/src/query.rs AllowanceResponse [default: AllowanceResponse { allowance: Uint128(0), expires: Expiration::Never {} }]
@struct packages/cw20/src/query.rs MinterResponse
@struct packages/cw20/src/receiver.rs Cw20ReceiveMsg
@enum packages/cw20/src/receiver.rs ReceiverExecuteMsg
@enum contracts/cw20-base/src/error.rs ContractError
@struct contracts/cw20-base/src/state.rs TokenInfo
@struct contracts/cw20-base/src/state.rs MinterData

impl SerT for TokenInfo { uninterp spec fn ser(self) -> Seq<u8>; uninterp spec fn de(b: Seq<u8>) -> Option<Self>; }
impl SerT for AllowanceResponse { uninterp spec fn ser(self) -> Seq<u8>; uninterp spec fn de(b: Seq<u8>) -> Option<Self>; }
impl JsonT for ReceiverExecuteMsg { uninterp spec fn json(self) -> Seq<u8>; uninterp spec fn unjson(b: Seq<u8>) -> Option<Self>; }

@const contracts/cw20-base/src/state.rs TOKEN_INFO
@const contracts/cw20-base/src/state.rs BALANCES
@const contracts/cw20-base/src/state.rs ALLOWANCES
@const contracts/cw20-base/src/state.rs ALLOWANCES_SPENDER

// ===================================================================== abstract view of the token state
pub open spec fn bkey(a: Seq<char>) -> Seq<u8> { path("balance"@, utf8(a)) }
pub open spec fn ti_key() -> Seq<u8> { item_key("token_info"@) }
pub open spec fn bal(s: Raw, a: Seq<char>) -> nat {
    if s.contains_key(bkey(a)) { match u128_de(s[bkey(a)]) { Some(x) => x as nat, None => 0 } } else { 0 }
}
pub open spec fn total_bal(s: Raw) -> nat { sum_w(s, w_u128("balance"@)) }
pub open spec fn tinfo(s: Raw) -> Option<TokenInfo> { raw_get::<TokenInfo>(s, ti_key()) }
pub open spec fn supply(s: Raw) -> nat { tinfo(s)->Some_0.total_supply@ }

/// C01 invariant: the token info exists and its total supply is the sum of all balances
pub open spec fn inv_supply(s: Raw) -> bool {
    tinfo(s) is Some && total_bal(s) == supply(s)
}
/// C13 invariant: the supply never exceeds the cap while a cap exists
pub open spec fn cap_of(t: TokenInfo) -> Option<Uint128> {
    match t.mint { Some(m) => m.cap, None => None }
}
pub open spec fn inv_cap(s: Raw) -> bool {
    tinfo(s) is Some ==> (cap_of(tinfo(s)->Some_0) is Some ==> supply(s) <= cap_of(tinfo(s)->Some_0)->Some_0@)
}
pub open spec fn inv(s: Raw) -> bool { inv_supply(s) && inv_cap(s) }

pub open spec fn debit(s: Raw, a: Seq<char>, amt: nat) -> Raw {
    s.insert(bkey(a), u128_ser((bal(s, a) - amt) as u128))
}
pub open spec fn credit(s: Raw, a: Seq<char>, amt: nat) -> Raw {
    s.insert(bkey(a), u128_ser((bal(s, a) + amt) as u128))
}
pub open spec fn set_supply(s: Raw, v: nat) -> Raw {
    s.insert(ti_key(), (TokenInfo { total_supply: Uint128(v as u128), ..tinfo(s)->Some_0 }).ser())
}

/// whole-state step relations, written from the property statements (C01, C02, C13)
pub open spec fn step_transfer(s: Raw, t: Raw, from: Seq<char>, to: Seq<char>, amt: nat) -> bool {
    bal(s, from) >= amt && t == credit(debit(s, from, amt), to, amt)
}
pub open spec fn step_burn(s: Raw, t: Raw, from: Seq<char>, amt: nat) -> bool {
    bal(s, from) >= amt && tinfo(s) is Some && supply(s) >= amt
    && t == set_supply(debit(s, from, amt), (supply(s) - amt) as nat)
}
pub open spec fn step_mint(s: Raw, t: Raw, sender: Seq<char>, to: Seq<char>, amt: nat) -> bool {
    tinfo(s) is Some && tinfo(s)->Some_0.mint is Some && tinfo(s)->Some_0.mint->Some_0.minter@ == sender
    && (cap_of(tinfo(s)->Some_0) is Some ==> supply(s) + amt <= cap_of(tinfo(s)->Some_0)->Some_0@)
    && t == credit(set_supply(s, supply(s) + amt), to, amt)
}

pub broadcast group cw20_axioms { ax_path, ax_utf8, ax_u128_ser, ax_ser, ax_pair_kb, lemma_sum_insert, lemma_sum_remove_b, addr_ext }

pub proof fn lemma_ns()
    ensures "balance"@ != "token_info"@, "balance"@ != "allowance"@, "balance"@ != "allowance_spender"@,
        "token_info"@ != "allowance"@, "token_info"@ != "allowance_spender"@, "allowance"@ != "allowance_spender"@,
        "marketing_info"@ != "balance"@, "marketing_info"@ != "token_info"@, "marketing_info"@ != "allowance"@, "marketing_info"@ != "allowance_spender"@,
        "logo"@ != "balance"@, "logo"@ != "token_info"@, "logo"@ != "allowance"@, "logo"@ != "allowance_spender"@, "logo"@ != "marketing_info"@,
        "contract_info"@ != "balance"@, "contract_info"@ != "token_info"@, "contract_info"@ != "allowance"@, "contract_info"@ != "allowance_spender"@,
{
    reveal_strlit("balance"); reveal_strlit("token_info"); reveal_strlit("allowance"); reveal_strlit("allowance_spender");
    reveal_strlit("marketing_info"); reveal_strlit("logo"); reveal_strlit("contract_info");
    assert("balance"@.len() == 7); assert("token_info"@.len() == 10); assert("allowance"@.len() == 9);
    assert("allowance_spender"@.len() == 17); assert("marketing_info"@.len() == 14); assert("logo"@.len() == 4);
    assert("contract_info"@.len() == 13);
}
pub proof fn lemma_debit(s: Raw, a: Seq<char>, amt: nat)
    ensures bal(s, a) >= amt ==> total_bal(debit(s, a, amt)) == total_bal(s) - amt,
        bal(s, a) >= amt ==> bal(debit(s, a, amt), a) == bal(s, a) - amt,
        forall|x: Seq<char>| x != a ==> bal(debit(s, a, amt), x) == bal(s, x),
        tinfo(debit(s, a, amt)) == tinfo(s),
{
    broadcast use cw20_axioms;
    lemma_sum_ge_one_opt(s, a);
    assert forall|x: Seq<char>| x != a implies bal(debit(s, a, amt), x) == bal(s, x) by {
        assert(unpath(bkey(x)) != unpath(bkey(a)));
    }
    lemma_ns();
    assert(unpath(ti_key()) != unpath(bkey(a)));
}
pub proof fn lemma_sum_ge_one_opt(s: Raw, a: Seq<char>)
    ensures bal(s, a) <= total_bal(s)
{
    broadcast use cw20_axioms;
    if s.contains_key(bkey(a)) { lemma_sum_ge_one(s, w_u128("balance"@), bkey(a)); }
}
pub proof fn lemma_credit(s: Raw, a: Seq<char>, amt: nat)
    ensures bal(s, a) + amt <= u128::MAX ==> total_bal(credit(s, a, amt)) == total_bal(s) + amt,
        bal(s, a) + amt <= u128::MAX ==> bal(credit(s, a, amt), a) == bal(s, a) + amt,
        forall|x: Seq<char>| x != a ==> bal(credit(s, a, amt), x) == bal(s, x),
        tinfo(credit(s, a, amt)) == tinfo(s),
{
    broadcast use cw20_axioms;
    assert forall|x: Seq<char>| x != a implies bal(credit(s, a, amt), x) == bal(s, x) by {
        assert(unpath(bkey(x)) != unpath(bkey(a)));
    }
    lemma_ns();
    assert(unpath(ti_key()) != unpath(bkey(a)));
}
pub proof fn lemma_set_supply(s: Raw, v: nat)
    ensures total_bal(set_supply(s, v)) == total_bal(s),
        forall|x: Seq<char>| bal(set_supply(s, v), x) == bal(s, x),
        v <= u128::MAX ==> tinfo(set_supply(s, v)) == Some(TokenInfo { total_supply: Uint128(v as u128), ..tinfo(s)->Some_0 }),
{
    broadcast use cw20_axioms;
    lemma_ns();
    assert forall|x: Seq<char>| bal(set_supply(s, v), x) == bal(s, x) by {
        assert(unpath(ti_key()) != unpath(bkey(x)));
    }
    assert(unpath(ti_key()).0 != "balance"@);
}

// ===================================================================== functions under contract
@method contracts/cw20-base/src/state.rs TokenInfo get_cap
@ensures C13.get_cap
    r == cap_of(*self)
@closure 1 C13.get_cap_closure
    (res: Option<Uint128>)
    ensures res == v.cap
@end

@fn contracts/cw20-base/src/contract.rs execute_transfer [closures: 2]
@requires
    inv(old(deps.storage).view())
@ensures C02.transfer_exact C01
    r is Ok ==> step_transfer(old(deps.storage).view(), final(deps.storage).view(), info.sender@, recipient@, amount@)
@ensures C01.transfer_inv C13
    r is Ok ==> inv(final(deps.storage).view())
@ensures C02.transfer_nomsg
    r is Ok ==> r->Ok_0.messages@.len() == 0
@closure 1 C02.transfer_debit
    (res: StdResult<Uint128>)
    ensures res is Ok ==> balance.unwrap_or(Uint128(0)).0 >= amount.0 && res->Ok_0.0 == balance.unwrap_or(Uint128(0)).0 - amount.0
@closure 2 C02.transfer_credit
    (res: StdResult<Uint128>)
    ensures res is Ok ==> balance.unwrap_or(Uint128(0)).0 + amount.0 <= u128::MAX && res->Ok_0.0 == balance.unwrap_or(Uint128(0)).0 + amount.0
@prefix
    broadcast use cw20_axioms;
    proof {
        lemma_debit(old(deps.storage).view(), info.sender@, amount@);
        lemma_credit(debit(old(deps.storage).view(), info.sender@, amount@), recipient@, amount@);
    }
@end
