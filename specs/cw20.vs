@unit cw20
@shim core.rs cw_utils.rs std_more.rs cw2.rs std_adapters.rs
@properties C01 C02 C13 C19 C20

// ===================================================================== extracted data types
@struct packages/cw20/src/coin.rs Cw20Coin
@struct packages/cw20/src/query.rs AllowanceResponse [default: AllowanceResponse { allowance: Uint128(0), expires: Expiration::Never {} }]
@struct packages/cw20/src/query.rs MinterResponse
@struct packages/cw20/src/query.rs BalanceResponse
@struct packages/cw20/src/query.rs TokenInfoResponse
@struct packages/cw20/src/receiver.rs Cw20ReceiveMsg
@enum packages/cw20/src/receiver.rs ReceiverExecuteMsg [pub]
@enum contracts/cw20-base/src/error.rs ContractError
@struct contracts/cw20-base/src/state.rs TokenInfo
@struct contracts/cw20-base/src/state.rs MinterData
@enum packages/cw20/src/logo.rs Logo
@enum packages/cw20/src/logo.rs EmbeddedLogo
@enum packages/cw20/src/logo.rs LogoInfo
@struct packages/cw20/src/query.rs MarketingInfoResponse [default: MarketingInfoResponse { project: None, description: None, logo: None, marketing: None }]
@struct contracts/cw20-base/src/msg.rs InstantiateMarketingInfo
@struct contracts/cw20-base/src/msg.rs InstantiateMsg
@enum packages/cw20/src/msg.rs Cw20ExecuteMsg
pub type ExecuteMsg = Cw20ExecuteMsg;
impl SerT for MarketingInfoResponse { uninterp spec fn ser(self) -> Seq<u8>; uninterp spec fn de(b: Seq<u8>) -> Option<Self>; }
impl SerT for Logo { uninterp spec fn ser(self) -> Seq<u8>; uninterp spec fn de(b: Seq<u8>) -> Option<Self>; }

impl SerT for TokenInfo { uninterp spec fn ser(self) -> Seq<u8>; uninterp spec fn de(b: Seq<u8>) -> Option<Self>; }
impl SerT for AllowanceResponse { uninterp spec fn ser(self) -> Seq<u8>; uninterp spec fn de(b: Seq<u8>) -> Option<Self>; }
impl JsonT for ReceiverExecuteMsg { uninterp spec fn json(self) -> Seq<u8>; uninterp spec fn unjson(b: Seq<u8>) -> Option<Self>; }

@const contracts/cw20-base/src/contract.rs CONTRACT_NAME
@const contracts/cw20-base/src/contract.rs CONTRACT_VERSION
@const contracts/cw20-base/src/state.rs TOKEN_INFO
@const contracts/cw20-base/src/state.rs MARKETING_INFO
@const contracts/cw20-base/src/state.rs LOGO
@const contracts/cw20-base/src/state.rs BALANCES
@const contracts/cw20-base/src/state.rs ALLOWANCES
@const contracts/cw20-base/src/state.rs ALLOWANCES_SPENDER

// ===================================================================== abstract view of the token state
pub open spec fn bkey(a: Seq<char>) -> Seq<u8> { path("balance"@, utf8(a)) }
pub open spec fn ti_key() -> Seq<u8> { item_key("token_info"@) }
pub open spec fn bal(s: Raw, a: Seq<char>) -> nat {
    if s.contains_key(bkey(a)) { match u128_de(s[bkey(a)]) { Some(x) => x as nat, None => 0 } } else { 0 }
}
pub open spec fn total_bal(s: Raw) -> nat { sum_w(s, w_u128("balance"@)) }
pub open spec fn tinfo(s: Raw) -> Option<TokenInfo> { raw_get::<TokenInfo>(s, ti_key()) }
pub open spec fn supply(s: Raw) -> nat { tinfo(s)->Some_0.total_supply@ }

/// C01 invariant: the token info exists and its total supply is the sum of all balances
pub open spec fn inv_supply(s: Raw) -> bool {
    tinfo(s) is Some && total_bal(s) == supply(s)
}
/// C13 invariant: the supply never exceeds the cap while a cap exists
pub open spec fn cap_of(t: TokenInfo) -> Option<Uint128> {
    match t.mint { Some(m) => m.cap, None => None }
}
pub open spec fn inv_cap(s: Raw) -> bool {
    tinfo(s) is Some ==> (cap_of(tinfo(s)->Some_0) is Some ==> supply(s) <= cap_of(tinfo(s)->Some_0)->Some_0@)
}
pub open spec fn inv(s: Raw) -> bool { inv_supply(s) && inv_cap(s) && inv_mirror(s) }

pub open spec fn debit(s: Raw, a: Seq<char>, amt: nat) -> Raw {
    s.insert(bkey(a), u128_ser((bal(s, a) - amt) as u128))
}
pub open spec fn credit(s: Raw, a: Seq<char>, amt: nat) -> Raw {
    s.insert(bkey(a), u128_ser((bal(s, a) + amt) as u128))
}
pub open spec fn set_supply(s: Raw, v: nat) -> Raw {
    s.insert(ti_key(), (TokenInfo { total_supply: Uint128(v as u128), ..tinfo(s)->Some_0 }).ser())
}

/// whole-state step relations, written from the property statements (C01, C02, C13)
pub open spec fn step_transfer(s: Raw, t: Raw, from: Seq<char>, to: Seq<char>, amt: nat) -> bool {
    bal(s, from) >= amt && bal(debit(s, from, amt), to) + amt <= u128::MAX && t == credit(debit(s, from, amt), to, amt)
}
pub open spec fn step_burn(s: Raw, t: Raw, from: Seq<char>, amt: nat) -> bool {
    bal(s, from) >= amt && tinfo(s) is Some && supply(s) >= amt
    && t == set_supply(debit(s, from, amt), (supply(s) - amt) as nat)
}
pub open spec fn step_mint(s: Raw, t: Raw, sender: Seq<char>, to: Seq<char>, amt: nat) -> bool {
    tinfo(s) is Some && tinfo(s)->Some_0.mint is Some && tinfo(s)->Some_0.mint->Some_0.minter@ == sender
    && (cap_of(tinfo(s)->Some_0) is Some ==> supply(s) + amt <= cap_of(tinfo(s)->Some_0)->Some_0@)
    && supply(s) + amt <= u128::MAX && bal(s, to) + amt <= u128::MAX
    && t == credit(set_supply(s, supply(s) + amt), to, amt)
}

// --------------------------------------------------------------------- allowances (C02, C19)
pub open spec fn akey(o: Seq<char>, sp: Seq<char>) -> Seq<u8> { path("allowance"@, pair_kb(utf8(o), utf8(sp))) }
pub open spec fn skey(sp: Seq<char>, o: Seq<char>) -> Seq<u8> { path("allowance_spender"@, pair_kb(utf8(sp), utf8(o))) }
pub open spec fn allow(s: Raw, o: Seq<char>, sp: Seq<char>) -> Option<AllowanceResponse> { raw_get::<AllowanceResponse>(s, akey(o, sp)) }
pub open spec fn allow_s(s: Raw, sp: Seq<char>, o: Seq<char>) -> Option<AllowanceResponse> { raw_get::<AllowanceResponse>(s, skey(sp, o)) }
pub open spec fn raw_opt(s: Raw, k: Seq<u8>) -> Option<Seq<u8>> { if s.contains_key(k) { Some(s[k]) } else { None } }
/// C19 invariant: the owner-indexed and the spender-indexed allowance tables hold the same (decoded) entry for every pair
pub open spec fn inv_mirror(s: Raw) -> bool {
    forall|o: Seq<char>, sp: Seq<char>| #![trigger akey(o, sp)] #![trigger skey(sp, o)] allow(s, o, sp) == allow_s(s, sp, o)
}
pub open spec fn set_allow(s: Raw, o: Seq<char>, sp: Seq<char>, a: AllowanceResponse) -> Raw {
    s.insert(akey(o, sp), a.ser()).insert(skey(sp, o), a.ser())
}
pub open spec fn del_allow(s: Raw, o: Seq<char>, sp: Seq<char>) -> Raw {
    s.remove(akey(o, sp)).remove(skey(sp, o))
}
pub open spec fn allow_or_default(s: Raw, o: Seq<char>, sp: Seq<char>) -> AllowanceResponse {
    match allow(s, o, sp) { Some(a) => a, None => AllowanceResponse { allowance: Uint128(0), expires: Expiration::Never {} } }
}
pub open spec fn step_increase(s: Raw, t: Raw, owner: Seq<char>, sp: Seq<char>, amt: nat, expires: Option<Expiration>, b: &BlockInfo) -> bool {
    owner != sp
    && (expires is Some ==> !expires->Some_0.expired(b))
    && allow_or_default(s, owner, sp).allowance@ + amt <= u128::MAX
    && t == set_allow(s, owner, sp, AllowanceResponse {
        allowance: Uint128((allow_or_default(s, owner, sp).allowance@ + amt) as u128),
        expires: match expires { Some(e) => e, None => allow_or_default(s, owner, sp).expires } })
}
pub open spec fn step_decrease(s: Raw, t: Raw, owner: Seq<char>, sp: Seq<char>, amt: nat, expires: Option<Expiration>, b: &BlockInfo) -> bool {
    owner != sp && allow(s, owner, sp) is Some
    && (if amt < allow(s, owner, sp)->Some_0.allowance@ {
        (expires is Some ==> !expires->Some_0.expired(b))
        && t == set_allow(s, owner, sp, AllowanceResponse {
            allowance: Uint128((allow(s, owner, sp)->Some_0.allowance@ - amt) as u128),
            expires: match expires { Some(e) => e, None => allow(s, owner, sp)->Some_0.expires } })
    } else {
        t == del_allow(s, owner, sp)
    })
}
/// a draw of `amt` by `sp` on `owner`'s allowance
pub open spec fn step_deduct(s: Raw, t: Raw, owner: Seq<char>, sp: Seq<char>, amt: nat, b: &BlockInfo) -> bool {
    allow(s, owner, sp) is Some
    && !allow(s, owner, sp)->Some_0.expires.expired(b)
    && allow(s, owner, sp)->Some_0.allowance@ >= amt
    && t == set_allow(s, owner, sp, AllowanceResponse {
        allowance: Uint128((allow(s, owner, sp)->Some_0.allowance@ - amt) as u128),
        expires: allow(s, owner, sp)->Some_0.expires })
}


pub broadcast group cw20_axioms { ax_path, ax_utf8, ax_u128_ser, ax_ser, ax_pair_kb, lemma_sum_insert, lemma_sum_remove_b, addr_ext }

pub proof fn lemma_ns()
    ensures "balance"@ != "token_info"@, "balance"@ != "allowance"@, "balance"@ != "allowance_spender"@,
        "token_info"@ != "allowance"@, "token_info"@ != "allowance_spender"@, "allowance"@ != "allowance_spender"@,
        "marketing_info"@ != "balance"@, "marketing_info"@ != "token_info"@, "marketing_info"@ != "allowance"@, "marketing_info"@ != "allowance_spender"@,
        "logo"@ != "balance"@, "logo"@ != "token_info"@, "logo"@ != "allowance"@, "logo"@ != "allowance_spender"@, "logo"@ != "marketing_info"@,
        "contract_info"@ != "balance"@, "contract_info"@ != "token_info"@, "contract_info"@ != "allowance"@, "contract_info"@ != "allowance_spender"@,
{
    reveal_strlit("balance"); reveal_strlit("token_info"); reveal_strlit("allowance"); reveal_strlit("allowance_spender");
    reveal_strlit("marketing_info"); reveal_strlit("logo"); reveal_strlit("contract_info");
    assert("balance"@.len() == 7); assert("token_info"@.len() == 10); assert("allowance"@.len() == 9);
    assert("allowance_spender"@.len() == 17); assert("marketing_info"@.len() == 14); assert("logo"@.len() == 4);
    assert("contract_info"@.len() == 13);
}
/// writes outside the two allowance namespaces preserve the mirror invariant
pub proof fn lemma_mirror_frame(s: Raw, k: Seq<u8>, v: Seq<u8>)
    requires inv_mirror(s), unpath(k).0 != "allowance"@, unpath(k).0 != "allowance_spender"@
    ensures inv_mirror(s.insert(k, v)), inv_mirror(s.remove(k))
{
    broadcast use cw20_axioms;
    assert forall|o: Seq<char>, sp: Seq<char>| allow(s.insert(k, v), o, sp) == allow_s(s.insert(k, v), sp, o)
        && allow(s.remove(k), o, sp) == allow_s(s.remove(k), sp, o) by {
        assert(allow(s, o, sp) == allow_s(s, sp, o));
        assert(unpath(akey(o, sp)).0 == "allowance"@ && unpath(skey(sp, o)).0 == "allowance_spender"@);
    }
}
pub proof fn lemma_debit(s: Raw, a: Seq<char>, amt: nat)
    ensures bal(s, a) >= amt ==> total_bal(debit(s, a, amt)) == total_bal(s) - amt,
        bal(s, a) >= amt ==> bal(debit(s, a, amt), a) == bal(s, a) - amt,
        forall|x: Seq<char>| x != a ==> bal(debit(s, a, amt), x) == bal(s, x),
        tinfo(debit(s, a, amt)) == tinfo(s),
        inv_mirror(s) ==> inv_mirror(debit(s, a, amt)),
{
    broadcast use cw20_axioms;
    if inv_mirror(s) { lemma_ns(); lemma_mirror_frame(s, bkey(a), u128_ser((bal(s, a) - amt) as u128)); }
    lemma_sum_ge_one_opt(s, a);
    assert forall|x: Seq<char>| x != a implies bal(debit(s, a, amt), x) == bal(s, x) by {
        assert(unpath(bkey(x)) != unpath(bkey(a)));
    }
    lemma_ns();
    assert(unpath(ti_key()) != unpath(bkey(a)));
}
pub proof fn lemma_sum_ge_one_opt(s: Raw, a: Seq<char>)
    ensures bal(s, a) <= total_bal(s)
{
    broadcast use cw20_axioms;
    if s.contains_key(bkey(a)) { lemma_sum_ge_one(s, w_u128("balance"@), bkey(a)); }
}
pub proof fn lemma_credit(s: Raw, a: Seq<char>, amt: nat)
    ensures bal(s, a) + amt <= u128::MAX ==> total_bal(credit(s, a, amt)) == total_bal(s) + amt,
        bal(s, a) + amt <= u128::MAX ==> bal(credit(s, a, amt), a) == bal(s, a) + amt,
        forall|x: Seq<char>| x != a ==> bal(credit(s, a, amt), x) == bal(s, x),
        tinfo(credit(s, a, amt)) == tinfo(s),
        inv_mirror(s) ==> inv_mirror(credit(s, a, amt)),
{
    broadcast use cw20_axioms;
    if inv_mirror(s) { lemma_ns(); lemma_mirror_frame(s, bkey(a), u128_ser((bal(s, a) + amt) as u128)); }
    assert forall|x: Seq<char>| x != a implies bal(credit(s, a, amt), x) == bal(s, x) by {
        assert(unpath(bkey(x)) != unpath(bkey(a)));
    }
    lemma_ns();
    assert(unpath(ti_key()) != unpath(bkey(a)));
}
pub proof fn lemma_set_supply(s: Raw, v: nat)
    ensures total_bal(set_supply(s, v)) == total_bal(s),
        forall|x: Seq<char>| bal(set_supply(s, v), x) == bal(s, x),
        v <= u128::MAX ==> tinfo(set_supply(s, v)) == Some(TokenInfo { total_supply: Uint128(v as u128), ..tinfo(s)->Some_0 }),
        inv_mirror(s) ==> inv_mirror(set_supply(s, v)),
{
    broadcast use cw20_axioms;
    if inv_mirror(s) { lemma_ns(); lemma_mirror_frame(s, ti_key(), (TokenInfo { total_supply: Uint128(v as u128), ..tinfo(s)->Some_0 }).ser()); }
    lemma_ns();
    assert forall|x: Seq<char>| bal(set_supply(s, v), x) == bal(s, x) by {
        assert(unpath(ti_key()) != unpath(bkey(x)));
    }
    assert(unpath(ti_key()).0 != "balance"@);
}

/// writes outside the "balance" namespace leave every balance and their sum unchanged
pub proof fn lemma_other_ns(s: Raw, k: Seq<u8>, v: Seq<u8>)
    requires unpath(k).0 != "balance"@
    ensures total_bal(s.insert(k, v)) == total_bal(s), total_bal(s.remove(k)) == total_bal(s),
        forall|x: Seq<char>| bal(s.insert(k, v), x) == bal(s, x),
        forall|x: Seq<char>| bal(s.remove(k), x) == bal(s, x),
{
    broadcast use cw20_axioms;
    assert forall|x: Seq<char>| bal(s.insert(k, v), x) == bal(s, x) && bal(s.remove(k), x) == bal(s, x) by {
        assert(unpath(bkey(x)).0 == "balance"@);
    }
}

// ===================================================================== functions under contract
@method contracts/cw20-base/src/state.rs TokenInfo get_cap
@ensures C13.get_cap
    r == cap_of(*self)
@closure 1 C13.get_cap_closure
    (res: Option<Uint128>)
    ensures res == v.cap
@end

@fn contracts/cw20-base/src/contract.rs execute_transfer [closures: 2]
@requires
    inv(old(deps.storage).view())
@ensures C02.transfer_exact C01
    r is Ok ==> step_transfer(old(deps.storage).view(), final(deps.storage).view(), info.sender@, recipient@, amount@)
@ensures C01.transfer_inv C13 C19 C20
    r is Ok ==> inv(final(deps.storage).view())
@ensures C02.transfer_nomsg
    r is Ok ==> r->Ok_0.messages@.len() == 0
@closure 1 C02.transfer_debit
    (res: StdResult<Uint128>)
    ensures res is Ok ==> balance.unwrap_or(Uint128(0)).0 >= amount.0 && res->Ok_0.0 == balance.unwrap_or(Uint128(0)).0 - amount.0
@closure 2 C02.transfer_credit
    (res: StdResult<Uint128>)
    ensures res is Ok ==> balance.unwrap_or(Uint128(0)).0 + amount.0 <= u128::MAX && res->Ok_0.0 == balance.unwrap_or(Uint128(0)).0 + amount.0
@prefix
    broadcast use cw20_axioms;
    proof {
        lemma_debit(old(deps.storage).view(), info.sender@, amount@);
        lemma_credit(debit(old(deps.storage).view(), info.sender@, amount@), recipient@, amount@);
    }
@end

@fn contracts/cw20-base/src/contract.rs execute_burn [closures: 2]
@requires
    inv(old(deps.storage).view())
@ensures C01.burn_exact C02
    r is Ok ==> step_burn(old(deps.storage).view(), final(deps.storage).view(), info.sender@, amount@)
@ensures C01.burn_inv C13 C19 C20
    r is Ok ==> inv(final(deps.storage).view())
@ensures C02.burn_nomsg
    r is Ok ==> r->Ok_0.messages@.len() == 0
@closure 1 C02.burn_debit
    (res: StdResult<Uint128>)
    ensures res is Ok ==> balance.unwrap_or(Uint128(0)).0 >= amount.0 && res->Ok_0.0 == balance.unwrap_or(Uint128(0)).0 - amount.0
@closure 2 C01.burn_supply
    (res: StdResult<TokenInfo>)
    ensures res is Ok ==> info.total_supply.0 >= amount.0 && res->Ok_0 == (TokenInfo { total_supply: Uint128((info.total_supply.0 - amount.0) as u128), ..info })
@prefix
    broadcast use cw20_axioms;
    proof {
        lemma_debit(old(deps.storage).view(), info.sender@, amount@);
        lemma_set_supply(debit(old(deps.storage).view(), info.sender@, amount@), (supply(old(deps.storage).view()) - amount@) as nat);
    }
@end

@fn contracts/cw20-base/src/contract.rs execute_mint [closures: 1]
@requires
    inv(old(deps.storage).view())
@ensures C01.mint_exact C13
    r is Ok ==> step_mint(old(deps.storage).view(), final(deps.storage).view(), info.sender@, recipient@, amount@)
@ensures C01.mint_inv C13 C19 C20
    r is Ok ==> inv(final(deps.storage).view())
@ensures C02.mint_nomsg
    r is Ok ==> r->Ok_0.messages@.len() == 0
@ensures C13.mint_up_to_the_cap_goes_through
    tinfo(old(deps.storage).view()) is Some && tinfo(old(deps.storage).view())->Some_0.mint is Some
        && tinfo(old(deps.storage).view())->Some_0.mint->Some_0.minter@ == info.sender@
        && (tinfo(old(deps.storage).view())->Some_0.mint->Some_0.cap is Some ==> supply(old(deps.storage).view()) + amount@ <= tinfo(old(deps.storage).view())->Some_0.mint->Some_0.cap->Some_0@)
        && addr_ok(recipient@)
        && (!old(deps.storage).view().contains_key(bkey(recipient@)) || raw_get::<Uint128>(old(deps.storage).view(), bkey(recipient@)) is Some)
        ==> r is Ok
@closure 1 C01.mint_credit
    (res: StdResult<Uint128>)
    ensures res is Ok, res is Ok ==> balance.unwrap_or(Uint128(0)).0 + amount.0 <= u128::MAX && res->Ok_0.0 == balance.unwrap_or(Uint128(0)).0 + amount.0
@prefix
    broadcast use cw20_axioms;
    proof {
        lemma_set_supply(old(deps.storage).view(), supply(old(deps.storage).view()) + amount@);
        lemma_credit(set_supply(old(deps.storage).view(), supply(old(deps.storage).view()) + amount@), recipient@, amount@);
        lemma_ns();
        assert(bkey(recipient@) != ti_key()) by { assert(unpath(bkey(recipient@)) != unpath(ti_key())); }
    }
@end

// --------------------------------------------------------------------- receiver notification (C02)
/// "this message is exactly one cw20 Receive notification"
pub open spec fn is_receive_msg(m: SubMsg<Empty>, contract: Seq<char>, sender: Seq<char>, amount: Uint128, payload: Binary) -> bool {
    m.id == 0 && m.gas_limit is None && m.reply_on is Never
    && m.msg is Wasm && m.msg->Wasm_0 is Execute
    && m.msg->Wasm_0->Execute_contract_addr@ == contract
    && m.msg->Wasm_0->Execute_funds@.len() == 0
    && exists|r: Cw20ReceiveMsg| #![auto] m.msg->Wasm_0->Execute_msg@ == ReceiverExecuteMsg::Receive(r).json()
        && r.sender@ == sender && r.amount == amount && r.msg == payload
}

@method packages/cw20/src/receiver.rs Cw20ReceiveMsg into_json_binary
@ensures C02.receive_payload
    r is Ok && r->Ok_0@ == ReceiverExecuteMsg::Receive(self).json()
@end

@method packages/cw20/src/receiver.rs Cw20ReceiveMsg into_cosmos_msg
@requires
    <T as IntoSpec<String>>::obeys_into_spec()
@ensures C02.receive_wasm
    r is Ok && is_receive_msg(SubMsg::<Empty>::new_spec(r->Ok_0), into_string_spec(contract_addr)@, self.sender@, self.amount, self.msg)
@end

@fn contracts/cw20-base/src/contract.rs execute_send [closures: 2]
@requires
    inv(old(deps.storage).view())
@ensures C02.send_exact C01
    r is Ok ==> step_transfer(old(deps.storage).view(), final(deps.storage).view(), info.sender@, contract@, amount@)
@ensures C01.send_inv C13 C19 C20
    r is Ok ==> inv(final(deps.storage).view())
@ensures C02.send_notifies_once
    r is Ok ==> r->Ok_0.messages@.len() == 1 && is_receive_msg(r->Ok_0.messages@[0], contract@, info.sender@, amount, msg)
@closure 1 C02.send_debit
    (res: StdResult<Uint128>)
    ensures res is Ok ==> balance.unwrap_or(Uint128(0)).0 >= amount.0 && res->Ok_0.0 == balance.unwrap_or(Uint128(0)).0 - amount.0
@closure 2 C02.send_credit
    (res: StdResult<Uint128>)
    ensures res is Ok ==> balance.unwrap_or(Uint128(0)).0 + amount.0 <= u128::MAX && res->Ok_0.0 == balance.unwrap_or(Uint128(0)).0 + amount.0
@prefix
    broadcast use cw20_axioms, string_conv, msg_conv;
    proof {
        lemma_debit(old(deps.storage).view(), info.sender@, amount@);
        lemma_credit(debit(old(deps.storage).view(), info.sender@, amount@), contract@, amount@);
    }
@end

// --------------------------------------------------------------------- minter role (C13)
pub open spec fn step_update_minter(s: Raw, t: Raw, sender: Seq<char>, new_minter: Option<String>) -> bool {
    tinfo(s) is Some && tinfo(s)->Some_0.mint is Some && tinfo(s)->Some_0.mint->Some_0.minter@ == sender
    && tinfo(t) is Some
    && t == s.insert(ti_key(), tinfo(t)->Some_0.ser())
    && tinfo(t)->Some_0.total_supply == tinfo(s)->Some_0.total_supply
    && tinfo(t)->Some_0.name == tinfo(s)->Some_0.name && tinfo(t)->Some_0.symbol == tinfo(s)->Some_0.symbol
    && tinfo(t)->Some_0.decimals == tinfo(s)->Some_0.decimals
    && match new_minter {
        None => tinfo(t)->Some_0.mint is None,
        Some(m) => tinfo(t)->Some_0.mint is Some && tinfo(t)->Some_0.mint->Some_0.minter@ == m@
                   && tinfo(t)->Some_0.mint->Some_0.cap == tinfo(s)->Some_0.mint->Some_0.cap,
    }
}

@fn contracts/cw20-base/src/contract.rs execute_update_minter
@requires
    inv(old(deps.storage).view())
@ensures C13.update_minter_exact
    r is Ok ==> step_update_minter(old(deps.storage).view(), final(deps.storage).view(), info.sender@, new_minter)
@ensures C13.update_minter_inv C01 C19 C20
    r is Ok ==> inv(final(deps.storage).view())
@ensures C02.update_minter_nomsg
    r is Ok ==> r->Ok_0.messages@.len() == 0
@closure 1 C13.update_minter_validate
    (res: StdResult<Addr>)
    ensures res is Ok ==> res->Ok_0@ == new_minter@
@closure 2 C13.update_minter_keeps_cap
    (res: MinterData)
    ensures res == (MinterData { minter, cap: tinfo(s0)->Some_0.mint->Some_0.cap })
@prefix
    broadcast use cw20_axioms, string_conv;
    proof { lemma_ns(); }
    let ghost s0 = deps.storage.view();
@insert_before "TOKEN_INFO.save(" 1
    proof { lemma_other_ns(deps.storage.view(), ti_key(), config.ser()); lemma_mirror_frame(deps.storage.view(), ti_key(), config.ser()); }
@end

pub open spec fn after_deduct(s: Raw, owner: Seq<char>, sp: Seq<char>, amt: nat) -> Raw {
    set_allow(s, owner, sp, AllowanceResponse {
        allowance: Uint128((allow(s, owner, sp)->Some_0.allowance@ - amt) as u128),
        expires: allow(s, owner, sp)->Some_0.expires })
}
pub proof fn lemma_set_allow(s: Raw, o: Seq<char>, sp: Seq<char>, a: AllowanceResponse)
    requires inv_mirror(s)
    ensures inv_mirror(set_allow(s, o, sp, a)), inv_mirror(del_allow(s, o, sp)),
        total_bal(set_allow(s, o, sp, a)) == total_bal(s), total_bal(del_allow(s, o, sp)) == total_bal(s),
        forall|x: Seq<char>| bal(set_allow(s, o, sp, a), x) == bal(s, x) && bal(del_allow(s, o, sp), x) == bal(s, x),
        tinfo(set_allow(s, o, sp, a)) == tinfo(s), tinfo(del_allow(s, o, sp)) == tinfo(s),
        allow(set_allow(s, o, sp, a), o, sp) == Some(a), allow_s(set_allow(s, o, sp, a), sp, o) == Some(a),
        allow(del_allow(s, o, sp), o, sp) is None, allow_s(del_allow(s, o, sp), sp, o) is None,
{
    broadcast use cw20_axioms;
    lemma_ns();
    let t = set_allow(s, o, sp, a);
    let d = del_allow(s, o, sp);
    lemma_other_ns(s, akey(o, sp), a.ser());
    lemma_other_ns(s.insert(akey(o, sp), a.ser()), skey(sp, o), a.ser());
    lemma_other_ns(s, akey(o, sp), a.ser());
    lemma_other_ns(s.remove(akey(o, sp)), skey(sp, o), a.ser());
    assert forall|o2: Seq<char>, sp2: Seq<char>| allow(t, o2, sp2) == allow_s(t, sp2, o2) && allow(d, o2, sp2) == allow_s(d, sp2, o2) by {
        assert(allow(s, o2, sp2) == allow_s(s, sp2, o2));
        assert(unpath(akey(o2, sp2)) != unpath(skey(sp, o)));
        assert(unpath(skey(sp2, o2)) != unpath(akey(o, sp)));
        if o2 == o && sp2 == sp { } else {
            assert(unpair_kb(pair_kb(utf8(o2), utf8(sp2))) != unpair_kb(pair_kb(utf8(o), utf8(sp)))) by {
                assert(unutf8(utf8(o2)) == o2 && unutf8(utf8(o)) == o && unutf8(utf8(sp2)) == sp2 && unutf8(utf8(sp)) == sp);
            }
            assert(unpair_kb(pair_kb(utf8(sp2), utf8(o2))) != unpair_kb(pair_kb(utf8(sp), utf8(o)))) by {
                assert(unutf8(utf8(o2)) == o2 && unutf8(utf8(o)) == o && unutf8(utf8(sp2)) == sp2 && unutf8(utf8(sp)) == sp);
            }
            assert(unpath(akey(o2, sp2)) != unpath(akey(o, sp)));
            assert(unpath(skey(sp2, o2)) != unpath(skey(sp, o)));
        }
    }
    assert(unpath(ti_key()) != unpath(akey(o, sp)) && unpath(ti_key()) != unpath(skey(sp, o)));
    assert(unpath(akey(o, sp)) != unpath(skey(sp, o)));
}

@fn contracts/cw20-base/src/allowances.rs deduct_allowance [closures: 1]
@requires
    inv_mirror(old(storage).view())
@ensures C02.deduct_exact C19 C20
    r is Ok ==> step_deduct(old(storage).view(), final(storage).view(), owner@, spender@, amount@, block)
@ensures C19.deduct_mirror C20
    r is Ok ==> inv_mirror(final(storage).view())
@closure 1 C02.deduct_closure
    (res: Result<AllowanceResponse, ContractError>)
    ensures res is Ok ==> current is Some && !current->Some_0.expires.expired(block) && current->Some_0.allowance.0 >= amount.0
        && res->Ok_0 == (AllowanceResponse { allowance: Uint128((current->Some_0.allowance.0 - amount.0) as u128), expires: current->Some_0.expires })
@prefix
    broadcast use cw20_axioms;
    proof {
        if allow(old(storage).view(), owner@, spender@) is Some {
            lemma_set_allow(old(storage).view(), owner@, spender@, allow(old(storage).view(), owner@, spender@)->Some_0);
        }
        lemma_ns();
        assert(allow(old(storage).view(), owner@, spender@) == allow_s(old(storage).view(), spender@, owner@));
        assert(unpath(akey(owner@, spender@)) != unpath(skey(spender@, owner@)));
    }
@end

@fn contracts/cw20-base/src/allowances.rs execute_increase_allowance [closures: 1]
@requires
    inv(old(deps.storage).view())
@ensures C02.increase_exact C19 C20
    r is Ok ==> step_increase(old(deps.storage).view(), final(deps.storage).view(), info.sender@, spender@, amount@, expires, &env.block)
@ensures C19.increase_inv C01 C13 C20 C19
    r is Ok ==> inv(final(deps.storage).view())
@ensures C02.increase_nomsg
    r is Ok ==> r->Ok_0.messages@.len() == 0
@closure 1 C02.increase_closure
    (res: Result<AllowanceResponse, ContractError>)
    ensures res is Ok ==> (expires is Some ==> !expires->Some_0.expired(&env.block))
        && allow.unwrap_or(AllowanceResponse { allowance: Uint128(0), expires: Expiration::Never {} }).allowance.0 + amount.0 <= u128::MAX
        && res->Ok_0 == (AllowanceResponse {
            allowance: Uint128((allow.unwrap_or(AllowanceResponse { allowance: Uint128(0), expires: Expiration::Never {} }).allowance.0 + amount.0) as u128),
            expires: match expires { Some(e) => e, None => allow.unwrap_or(AllowanceResponse { allowance: Uint128(0), expires: Expiration::Never {} }).expires } })
@prefix
    broadcast use cw20_axioms;
    proof {
        lemma_set_allow(old(deps.storage).view(), info.sender@, spender@, AllowanceResponse {
            allowance: Uint128((allow_or_default(old(deps.storage).view(), info.sender@, spender@).allowance@ + amount@) as u128),
            expires: match expires { Some(e) => e, None => allow_or_default(old(deps.storage).view(), info.sender@, spender@).expires } });
        lemma_ns();
        assert(allow(old(deps.storage).view(), info.sender@, spender@) == allow_s(old(deps.storage).view(), spender@, info.sender@));
        assert(unpath(akey(info.sender@, spender@)) != unpath(skey(spender@, info.sender@)));
    }
@end

@fn contracts/cw20-base/src/allowances.rs execute_decrease_allowance
@requires
    inv(old(deps.storage).view())
@ensures C02.decrease_exact C19 C20
    r is Ok ==> step_decrease(old(deps.storage).view(), final(deps.storage).view(), info.sender@, spender@, amount@, expires, &env.block)
@ensures C19.decrease_inv C01 C13 C20 C19
    r is Ok ==> inv(final(deps.storage).view())
@ensures C02.decrease_nomsg
    r is Ok ==> r->Ok_0.messages@.len() == 0
@nested reverse C19.decrease_reverse
    (r)
    ensures r.0 == t.1, r.1 == t.0
@prefix
    broadcast use cw20_axioms;
    proof {
        if allow(old(deps.storage).view(), info.sender@, spender@) is Some {
            lemma_set_allow(old(deps.storage).view(), info.sender@, spender@, AllowanceResponse {
                allowance: Uint128((allow(old(deps.storage).view(), info.sender@, spender@)->Some_0.allowance@ - amount@) as u128),
                expires: match expires { Some(e) => e, None => allow(old(deps.storage).view(), info.sender@, spender@)->Some_0.expires } });
        }
    }
@end

@fn contracts/cw20-base/src/allowances.rs execute_transfer_from [closures: 2]
@requires
    inv(old(deps.storage).view())
@ensures C02.transfer_from_exact C01 C19 C20
    r is Ok ==> step_deduct(old(deps.storage).view(), after_deduct(old(deps.storage).view(), owner@, info.sender@, amount@), owner@, info.sender@, amount@, &env.block)
        && step_transfer(after_deduct(old(deps.storage).view(), owner@, info.sender@, amount@), final(deps.storage).view(), owner@, recipient@, amount@)
@ensures C01.transfer_from_inv C13 C19 C20
    r is Ok ==> inv(final(deps.storage).view())
@ensures C02.transfer_from_nomsg
    r is Ok ==> r->Ok_0.messages@.len() == 0
@closure 1 C02.transfer_from_debit
    (res: StdResult<Uint128>)
    ensures res is Ok ==> balance.unwrap_or(Uint128(0)).0 >= amount.0 && res->Ok_0.0 == balance.unwrap_or(Uint128(0)).0 - amount.0
@closure 2 C02.transfer_from_credit
    (res: StdResult<Uint128>)
    ensures res is Ok ==> balance.unwrap_or(Uint128(0)).0 + amount.0 <= u128::MAX && res->Ok_0.0 == balance.unwrap_or(Uint128(0)).0 + amount.0
@prefix
    broadcast use cw20_axioms;
@insert_before "BALANCES.update(" 1
    proof {
        let m = deps.storage.view();
        lemma_set_allow(old(deps.storage).view(), owner@, info.sender@, allow(m, owner@, info.sender@)->Some_0);
        lemma_debit(m, owner@, amount@);
        lemma_credit(debit(m, owner@, amount@), recipient@, amount@);
    }
@end

@fn contracts/cw20-base/src/allowances.rs execute_burn_from [closures: 2]
@requires
    inv(old(deps.storage).view())
@ensures C02.burn_from_exact C01 C19 C20
    r is Ok ==> step_deduct(old(deps.storage).view(), after_deduct(old(deps.storage).view(), owner@, info.sender@, amount@), owner@, info.sender@, amount@, &env.block)
        && step_burn(after_deduct(old(deps.storage).view(), owner@, info.sender@, amount@), final(deps.storage).view(), owner@, amount@)
@ensures C01.burn_from_inv C13 C19 C20
    r is Ok ==> inv(final(deps.storage).view())
@ensures C02.burn_from_nomsg
    r is Ok ==> r->Ok_0.messages@.len() == 0
@closure 1 C02.burn_from_debit
    (res: StdResult<Uint128>)
    ensures res is Ok ==> balance.unwrap_or(Uint128(0)).0 >= amount.0 && res->Ok_0.0 == balance.unwrap_or(Uint128(0)).0 - amount.0
@closure 2 C01.burn_from_supply
    (res: StdResult<TokenInfo>)
    ensures res is Ok ==> meta.total_supply.0 >= amount.0 && res->Ok_0 == (TokenInfo { total_supply: Uint128((meta.total_supply.0 - amount.0) as u128), ..meta })
@prefix
    broadcast use cw20_axioms;
@insert_before "BALANCES.update(" 1
    proof {
        let m = deps.storage.view();
        lemma_set_allow(old(deps.storage).view(), owner@, info.sender@, allow(m, owner@, info.sender@)->Some_0);
        lemma_debit(m, owner@, amount@);
        lemma_set_supply(debit(m, owner@, amount@), (supply(m) - amount@) as nat);
    }
@end

@fn contracts/cw20-base/src/allowances.rs execute_send_from [closures: 2]
@requires
    inv(old(deps.storage).view())
@ensures C02.send_from_exact C01 C19 C20
    r is Ok ==> step_deduct(old(deps.storage).view(), after_deduct(old(deps.storage).view(), owner@, info.sender@, amount@), owner@, info.sender@, amount@, &env.block)
        && step_transfer(after_deduct(old(deps.storage).view(), owner@, info.sender@, amount@), final(deps.storage).view(), owner@, contract@, amount@)
@ensures C01.send_from_inv C13 C19 C20
    r is Ok ==> inv(final(deps.storage).view())
@ensures C02.send_from_notifies_once
    r is Ok ==> r->Ok_0.messages@.len() == 1 && is_receive_msg(r->Ok_0.messages@[0], contract@, info.sender@, amount, msg)
@closure 1 C02.send_from_debit
    (res: StdResult<Uint128>)
    ensures res is Ok ==> balance.unwrap_or(Uint128(0)).0 >= amount.0 && res->Ok_0.0 == balance.unwrap_or(Uint128(0)).0 - amount.0
@closure 2 C02.send_from_credit
    (res: StdResult<Uint128>)
    ensures res is Ok ==> balance.unwrap_or(Uint128(0)).0 + amount.0 <= u128::MAX && res->Ok_0.0 == balance.unwrap_or(Uint128(0)).0 + amount.0
@prefix
    broadcast use cw20_axioms, string_conv, msg_conv;
@insert_before "BALANCES.update(" 1
    proof {
        let m = deps.storage.view();
        lemma_set_allow(old(deps.storage).view(), owner@, info.sender@, allow(m, owner@, info.sender@)->Some_0);
        lemma_debit(m, owner@, amount@);
        lemma_credit(debit(m, owner@, amount@), contract@, amount@);
    }
@end

@fn contracts/cw20-base/src/allowances.rs query_allowance
@ensures C19.query_allowance C20
    r is Ok ==> r->Ok_0 == allow_or_default(deps.storage.view(), owner@, spender@)
@end

@fn contracts/cw20-base/src/contract.rs query_balance
@ensures C01.query_balance
    r is Ok ==> r->Ok_0.balance@ == bal(deps.storage.view(), address@)
@prefix
    broadcast use cw20_axioms;
@end

@fn contracts/cw20-base/src/contract.rs query_token_info
@ensures C01.query_token_info C13
    r is Ok ==> tinfo(deps.storage.view()) is Some && r->Ok_0.total_supply@ == supply(deps.storage.view())
@end

@fn contracts/cw20-base/src/contract.rs query_minter
@ensures C13.query_minter
    r is Ok ==> tinfo(deps.storage.view()) is Some
        && (r->Ok_0 is Some <==> tinfo(deps.storage.view())->Some_0.mint is Some)
        && (r->Ok_0 is Some ==> r->Ok_0->Some_0.minter@ == tinfo(deps.storage.view())->Some_0.mint->Some_0.minter@
                              && r->Ok_0->Some_0.cap == tinfo(deps.storage.view())->Some_0.mint->Some_0.cap)
@prefix
    broadcast use string_conv;
@end

// --------------------------------------------------------------------- instantiation (C01, C13)
pub open spec fn no_balances(s: Raw) -> bool { forall|k: Seq<u8>| s.contains_key(k) ==> unpath(k).0 != "balance"@ }
pub open spec fn same_outside_balances(s: Raw, t: Raw) -> bool {
    forall|k: Seq<u8>| unpath(k).0 != "balance"@ ==> raw_opt(s, k) == raw_opt(t, k)
}
pub open spec fn distinct_accounts(a: Seq<Cw20Coin>) -> bool {
    forall|i: int, j: int| 0 <= i < j < a.len() ==> a[i].address@ != a[j].address@
}

pub proof fn lemma_no_balances_zero(s: Raw)
    requires no_balances(s)
    ensures total_bal(s) == 0
{
    lemma_sum_zero(s, w_u128("balance"@));
}

// sort + dedup go through E11 to shim functions carrying the ASSUMED std semantics (permutation, sorted, runs collapsed);
// the body of validate_accounts itself is verified
@fn contracts/cw20-base/src/contract.rs validate_accounts [closures: 1]
@ensures C01.validate_accounts_distinct
    r is Ok ==> distinct_accounts(accounts@)
@adapter map_collect_vec 1
@closure_types 1
    c: &Cw20Coin
@closure 1 C01.validate_accounts_addr
    (res: &String)
    ensures *res == c.address
@replace E11 "addresses.sort()" 1
    vec_sort_strs(&mut addresses)
@replace E11 "addresses.dedup()" 1
    vec_dedup_strs(&mut addresses)
@insert_before "addresses.dedup()" 1
    let ghost sorted = addresses@;
@insert_before "if addresses.len()" 1
    proof {
        broadcast use ax_str_le_antisym, ax_str_le_trans;
        lemma_dedup_len(sorted);
        if addresses@.len() == accounts@.len() {
            // sorted without adjacent duplicates is pairwise distinct; the permutation carries that back to `accounts`
            assert forall|i: int, j: int| 0 <= i < j < sorted.len() implies (#[trigger] sorted[i])@ != (#[trigger] sorted[j])@ by {
                if sorted[i]@ == sorted[j]@ { assert(str_le(sorted[i]@, sorted[i + 1]@) && str_le(sorted[i + 1]@, sorted[j]@)); assert(sorted[i]@ != sorted[i + 1]@); }
            }
            assert(exists|p: Seq<int>| is_perm(p, accounts@.len() as int) && forall|i: int| 0 <= i < sorted.len() ==> *(#[trigger] sorted[i]) == accounts@[p[i]].address);
            let p = choose|p: Seq<int>| is_perm(p, accounts@.len() as int) && forall|i: int| 0 <= i < sorted.len() ==> *(#[trigger] sorted[i]) == accounts@[p[i]].address;
            assert forall|a: int, b: int| 0 <= a < b < accounts@.len() implies (#[trigger] accounts@[a]).address@ != (#[trigger] accounts@[b]).address@ by {
                assert(perm_hits(p, accounts@.len() as int, a) && perm_hits(p, accounts@.len() as int, b));
                let i = choose|i: int| 0 <= i < accounts@.len() && #[trigger] p[i] == a;
                let j = choose|j: int| 0 <= j < accounts@.len() && #[trigger] p[j] == b;
                assert(*sorted[i] == accounts@[a].address && *sorted[j] == accounts@[b].address);
                if i < j { assert(sorted[i]@ != sorted[j]@); } else { assert(i != j); assert(sorted[j]@ != sorted[i]@); }
            }
        }
    }
@end

@fn contracts/cw20-base/src/contract.rs create_accounts [loops: 1]
@requires
    no_balances(old(deps).storage.view())
@ensures C01.create_sum
    r is Ok ==> total_bal(final(deps).storage.view()) == r->Ok_0@
@ensures C01.create_balances
    r is Ok ==> forall|j: int| 0 <= j < accounts@.len() ==> bal(final(deps).storage.view(), (#[trigger] accounts@[j]).address@) == accounts@[j].amount@
@ensures C01.create_frame C13 C19 C20
    same_outside_balances(old(deps).storage.view(), final(deps).storage.view())
@ensures C01.create_deps_frame
    final(deps).api == old(deps).api, final(deps).querier == old(deps).querier,
    final(final(deps).storage).view() == final(old(deps).storage).view()
@loop 1 C01.create_loop
    invariant
        it.index@ <= accounts@.len(),
        distinct_accounts(accounts@),
        total_bal(deps.storage.view()) == total_supply@,
        forall|k: Seq<u8>| deps.storage.view().contains_key(k) && unpath(k).0 == "balance"@ ==> exists|j: int| 0 <= j < it.index@ && k == bkey(accounts@[j].address@),
        forall|j: int| 0 <= j < it.index@ ==> bal(deps.storage.view(), (#[trigger] accounts@[j]).address@) == accounts@[j].amount@,
        same_outside_balances(old(deps).storage.view(), deps.storage.view()),
        deps.api == old(deps).api, deps.querier == old(deps).querier,
@prefix
    broadcast use cw20_axioms;
    proof { lemma_no_balances_zero(old(deps).storage.view()); }
@insert_before "BALANCES.save(" 1
    let ghost pre = deps.storage.view();
    proof {
        broadcast use cw20_axioms;
        assert(!pre.contains_key(bkey(address@))) by {
            if pre.contains_key(bkey(address@)) {
                let j = choose|j: int| 0 <= j < it.index@ && bkey(address@) == bkey(accounts@[j].address@);
                assert(unpath(bkey(address@)) == unpath(bkey(accounts@[j].address@)));
                assert(unutf8(utf8(address@)) == unutf8(utf8(accounts@[j].address@)));
            }
        }
    }
@insert_before "total_supply += row.amount" 1
    proof {
        broadcast use cw20_axioms;
        let post = deps.storage.view();
        assert(post == pre.insert(bkey(address@), row.amount.ser()));
        assert forall|j: int| 0 <= j < it.index@ implies bal(post, (#[trigger] accounts@[j]).address@) == accounts@[j].amount@ by {
            assert(unutf8(utf8(address@)) != unutf8(utf8(accounts@[j].address@)));
            assert(unpath(bkey(accounts@[j].address@)) != unpath(bkey(address@)));
        }
        assert forall|k: Seq<u8>| unpath(k).0 != "balance"@ implies raw_opt(old(deps).storage.view(), k) == raw_opt(post, k) by {
            assert(raw_opt(old(deps).storage.view(), k) == raw_opt(pre, k));
        }
    }
@end

@method contracts/cw20-base/src/msg.rs InstantiateMsg get_cap
@ensures C13.msg_get_cap
    r == (match self.mint { Some(m) => m.cap, None => None })
@closure 1 C13.msg_get_cap_closure
    (res: Option<Uint128>)
    ensures res == v.cap
@end

// ASSUMED LEAF: name/symbol/decimals format check (byte loops over String::as_bytes); no property depends on its result
@method contracts/cw20-base/src/msg.rs InstantiateMsg validate [assume]
@end

// ASSUMED LEAF: logo format check; storage-free by signature, no property depends on its result
@fn contracts/cw20-base/src/contract.rs verify_logo [assume]
@end

pub open spec fn same_balances_and_allowances(s: Raw, t: Raw) -> bool {
    forall|k: Seq<u8>| unpath(k).0 == "balance"@ || unpath(k).0 == "allowance"@ || unpath(k).0 == "allowance_spender"@ ==> raw_opt(s, k) == raw_opt(t, k)
}

pub open spec fn no_allowances(s: Raw) -> bool {
    forall|k: Seq<u8>| s.contains_key(k) ==> unpath(k).0 != "allowance"@ && unpath(k).0 != "allowance_spender"@
}
pub proof fn lemma_no_allowances_mirror(s: Raw)
    requires no_allowances(s)
    ensures inv_mirror(s)
{
    broadcast use cw20_axioms;
    assert forall|o: Seq<char>, sp: Seq<char>| allow(s, o, sp) == allow_s(s, sp, o) by {
        assert(unpath(akey(o, sp)).0 == "allowance"@ && unpath(skey(sp, o)).0 == "allowance_spender"@);
    }
}
/// one write outside the balance / allowance namespaces keeps balances, their sum, the mirror invariant and other items
pub proof fn lemma_side_write(s: Raw, k: Seq<u8>, v: Seq<u8>)
    requires unpath(k).0 != "balance"@, unpath(k).0 != "allowance"@, unpath(k).0 != "allowance_spender"@
    ensures total_bal(s.insert(k, v)) == total_bal(s),
        forall|x: Seq<char>| bal(s.insert(k, v), x) == bal(s, x),
        inv_mirror(s) ==> inv_mirror(s.insert(k, v)),
        k != ti_key() ==> tinfo(s.insert(k, v)) == tinfo(s),
{
    lemma_other_ns(s, k, v);
    if inv_mirror(s) { lemma_mirror_frame(s, k, v); }
}

@fn contracts/cw20-base/src/contract.rs instantiate
@requires
    old(deps.storage).view() == SMap::<Seq<u8>, Seq<u8>>::empty()
@ensures C01.instantiate_inv C13 C19 C20
    r is Ok ==> inv(final(deps.storage).view())
@ensures C01.instantiate_balances
    r is Ok ==> forall|j: int| 0 <= j < msg.initial_balances@.len() ==> bal(final(deps.storage).view(), (#[trigger] msg.initial_balances@[j]).address@) == msg.initial_balances@[j].amount@
@ensures C13.instantiate_minter
    r is Ok ==> match msg.mint {
        Some(m) => tinfo(final(deps.storage).view())->Some_0.mint is Some
            && tinfo(final(deps.storage).view())->Some_0.mint->Some_0.minter@ == m.minter@
            && tinfo(final(deps.storage).view())->Some_0.mint->Some_0.cap == m.cap,
        None => tinfo(final(deps.storage).view())->Some_0.mint is None,
    }
@closure 1 C01.instantiate_marketing_addr
    (res: StdResult<Addr>)
    ensures res is Ok ==> res->Ok_0@ == addr@
@prefix
    broadcast use cw20_axioms;
    proof { lemma_ns(); }
@insert_before "~create_accounts(" 1
    let ghost s0 = deps.storage.view();
    proof {
        assert forall|k: Seq<u8>| s0.contains_key(k) implies unpath(k).0 == "contract_info"@ by { assert(k == cw2_key()); }
    }
@insert_before "if let Some(limit) = msg.get_cap()" 1
    let ghost s1 = deps.storage.view();
    proof {
        assert(no_allowances(s1)) by {
            assert forall|k: Seq<u8>| s1.contains_key(k) implies unpath(k).0 != "allowance"@ && unpath(k).0 != "allowance_spender"@ by {
                if unpath(k).0 != "balance"@ { assert(raw_opt(s0, k) == raw_opt(s1, k)); }
            }
        }
        lemma_no_allowances_mirror(s1);
        assert(!s1.contains_key(ti_key())) by { assert(raw_opt(s0, ti_key()) == raw_opt(s1, ti_key())); }
    }
@insert_before "TOKEN_INFO.save(" 1
    proof { lemma_side_write(deps.storage.view(), ti_key(), data.ser()); }
@insert_before "LOGO.save(" 1
    proof { lemma_side_write(deps.storage.view(), item_key("logo"@), logo.ser()); }
@insert_before "MARKETING_INFO.save(" 1
    proof { lemma_side_write(deps.storage.view(), item_key("marketing_info"@), data.ser()); }
@end

/// marketing / logo updates: every key outside those two items is untouched
pub open spec fn step_side(s: Raw, t: Raw) -> bool {
    forall|k: Seq<u8>| k != item_key("marketing_info"@) && k != item_key("logo"@) ==> raw_opt(s, k) == raw_opt(t, k)
}

@fn contracts/cw20-base/src/contract.rs execute_update_marketing
@requires
    inv(old(deps.storage).view())
@ensures C01.update_marketing_frame C02 C13 C19 C20
    r is Ok ==> step_side(old(deps.storage).view(), final(deps.storage).view())
@ensures C01.update_marketing_inv C13 C19 C20
    r is Ok ==> inv(final(deps.storage).view())
@ensures C02.update_marketing_nomsg
    r is Ok ==> r->Ok_0.messages@.len() == 0
@prefix
    broadcast use cw20_axioms;
    proof {
        lemma_ns();
        lemma_other_ns(old(deps.storage).view(), item_key("marketing_info"@), Seq::<u8>::empty());
        lemma_mirror_frame(old(deps.storage).view(), item_key("marketing_info"@), Seq::<u8>::empty());
    }
@insert_before "MARKETING_INFO.save(" 1
    proof { lemma_side_write(deps.storage.view(), item_key("marketing_info"@), marketing_info.ser()); }
@end

@fn contracts/cw20-base/src/contract.rs execute_upload_logo
@requires
    inv(old(deps.storage).view())
@ensures C01.upload_logo_frame C02 C13 C19 C20
    r is Ok ==> step_side(old(deps.storage).view(), final(deps.storage).view())
@ensures C01.upload_logo_inv C13 C19 C20
    r is Ok ==> inv(final(deps.storage).view())
@ensures C02.upload_logo_nomsg
    r is Ok ==> r->Ok_0.messages@.len() == 0
@prefix
    broadcast use cw20_axioms;
    proof { lemma_ns(); }
@insert_before "LOGO.save(" 1
    proof { lemma_side_write(deps.storage.view(), item_key("logo"@), logo.ser()); }
@insert_before "MARKETING_INFO.save(" 1
    proof { lemma_side_write(deps.storage.view(), item_key("marketing_info"@), marketing_info.ser()); }
@end

// ===================================================================== the dispatcher and the one-step relation
pub open spec fn step_from(s: Raw, owner: Seq<char>, sp: Seq<char>, amt: nat, b: &BlockInfo) -> bool {
    step_deduct(s, after_deduct(s, owner, sp, amt), owner, sp, amt, b)
}
/// what one successful `execute` call may do to the state (disjunction over the message kind)
pub open spec fn step_execute(s: Raw, t: Raw, sender: Seq<char>, b: &BlockInfo, msg: Cw20ExecuteMsg) -> bool {
    match msg {
        Cw20ExecuteMsg::Transfer { recipient, amount } => step_transfer(s, t, sender, recipient@, amount@),
        Cw20ExecuteMsg::Burn { amount } => step_burn(s, t, sender, amount@),
        Cw20ExecuteMsg::Send { contract, amount, msg } => step_transfer(s, t, sender, contract@, amount@),
        Cw20ExecuteMsg::Mint { recipient, amount } => step_mint(s, t, sender, recipient@, amount@),
        Cw20ExecuteMsg::IncreaseAllowance { spender, amount, expires } => step_increase(s, t, sender, spender@, amount@, expires, b),
        Cw20ExecuteMsg::DecreaseAllowance { spender, amount, expires } => step_decrease(s, t, sender, spender@, amount@, expires, b),
        Cw20ExecuteMsg::TransferFrom { owner, recipient, amount } =>
            step_from(s, owner@, sender, amount@, b) && step_transfer(after_deduct(s, owner@, sender, amount@), t, owner@, recipient@, amount@),
        Cw20ExecuteMsg::BurnFrom { owner, amount } =>
            step_from(s, owner@, sender, amount@, b) && step_burn(after_deduct(s, owner@, sender, amount@), t, owner@, amount@),
        Cw20ExecuteMsg::SendFrom { owner, contract, amount, msg } =>
            step_from(s, owner@, sender, amount@, b) && step_transfer(after_deduct(s, owner@, sender, amount@), t, owner@, contract@, amount@),
        Cw20ExecuteMsg::UpdateMarketing { project, description, marketing } => step_side(s, t),
        Cw20ExecuteMsg::UploadLogo(l) => step_side(s, t),
        Cw20ExecuteMsg::UpdateMinter { new_minter } => step_update_minter(s, t, sender, new_minter),
    }
}
/// notifications emitted by one successful call: exactly one Receive for Send / SendFrom, nothing otherwise
pub open spec fn notify_ok(msgs: Seq<SubMsg<Empty>>, sender: Seq<char>, msg: Cw20ExecuteMsg) -> bool {
    match msg {
        Cw20ExecuteMsg::Send { contract, amount, msg } => msgs.len() == 1 && is_receive_msg(msgs[0], contract@, sender, amount, msg),
        Cw20ExecuteMsg::SendFrom { owner, contract, amount, msg } => msgs.len() == 1 && is_receive_msg(msgs[0], contract@, sender, amount, msg),
        Cw20ExecuteMsg::Mint { .. } => msgs.len() == 0,
        Cw20ExecuteMsg::Transfer { .. } => msgs.len() == 0,
        Cw20ExecuteMsg::Burn { .. } => msgs.len() == 0,
        Cw20ExecuteMsg::TransferFrom { .. } => msgs.len() == 0,
        Cw20ExecuteMsg::BurnFrom { .. } => msgs.len() == 0,
        Cw20ExecuteMsg::IncreaseAllowance { .. } => msgs.len() == 0,
        Cw20ExecuteMsg::DecreaseAllowance { .. } => msgs.len() == 0,
        _ => true,
    }
}

@fn contracts/cw20-base/src/contract.rs execute
@requires
    inv(old(deps.storage).view())
@ensures C01.execute_step C02 C13 C19 C20
    r is Ok ==> step_execute(old(deps.storage).view(), final(deps.storage).view(), info.sender@, &env.block, msg)
@ensures C01.execute_inv C13 C19 C20
    r is Ok ==> inv(final(deps.storage).view())
@ensures C02.execute_notify
    r is Ok ==> notify_ok(r->Ok_0.messages@, info.sender@, msg)
@end

// ===================================================================== history lemmas (derive the property sentences from the contracts)
/// the full postcondition of one successful `execute` call, as proved for the dispatcher above
pub open spec fn exec_post(s: Raw, t: Raw, sender: Seq<char>, b: &BlockInfo, msg: Cw20ExecuteMsg) -> bool {
    step_execute(s, t, sender, b, msg) && inv(t)
}
pub open spec fn others_same(s: Raw, t: Raw, a: Seq<char>) -> bool { forall|x: Seq<char>| x != a ==> bal(t, x) == bal(s, x) }
pub open spec fn allowance_amt(s: Raw, o: Seq<char>, sp: Seq<char>) -> nat { allow_or_default(s, o, sp).allowance@ }

pub proof fn lemma_after_deduct(s: Raw, o: Seq<char>, sp: Seq<char>, amt: nat)
    requires inv_mirror(s), allow(s, o, sp) is Some, allow(s, o, sp)->Some_0.allowance@ >= amt
    ensures total_bal(after_deduct(s, o, sp, amt)) == total_bal(s), tinfo(after_deduct(s, o, sp, amt)) == tinfo(s),
        forall|x: Seq<char>| bal(after_deduct(s, o, sp, amt), x) == bal(s, x),
        allowance_amt(after_deduct(s, o, sp, amt), o, sp) == allowance_amt(s, o, sp) - amt,
        forall|o2: Seq<char>, sp2: Seq<char>| (o2 != o || sp2 != sp) ==> allow(after_deduct(s, o, sp, amt), o2, sp2) == allow(s, o2, sp2),
{
    broadcast use cw20_axioms;
    let a = AllowanceResponse { allowance: Uint128((allow(s, o, sp)->Some_0.allowance@ - amt) as u128), expires: allow(s, o, sp)->Some_0.expires };
    lemma_set_allow(s, o, sp, a);
    lemma_allow_frame(s, o, sp, a);
}
/// writing the (o, sp) allowance entry leaves every other pair's entry alone
pub proof fn lemma_allow_frame(s: Raw, o: Seq<char>, sp: Seq<char>, a: AllowanceResponse)
    ensures forall|o2: Seq<char>, sp2: Seq<char>| (o2 != o || sp2 != sp) ==>
        allow(set_allow(s, o, sp, a), o2, sp2) == allow(s, o2, sp2) && allow(del_allow(s, o, sp), o2, sp2) == allow(s, o2, sp2),
{
    broadcast use cw20_axioms;
    lemma_ns();
    assert forall|o2: Seq<char>, sp2: Seq<char>| (o2 != o || sp2 != sp) implies
        allow(set_allow(s, o, sp, a), o2, sp2) == allow(s, o2, sp2) && allow(del_allow(s, o, sp), o2, sp2) == allow(s, o2, sp2) by {
        assert(unpair_kb(pair_kb(utf8(o2), utf8(sp2))) != unpair_kb(pair_kb(utf8(o), utf8(sp)))) by {
            assert(unutf8(utf8(o2)) == o2 && unutf8(utf8(o)) == o && unutf8(utf8(sp2)) == sp2 && unutf8(utf8(sp)) == sp);
        }
        assert(unpath(akey(o2, sp2)) != unpath(akey(o, sp)));
        assert(unpath(akey(o2, sp2)) != unpath(skey(sp, o)));
    }
}
/// balance writes leave every allowance entry alone
pub proof fn lemma_bal_write_allow(s: Raw, a: Seq<char>, v: Seq<u8>)
    ensures forall|o: Seq<char>, sp: Seq<char>| allow(s.insert(bkey(a), v), o, sp) == allow(s, o, sp),
        forall|o: Seq<char>, sp: Seq<char>| allow(s.insert(ti_key(), v), o, sp) == allow(s, o, sp),
{
    broadcast use cw20_axioms;
    lemma_ns();
    assert forall|o: Seq<char>, sp: Seq<char>| allow(s.insert(bkey(a), v), o, sp) == allow(s, o, sp) && allow(s.insert(ti_key(), v), o, sp) == allow(s, o, sp) by {
        assert(unpath(akey(o, sp)) != unpath(bkey(a)) && unpath(akey(o, sp)) != unpath(ti_key()));
    }
}

pub mod m_c01_step {
use super::*;
// serves: C01
/// C01, per step: the supply moves only at mint / burn, by exactly the amount, together with exactly one balance
#[verifier::rlimit(40)]
pub proof fn lemma_c01_step(s: Raw, t: Raw, sender: Seq<char>, b: &BlockInfo, msg: Cw20ExecuteMsg)
    requires inv(s), exec_post(s, t, sender, b, msg)
    ensures
        total_bal(t) == supply(t),
        match msg {
            Cw20ExecuteMsg::Mint { recipient, amount } => supply(t) == supply(s) + amount@
                && bal(t, recipient@) == bal(s, recipient@) + amount@ && others_same(s, t, recipient@),
            Cw20ExecuteMsg::Burn { amount } => supply(t) == supply(s) - amount@
                && bal(t, sender) == bal(s, sender) - amount@ && others_same(s, t, sender),
            Cw20ExecuteMsg::BurnFrom { owner, amount } => supply(t) == supply(s) - amount@
                && bal(t, owner@) == bal(s, owner@) - amount@ && others_same(s, t, owner@),
            _ => supply(t) == supply(s) && total_bal(t) == total_bal(s),
        },
{
    broadcast use cw20_axioms;
    lemma_ns();
    match msg {
        Cw20ExecuteMsg::Mint { recipient, amount } => {
            lemma_set_supply(s, supply(s) + amount@);
            lemma_credit(set_supply(s, supply(s) + amount@), recipient@, amount@);
        }
        Cw20ExecuteMsg::Burn { amount } => {
            lemma_debit(s, sender, amount@);
            lemma_set_supply(debit(s, sender, amount@), (supply(s) - amount@) as nat);
        }
        Cw20ExecuteMsg::BurnFrom { owner, amount } => {
            let m = after_deduct(s, owner@, sender, amount@);
            lemma_after_deduct(s, owner@, sender, amount@);
            lemma_debit(m, owner@, amount@);
            lemma_set_supply(debit(m, owner@, amount@), (supply(m) - amount@) as nat);
        }
        Cw20ExecuteMsg::TransferFrom { owner, recipient, amount } => { lemma_after_deduct(s, owner@, sender, amount@); }
        Cw20ExecuteMsg::SendFrom { owner, contract, amount, msg } => { lemma_after_deduct(s, owner@, sender, amount@); }
        Cw20ExecuteMsg::UpdateMarketing { .. } => { assert(raw_opt(s, ti_key()) == raw_opt(t, ti_key())); }
        Cw20ExecuteMsg::UploadLogo(_) => { assert(raw_opt(s, ti_key()) == raw_opt(t, ti_key())); }
        _ => {}
    }
}

} // mod m_c01_step
pub use m_c01_step::*;
pub mod m_c02_step {
use super::*;
// serves: C02
/// C02, per step: whose balance may go down, and under which allowance
#[verifier::rlimit(40)]
pub proof fn lemma_c02_step(s: Raw, t: Raw, sender: Seq<char>, b: &BlockInfo, msg: Cw20ExecuteMsg, x: Seq<char>)
    requires inv(s), exec_post(s, t, sender, b, msg), bal(t, x) < bal(s, x)
    ensures
        match msg {
            Cw20ExecuteMsg::Transfer { recipient, amount } => x == sender && bal(s, x) - bal(t, x) == amount@,
            Cw20ExecuteMsg::Send { contract, amount, msg } => x == sender && bal(s, x) - bal(t, x) == amount@,
            Cw20ExecuteMsg::Burn { amount } => x == sender && bal(s, x) - bal(t, x) == amount@,
            Cw20ExecuteMsg::TransferFrom { owner, recipient, amount } => x == owner@ && bal(s, x) - bal(t, x) == amount@ && drew(s, t, x, sender, amount@, b),
            Cw20ExecuteMsg::SendFrom { owner, contract, amount, msg } => x == owner@ && bal(s, x) - bal(t, x) == amount@ && drew(s, t, x, sender, amount@, b),
            Cw20ExecuteMsg::BurnFrom { owner, amount } => x == owner@ && bal(s, x) - bal(t, x) == amount@ && drew(s, t, x, sender, amount@, b),
            _ => false,
        },
{
    broadcast use cw20_axioms;
    lemma_ns();
    match msg {
        Cw20ExecuteMsg::Transfer { recipient, amount } => { lemma_debit(s, sender, amount@); lemma_credit(debit(s, sender, amount@), recipient@, amount@); }
        Cw20ExecuteMsg::Send { contract, amount, msg } => { lemma_debit(s, sender, amount@); lemma_credit(debit(s, sender, amount@), contract@, amount@); }
        Cw20ExecuteMsg::Burn { amount } => { lemma_debit(s, sender, amount@); lemma_set_supply(debit(s, sender, amount@), (supply(s) - amount@) as nat); }
        Cw20ExecuteMsg::Mint { recipient, amount } => { lemma_set_supply(s, supply(s) + amount@); lemma_credit(set_supply(s, supply(s) + amount@), recipient@, amount@); }
        Cw20ExecuteMsg::TransferFrom { owner, recipient, amount } => {
            let m = after_deduct(s, owner@, sender, amount@);
            lemma_after_deduct(s, owner@, sender, amount@);
            lemma_debit(m, owner@, amount@); lemma_credit(debit(m, owner@, amount@), recipient@, amount@);
            lemma_bal_write_allow(m, owner@, u128_ser((bal(m, owner@) - amount@) as u128));
            lemma_bal_write_allow(debit(m, owner@, amount@), recipient@, u128_ser((bal(debit(m, owner@, amount@), recipient@) + amount@) as u128));
        }
        Cw20ExecuteMsg::SendFrom { owner, contract, amount, msg } => {
            let m = after_deduct(s, owner@, sender, amount@);
            lemma_after_deduct(s, owner@, sender, amount@);
            lemma_debit(m, owner@, amount@); lemma_credit(debit(m, owner@, amount@), contract@, amount@);
            lemma_bal_write_allow(m, owner@, u128_ser((bal(m, owner@) - amount@) as u128));
            lemma_bal_write_allow(debit(m, owner@, amount@), contract@, u128_ser((bal(debit(m, owner@, amount@), contract@) + amount@) as u128));
        }
        Cw20ExecuteMsg::BurnFrom { owner, amount } => {
            let m = after_deduct(s, owner@, sender, amount@);
            lemma_after_deduct(s, owner@, sender, amount@);
            lemma_debit(m, owner@, amount@);
            lemma_set_supply(debit(m, owner@, amount@), (supply(m) - amount@) as nat);
            lemma_bal_write_allow(m, owner@, u128_ser((bal(m, owner@) - amount@) as u128));
            lemma_bal_write_allow(debit(m, owner@, amount@), owner@, (TokenInfo { total_supply: Uint128((supply(m) - amount@) as u128), ..tinfo(debit(m, owner@, amount@))->Some_0 }).ser());
        }
        Cw20ExecuteMsg::IncreaseAllowance { spender, amount, expires } => {
            lemma_set_allow(s, sender, spender@, allow_or_default(t, sender, spender@));
        }
        Cw20ExecuteMsg::DecreaseAllowance { spender, amount, expires } => {
            lemma_set_allow(s, sender, spender@, allow_or_default(t, sender, spender@));
        }
        Cw20ExecuteMsg::UpdateMarketing { .. } => { assert(raw_opt(s, bkey(x)) == raw_opt(t, bkey(x))); }
        Cw20ExecuteMsg::UploadLogo(_) => { assert(raw_opt(s, bkey(x)) == raw_opt(t, bkey(x))); }
        Cw20ExecuteMsg::UpdateMinter { new_minter } => { lemma_other_ns(s, ti_key(), tinfo(t)->Some_0.ser()); }
    }
}
} // mod m_c02_step
pub use m_c02_step::*;
/// "spender `sp` drew `amt` on owner `o`'s allowance": it existed, was unexpired and sufficient, and went down by exactly `amt`
pub open spec fn drew(s: Raw, t: Raw, o: Seq<char>, sp: Seq<char>, amt: nat, b: &BlockInfo) -> bool {
    allow(s, o, sp) is Some && !allow(s, o, sp)->Some_0.expires.expired(b) && allow(s, o, sp)->Some_0.allowance@ >= amt
    && allow(t, o, sp) is Some && allow(t, o, sp)->Some_0.allowance@ == allow(s, o, sp)->Some_0.allowance@ - amt
    && allow(t, o, sp)->Some_0.expires == allow(s, o, sp)->Some_0.expires
}

pub open spec fn grant_of(sender: Seq<char>, msg: Cw20ExecuteMsg, o: Seq<char>, sp: Seq<char>) -> nat {
    match msg {
        Cw20ExecuteMsg::IncreaseAllowance { spender, amount, expires } => if sender == o && spender@ == sp { amount@ } else { 0 },
        _ => 0,
    }
}
pub open spec fn draw_of(sender: Seq<char>, msg: Cw20ExecuteMsg, o: Seq<char>, sp: Seq<char>) -> nat {
    match msg {
        Cw20ExecuteMsg::TransferFrom { owner, recipient, amount } => if sender == sp && owner@ == o { amount@ } else { 0 },
        Cw20ExecuteMsg::SendFrom { owner, contract, amount, msg } => if sender == sp && owner@ == o { amount@ } else { 0 },
        Cw20ExecuteMsg::BurnFrom { owner, amount } => if sender == sp && owner@ == o { amount@ } else { 0 },
        _ => 0,
    }
}

pub mod m_c02_allow {
use super::*;
// serves: C02
/// C02, per step and per (owner, spender): what was drawn plus what is left never exceeds what was there plus what was granted;
/// and the allowance changes only by the owner's increase/decrease or the spender's own draw
pub proof fn lemma_c02_allowance_step(s: Raw, t: Raw, sender: Seq<char>, b: &BlockInfo, msg: Cw20ExecuteMsg, o: Seq<char>, sp: Seq<char>)
    requires inv(s), exec_post(s, t, sender, b, msg)
    ensures
        allowance_amt(t, o, sp) + draw_of(sender, msg, o, sp) <= allowance_amt(s, o, sp) + grant_of(sender, msg, o, sp),
        allow(t, o, sp) != allow(s, o, sp) ==> match msg {
            Cw20ExecuteMsg::IncreaseAllowance { spender, amount, expires } => sender == o && spender@ == sp && allowance_amt(t, o, sp) == allowance_amt(s, o, sp) + amount@,
            Cw20ExecuteMsg::DecreaseAllowance { spender, amount, expires } => sender == o && spender@ == sp
                && allowance_amt(t, o, sp) == (if amount@ < allowance_amt(s, o, sp) { allowance_amt(s, o, sp) - amount@ } else { 0 }),
            Cw20ExecuteMsg::TransferFrom { owner, recipient, amount } => sender == sp && owner@ == o && drew(s, t, o, sp, amount@, b),
            Cw20ExecuteMsg::SendFrom { owner, contract, amount, msg } => sender == sp && owner@ == o && drew(s, t, o, sp, amount@, b),
            Cw20ExecuteMsg::BurnFrom { owner, amount } => sender == sp && owner@ == o && drew(s, t, o, sp, amount@, b),
            _ => false,
        },
{
    broadcast use cw20_axioms;
    lemma_ns();
    match msg {
        Cw20ExecuteMsg::Transfer { recipient, amount } => {
            lemma_bal_write_allow(s, sender, u128_ser((bal(s, sender) - amount@) as u128));
            lemma_bal_write_allow(debit(s, sender, amount@), recipient@, u128_ser((bal(debit(s, sender, amount@), recipient@) + amount@) as u128));
        }
        Cw20ExecuteMsg::Send { contract, amount, msg } => {
            lemma_bal_write_allow(s, sender, u128_ser((bal(s, sender) - amount@) as u128));
            lemma_bal_write_allow(debit(s, sender, amount@), contract@, u128_ser((bal(debit(s, sender, amount@), contract@) + amount@) as u128));
        }
        Cw20ExecuteMsg::Burn { amount } => {
            lemma_bal_write_allow(s, sender, u128_ser((bal(s, sender) - amount@) as u128));
            lemma_bal_write_allow(debit(s, sender, amount@), sender, (TokenInfo { total_supply: Uint128((supply(s) - amount@) as u128), ..tinfo(debit(s, sender, amount@))->Some_0 }).ser());
        }
        Cw20ExecuteMsg::Mint { recipient, amount } => {
            lemma_bal_write_allow(s, sender, (TokenInfo { total_supply: Uint128((supply(s) + amount@) as u128), ..tinfo(s)->Some_0 }).ser());
            lemma_bal_write_allow(set_supply(s, supply(s) + amount@), recipient@, u128_ser((bal(set_supply(s, supply(s) + amount@), recipient@) + amount@) as u128));
        }
        Cw20ExecuteMsg::TransferFrom { owner, recipient, amount } => {
            let m = after_deduct(s, owner@, sender, amount@);
            lemma_after_deduct(s, owner@, sender, amount@);
            lemma_bal_write_allow(m, owner@, u128_ser((bal(m, owner@) - amount@) as u128));
            lemma_bal_write_allow(debit(m, owner@, amount@), recipient@, u128_ser((bal(debit(m, owner@, amount@), recipient@) + amount@) as u128));
        }
        Cw20ExecuteMsg::SendFrom { owner, contract, amount, msg } => {
            let m = after_deduct(s, owner@, sender, amount@);
            lemma_after_deduct(s, owner@, sender, amount@);
            lemma_bal_write_allow(m, owner@, u128_ser((bal(m, owner@) - amount@) as u128));
            lemma_bal_write_allow(debit(m, owner@, amount@), contract@, u128_ser((bal(debit(m, owner@, amount@), contract@) + amount@) as u128));
        }
        Cw20ExecuteMsg::BurnFrom { owner, amount } => {
            let m = after_deduct(s, owner@, sender, amount@);
            lemma_after_deduct(s, owner@, sender, amount@);
            lemma_bal_write_allow(m, owner@, u128_ser((bal(m, owner@) - amount@) as u128));
            lemma_bal_write_allow(debit(m, owner@, amount@), owner@, (TokenInfo { total_supply: Uint128((supply(m) - amount@) as u128), ..tinfo(debit(m, owner@, amount@))->Some_0 }).ser());
        }
        Cw20ExecuteMsg::IncreaseAllowance { spender, amount, expires } => {
            let a = AllowanceResponse {
                allowance: Uint128((allow_or_default(s, sender, spender@).allowance@ + amount@) as u128),
                expires: match expires { Some(e) => e, None => allow_or_default(s, sender, spender@).expires } };
            lemma_set_allow(s, sender, spender@, a);
            lemma_allow_frame(s, sender, spender@, a);
        }
        Cw20ExecuteMsg::DecreaseAllowance { spender, amount, expires } => {
            let a = AllowanceResponse {
                allowance: Uint128((allow(s, sender, spender@)->Some_0.allowance@ - amount@) as u128),
                expires: match expires { Some(e) => e, None => allow(s, sender, spender@)->Some_0.expires } };
            lemma_set_allow(s, sender, spender@, a);
            lemma_allow_frame(s, sender, spender@, a);
        }
        Cw20ExecuteMsg::UpdateMarketing { .. } => { assert(raw_opt(s, akey(o, sp)) == raw_opt(t, akey(o, sp))); }
        Cw20ExecuteMsg::UploadLogo(_) => { assert(raw_opt(s, akey(o, sp)) == raw_opt(t, akey(o, sp))); }
        Cw20ExecuteMsg::UpdateMinter { new_minter } => { lemma_bal_write_allow(s, sender, tinfo(t)->Some_0.ser()); }
    }
}

} // mod m_c02_allow
pub use m_c02_allow::*;
// --------------------------------------------------------------------- histories
/// one call of a history: who called, in which block, with what, and whether it succeeded (a failed call is rolled back, A1)
pub struct Call { pub sender: Seq<char>, pub block: BlockInfo, pub msg: Cw20ExecuteMsg, pub ok: bool }
pub open spec fn step_at(st: Seq<Raw>, calls: Seq<Call>, i: int) -> bool {
    if calls[i].ok { exec_post(st[i], st[i + 1], calls[i].sender, &calls[i].block, calls[i].msg) } else { st[i + 1] == st[i] }
}
/// a history: any finite sequence of calls from an `inv` state (instantiate establishes `inv`), each step satisfying the dispatcher's contract
pub open spec fn history(st: Seq<Raw>, calls: Seq<Call>) -> bool {
    st.len() == calls.len() + 1 && inv(st[0]) && forall|i: int| 0 <= i < calls.len() ==> #[trigger] step_at(st, calls, i)
}
pub open spec fn granted(calls: Seq<Call>, o: Seq<char>, sp: Seq<char>, n: int) -> nat decreases n {
    if n <= 0 { 0 } else { granted(calls, o, sp, n - 1) + (if calls[n - 1].ok { grant_of(calls[n - 1].sender, calls[n - 1].msg, o, sp) } else { 0 }) }
}
pub open spec fn drawn(calls: Seq<Call>, o: Seq<char>, sp: Seq<char>, n: int) -> nat decreases n {
    if n <= 0 { 0 } else { drawn(calls, o, sp, n - 1) + (if calls[n - 1].ok { draw_of(calls[n - 1].sender, calls[n - 1].msg, o, sp) } else { 0 }) }
}

// serves: C01 C02 C13 C19
/// the invariant (supply == sum of balances, supply <= cap, allowance tables mirror) holds at every point of every history
pub proof fn lemma_history_inv(st: Seq<Raw>, calls: Seq<Call>, i: int)
    requires history(st, calls), 0 <= i <= calls.len()
    ensures inv(st[i])
    decreases i
{
    if i > 0 { lemma_history_inv(st, calls, i - 1); assert(step_at(st, calls, i - 1)); }
}

// serves: C02
/// over any history a spender never draws more of an owner's tokens than the owner cumulatively granted (plus the initial allowance)
pub proof fn lemma_c02_budget(st: Seq<Raw>, calls: Seq<Call>, o: Seq<char>, sp: Seq<char>, n: int)
    requires history(st, calls), 0 <= n <= calls.len()
    ensures drawn(calls, o, sp, n) + allowance_amt(st[n], o, sp) <= granted(calls, o, sp, n) + allowance_amt(st[0], o, sp)
    decreases n
{
    if n > 0 {
        lemma_c02_budget(st, calls, o, sp, n - 1);
        lemma_history_inv(st, calls, n - 1);
        assert(step_at(st, calls, n - 1));
        if calls[n - 1].ok {
            lemma_c02_allowance_step(st[n - 1], st[n], calls[n - 1].sender, &calls[n - 1].block, calls[n - 1].msg, o, sp);
        }
    }
}

// --------------------------------------------------------------------- C13: minter and cap over histories
pub open spec fn minter_of(s: Raw) -> Option<Seq<char>> {
    match tinfo(s) { Some(ti) => match ti.mint { Some(m) => Some(m.minter@), None => None }, None => None }
}
pub open spec fn cap_in(s: Raw) -> Option<Uint128> { match tinfo(s) { Some(ti) => cap_of(ti), None => None } }

pub mod m_c13_step {
use super::*;
// serves: C13
pub proof fn lemma_c13_step(s: Raw, t: Raw, sender: Seq<char>, b: &BlockInfo, msg: Cw20ExecuteMsg)
    requires inv(s), exec_post(s, t, sender, b, msg)
    ensures
        supply(t) > supply(s) ==> msg is Mint && minter_of(s) == Some(sender),
        minter_of(t) != minter_of(s) ==> msg is UpdateMinter && minter_of(s) == Some(sender),
        minter_of(s) is None ==> minter_of(t) is None,
        minter_of(t) is Some ==> cap_in(t) == cap_in(s),
        cap_in(t) is Some ==> supply(t) <= cap_in(t)->Some_0@,
{
    broadcast use cw20_axioms;
    lemma_ns();
    lemma_c01_step(s, t, sender, b, msg);
    match msg {
        Cw20ExecuteMsg::Transfer { recipient, amount } => { lemma_debit(s, sender, amount@); lemma_credit(debit(s, sender, amount@), recipient@, amount@); }
        Cw20ExecuteMsg::Send { contract, amount, msg } => { lemma_debit(s, sender, amount@); lemma_credit(debit(s, sender, amount@), contract@, amount@); }
        Cw20ExecuteMsg::Burn { amount } => { lemma_debit(s, sender, amount@); lemma_set_supply(debit(s, sender, amount@), (supply(s) - amount@) as nat); }
        Cw20ExecuteMsg::Mint { recipient, amount } => { lemma_set_supply(s, supply(s) + amount@); lemma_credit(set_supply(s, supply(s) + amount@), recipient@, amount@); }
        Cw20ExecuteMsg::TransferFrom { owner, recipient, amount } => {
            let m = after_deduct(s, owner@, sender, amount@); lemma_after_deduct(s, owner@, sender, amount@);
            lemma_debit(m, owner@, amount@); lemma_credit(debit(m, owner@, amount@), recipient@, amount@);
        }
        Cw20ExecuteMsg::SendFrom { owner, contract, amount, msg } => {
            let m = after_deduct(s, owner@, sender, amount@); lemma_after_deduct(s, owner@, sender, amount@);
            lemma_debit(m, owner@, amount@); lemma_credit(debit(m, owner@, amount@), contract@, amount@);
        }
        Cw20ExecuteMsg::BurnFrom { owner, amount } => {
            let m = after_deduct(s, owner@, sender, amount@); lemma_after_deduct(s, owner@, sender, amount@);
            lemma_debit(m, owner@, amount@); lemma_set_supply(debit(m, owner@, amount@), (supply(m) - amount@) as nat);
        }
        Cw20ExecuteMsg::IncreaseAllowance { spender, amount, expires } => { lemma_set_allow(s, sender, spender@, allow_or_default(t, sender, spender@)); }
        Cw20ExecuteMsg::DecreaseAllowance { spender, amount, expires } => { lemma_set_allow(s, sender, spender@, allow_or_default(t, sender, spender@)); }
        Cw20ExecuteMsg::UpdateMarketing { .. } => { assert(raw_opt(s, ti_key()) == raw_opt(t, ti_key())); }
        Cw20ExecuteMsg::UploadLogo(_) => { assert(raw_opt(s, ti_key()) == raw_opt(t, ti_key())); }
        Cw20ExecuteMsg::UpdateMinter { new_minter } => {}
    }
}

} // mod m_c13_step
pub use m_c13_step::*;
// serves: C13
/// once renounced the minter role never returns; while a minter exists the cap is the one fixed at instantiation; the supply never exceeds it
pub proof fn lemma_c13_history(st: Seq<Raw>, calls: Seq<Call>, i: int, j: int)
    requires history(st, calls), 0 <= i <= j <= calls.len()
    ensures
        minter_of(st[i]) is None ==> minter_of(st[j]) is None,
        minter_of(st[j]) is Some ==> cap_in(st[j]) == cap_in(st[i]),
        cap_in(st[j]) is Some ==> supply(st[j]) <= cap_in(st[j])->Some_0@,
    decreases j - i
{
    lemma_history_inv(st, calls, j);
    if i < j {
        lemma_c13_history(st, calls, i, j - 1);
        lemma_history_inv(st, calls, j - 1);
        assert(step_at(st, calls, j - 1));
        if calls[j - 1].ok {
            lemma_c13_step(st[j - 1], st[j], calls[j - 1].sender, &calls[j - 1].block, calls[j - 1].msg);
        }
    }
}

// ===================================================================== the query entry point routes every message to its query function
// the three listings are verified in unit cw20enum; here they are declarations only (no contract is assumed about them): the
// dispatcher's contract says that the answer is the JSON of a value the routed function can return on exactly these arguments
@enum contracts/cw20-base/src/msg.rs QueryMsg
@struct packages/cw20/src/query.rs AllowanceInfo
@struct packages/cw20/src/query.rs AllAllowancesResponse [noderive]
@struct packages/cw20/src/query.rs SpenderAllowanceInfo
@struct packages/cw20/src/query.rs AllSpenderAllowancesResponse [noderive]
@struct packages/cw20/src/query.rs AllAccountsResponse [noderive]
@struct packages/cw20/src/query.rs DownloadLogoResponse
impl JsonT for BalanceResponse { uninterp spec fn json(self) -> Seq<u8>; uninterp spec fn unjson(b: Seq<u8>) -> Option<Self>; }
impl JsonT for TokenInfoResponse { uninterp spec fn json(self) -> Seq<u8>; uninterp spec fn unjson(b: Seq<u8>) -> Option<Self>; }
impl JsonT for MinterResponse { uninterp spec fn json(self) -> Seq<u8>; uninterp spec fn unjson(b: Seq<u8>) -> Option<Self>; }
impl JsonT for Option<MinterResponse> { uninterp spec fn json(self) -> Seq<u8>; uninterp spec fn unjson(b: Seq<u8>) -> Option<Self>; }
impl JsonT for AllowanceResponse { uninterp spec fn json(self) -> Seq<u8>; uninterp spec fn unjson(b: Seq<u8>) -> Option<Self>; }
impl JsonT for AllAllowancesResponse { uninterp spec fn json(self) -> Seq<u8>; uninterp spec fn unjson(b: Seq<u8>) -> Option<Self>; }
impl JsonT for AllSpenderAllowancesResponse { uninterp spec fn json(self) -> Seq<u8>; uninterp spec fn unjson(b: Seq<u8>) -> Option<Self>; }
impl JsonT for AllAccountsResponse { uninterp spec fn json(self) -> Seq<u8>; uninterp spec fn unjson(b: Seq<u8>) -> Option<Self>; }
impl JsonT for MarketingInfoResponse { uninterp spec fn json(self) -> Seq<u8>; uninterp spec fn unjson(b: Seq<u8>) -> Option<Self>; }
impl JsonT for DownloadLogoResponse { uninterp spec fn json(self) -> Seq<u8>; uninterp spec fn unjson(b: Seq<u8>) -> Option<Self>; }
@fn contracts/cw20-base/src/enumerable.rs query_owner_allowances [assume]
@end
@fn contracts/cw20-base/src/enumerable.rs query_spender_allowances [assume]
@end
@fn contracts/cw20-base/src/enumerable.rs query_all_accounts [assume]
@end
@fn contracts/cw20-base/src/contract.rs query_marketing_info [assume]
@end
@fn contracts/cw20-base/src/contract.rs query_download_logo [assume]
@end
@fn contracts/cw20-base/src/contract.rs query
@ensures C01.query_routes C02 C13 C19 C20
    r is Ok ==> match msg {
        QueryMsg::Balance { address } => exists|x: BalanceResponse| r->Ok_0@ == x.json() && call_ensures(query_balance, (deps, address), Ok::<BalanceResponse, StdError>(x)),
        QueryMsg::TokenInfo {} => exists|x: TokenInfoResponse| r->Ok_0@ == x.json() && call_ensures(query_token_info, (deps,), Ok::<TokenInfoResponse, StdError>(x)),
        QueryMsg::Minter {} => exists|x: Option<MinterResponse>| r->Ok_0@ == x.json() && call_ensures(query_minter, (deps,), Ok::<Option<MinterResponse>, StdError>(x)),
        QueryMsg::Allowance { owner, spender } => exists|x: AllowanceResponse| r->Ok_0@ == x.json() && call_ensures(query_allowance, (deps, owner, spender), Ok::<AllowanceResponse, StdError>(x)),
        QueryMsg::AllAllowances { owner, start_after, limit } => exists|x: AllAllowancesResponse| r->Ok_0@ == x.json()
            && call_ensures(query_owner_allowances, (deps, owner, start_after, limit), Ok::<AllAllowancesResponse, StdError>(x)),
        QueryMsg::AllSpenderAllowances { spender, start_after, limit } => exists|x: AllSpenderAllowancesResponse| r->Ok_0@ == x.json()
            && call_ensures(query_spender_allowances, (deps, spender, start_after, limit), Ok::<AllSpenderAllowancesResponse, StdError>(x)),
        QueryMsg::AllAccounts { start_after, limit } => exists|x: AllAccountsResponse| r->Ok_0@ == x.json()
            && call_ensures(query_all_accounts, (deps, start_after, limit), Ok::<AllAccountsResponse, StdError>(x)),
        QueryMsg::MarketingInfo {} => exists|x: MarketingInfoResponse| r->Ok_0@ == x.json() && call_ensures(query_marketing_info, (deps,), Ok::<MarketingInfoResponse, StdError>(x)),
        QueryMsg::DownloadLogo {} => exists|x: DownloadLogoResponse| r->Ok_0@ == x.json() && call_ensures(query_download_logo, (deps,), Ok::<DownloadLogoResponse, StdError>(x)),
    }
@end
