@unit cw1subkeys
@shim core.rs cw_utils.rs std_more.rs cw2.rs std_adapters.rs range.rs
@properties C07 C08 C16 C17 C20

pub mod cw1_whitelist {
use super::*;
@include inc/cw1_whitelist.vsi
} // mod cw1_whitelist
pub use cw1_whitelist::{AdminList, InstantiateMsg, AdminListResponse, CanExecuteResponse, ADMIN_LIST, al_key, admin_list, listed, is_admin_of,
    map_validate, execute_freeze, execute_update_admins, query_admin_list};
pub use cw1_whitelist::m_wl_instantiate::instantiate as whitelist_instantiate;

// ===================================================================== cw1-subkeys: data and state
@struct contracts/cw1-subkeys/src/state.rs Permissions [default: Permissions { delegate: false, redelegate: false, undelegate: false, withdraw: false }; display]
@struct contracts/cw1-subkeys/src/state.rs Allowance [derive: Clone]
impl Default for Allowance {
    fn default() -> (r: Self) ensures r.balance.0@.len() == 0, r.balance.wf(), forall|d: Seq<char>| r.balance.amt(d) == 0, r.expires == (Expiration::Never {})
    { Allowance { balance: Default::default(), expires: Default::default() } }
}
@enum contracts/cw1-subkeys/src/msg.rs ExecuteMsg [noderive]
@enum contracts/cw1-subkeys/src/error.rs ContractError
@method contracts/cw1-subkeys/src/error.rs From<cw1_whitelist::ContractError>forContractError from
@ensures C17.error_from_whitelist
    true
@end
impl FromSpecImpl<cw1_whitelist::ContractError> for ContractError {
    open spec fn obeys_from_spec() -> bool { false }
    uninterp spec fn from_spec(e: cw1_whitelist::ContractError) -> Self;
}
impl SerT for Permissions { uninterp spec fn ser(self) -> Seq<u8>; uninterp spec fn de(b: Seq<u8>) -> Option<Self>; }
impl SerT for Allowance { uninterp spec fn ser(self) -> Seq<u8>; uninterp spec fn de(b: Seq<u8>) -> Option<Self>; }

@const contracts/cw1-subkeys/src/contract.rs CONTRACT_NAME
@const contracts/cw1-subkeys/src/contract.rs CONTRACT_VERSION
@const contracts/cw1-subkeys/src/state.rs PERMISSIONS
@const contracts/cw1-subkeys/src/state.rs ALLOWANCES

pub open spec fn akey(a: Seq<char>) -> Seq<u8> { path("allowances"@, utf8(a)) }
pub open spec fn pmkey(a: Seq<char>) -> Seq<u8> { path("permissions"@, utf8(a)) }
pub open spec fn allow_of(s: Raw, a: Seq<char>) -> Option<Allowance> { raw_get::<Allowance>(s, akey(a)) }
pub open spec fn perm_of(s: Raw, a: Seq<char>) -> Option<Permissions> { raw_get::<Permissions>(s, pmkey(a)) }

/// staking / distribution messages a permission set covers (C07)
pub open spec fn staking_ok(m: StakingMsg, p: Permissions) -> bool {
    match m { StakingMsg::Delegate { .. } => p.delegate, StakingMsg::Undelegate { .. } => p.undelegate, StakingMsg::Redelegate { .. } => p.redelegate }
}
pub open spec fn distribution_ok(m: DistributionMsg, p: Permissions) -> bool {
    match m { DistributionMsg::SetWithdrawAddress { .. } => p.withdraw, DistributionMsg::WithdrawDelegatorReward { .. } => p.withdraw, _ => false }
}

@fn contracts/cw1-subkeys/src/contract.rs check_staking_permissions
@ensures C07.staking_perm_exact C16
    r is Ok <==> staking_ok(*staking_msg, permissions)
@end

@fn contracts/cw1-subkeys/src/contract.rs check_distribution_permissions
@ensures C07.distribution_perm_exact C16
    r is Ok <==> distribution_ok(*distribution_msg, permissions)
@end

/// one message relayed by a non-admin subkey: the allowance it leaves behind, or None if the message is not covered (C07, C08)
pub open spec fn step1<T>(a: Option<Allowance>, perm: Option<Permissions>, b: &BlockInfo, m: CosmosMsg<T>) -> Option<Option<Allowance>> {
    match m {
        CosmosMsg::Staking(sm) => if perm is Some && staking_ok(sm, perm->Some_0) { Some(a) } else { None },
        CosmosMsg::Distribution(dm) => if perm is Some && distribution_ok(dm, perm->Some_0) { Some(a) } else { None },
        CosmosMsg::Bank(BankMsg::Send { to_address, amount }) =>
            if a is Some && !a->Some_0.expires.expired(b) && nb_sub_ok(a->Some_0.balance, amount@) {
                Some(Some(Allowance { balance: nb_sub(a->Some_0.balance, amount@), expires: a->Some_0.expires }))
            } else { None },
        _ => None,
    }
}
/// the first `n` messages, in order
pub open spec fn run<T>(a: Option<Allowance>, perm: Option<Permissions>, b: &BlockInfo, msgs: Seq<CosmosMsg<T>>, n: int) -> Option<Option<Allowance>>
    decreases n
{
    if n <= 0 { Some(a) } else {
        match run(a, perm, b, msgs, n - 1) { Some(x) => step1(x, perm, b, msgs[n - 1]), None => None }
    }
}
/// exact success condition of Execute (C07, C16): the caller is an admin, or every message is covered in order
pub open spec fn exec_ok<T>(s: Raw, b: &BlockInfo, sender: Seq<char>, msgs: Seq<CosmosMsg<T>>) -> bool {
    admin_list(s) is Some && (listed(admin_list(s)->Some_0.admins@, sender)
        || run(allow_of(s, sender), perm_of(s, sender), b, msgs, msgs.len() as int) is Some)
}
pub proof fn lemma_run_none<T>(a: Option<Allowance>, perm: Option<Permissions>, b: &BlockInfo, msgs: Seq<CosmosMsg<T>>, i: int, n: int)
    requires 0 <= i <= n, run(a, perm, b, msgs, i) is None
    ensures run(a, perm, b, msgs, n) is None
    decreases n - i
{
    if i < n { lemma_run_none(a, perm, b, msgs, i, n - 1); }
}
/// the state a non-admin subkey's Execute leaves: only its own allowance entry may differ
pub open spec fn exec_state(s: Raw, sender: Seq<char>, fin: Option<Allowance>) -> Raw {
    if fin == allow_of(s, sender) && !(fin is Some) { s } else if fin is Some { s.insert(akey(sender), fin->Some_0.ser()) } else { s }
}

pub broadcast group cw1_axioms { ax_path, ax_utf8, ax_ser, addr_ext, ax_nb_sub }
pub proof fn lemma_ns1()
    ensures "allowances"@ != "permissions"@, "allowances"@ != "admin_list"@, "permissions"@ != "admin_list"@,
        "allowances"@ != "contract_info"@, "permissions"@ != "contract_info"@, "admin_list"@ != "contract_info"@,
{
    reveal_strlit("allowances"); reveal_strlit("permissions"); reveal_strlit("admin_list"); reveal_strlit("contract_info");
    assert("allowances"@.len() == 10); assert("permissions"@.len() == 11); assert("admin_list"@.len() == 10); assert("contract_info"@.len() == 13);
    assert("allowances"@[1] == 'l'); assert("admin_list"@[1] == 'd');
}

/// C08 representation invariant: stored allowances hold each denomination at most once
pub open spec fn inv_wf(s: Raw) -> bool { forall|a: Seq<char>| #![trigger akey(a)] allow_of(s, a) is Some ==> allow_of(s, a)->Some_0.balance.wf() }
pub open spec fn raw_opt(s: Raw, k: Seq<u8>) -> Option<Seq<u8>> { if s.contains_key(k) { Some(s[k]) } else { None } }
pub open spec fn frame_but(s: Raw, t: Raw, k: Seq<u8>) -> bool { forall|k2: Seq<u8>| k2 != k ==> #[trigger] raw_opt(s, k2) == raw_opt(t, k2) }

@fn contracts/cw1-subkeys/src/contract.rs execute_execute [loops: 1; closures: 1]
@requires
    inv_wf(old(deps.storage).view())
@ensures C07.execute_exact C16 C08
    r is Ok <==> exec_ok(old(deps.storage).view(), &env.block, info.sender@, msgs@)
@ensures C07.execute_relays_exactly
    r is Ok ==> r->Ok_0.messages@ == submsgs_of(msgs@)
@ensures C08.execute_allowance_exact C17
    r is Ok ==> frame_but(old(deps.storage).view(), final(deps.storage).view(), akey(info.sender@))
        && (if listed(admin_list(old(deps.storage).view())->Some_0.admins@, info.sender@) { final(deps.storage).view() == old(deps.storage).view() }
            else { Some(allow_of(final(deps.storage).view(), info.sender@)) == run(allow_of(old(deps.storage).view(), info.sender@), perm_of(old(deps.storage).view(), info.sender@), &env.block, msgs@, msgs@.len() as int) })
@ensures C08.execute_inv
    r is Ok ==> inv_wf(final(deps.storage).view())
@loop 1 C08.execute_loop
    invariant
        it.index@ <= msgs@.len(),
        admin_list(old(deps.storage).view()) is Some, !listed(admin_list(old(deps.storage).view())->Some_0.admins@, info.sender@),
        run(allow_of(old(deps.storage).view(), info.sender@), perm_of(old(deps.storage).view(), info.sender@), &env.block, msgs@, it.index@ as int)
            == Some(allow_of(deps.storage.view(), info.sender@)),
        frame_but(old(deps.storage).view(), deps.storage.view(), akey(info.sender@)),
        inv_wf(deps.storage.view()),
@closure_types 1
    allow: Option<Allowance>
@closure 1 C08.execute_spend_closure
    (res: Result<Allowance, ContractError>)
    ensures
        res is Ok ==> allow is Some && !allow->Some_0.expires.expired(&env.block) && nb_sub_ok(allow->Some_0.balance, amount@)
            && res->Ok_0 == (Allowance { balance: nb_sub(allow->Some_0.balance, amount@), expires: allow->Some_0.expires }),
        res is Err ==> !(allow is Some && !allow->Some_0.expires.expired(&env.block) && nb_sub_ok(allow->Some_0.balance, amount@)),
@prefix
    broadcast use cw1_axioms;
    proof { lemma_ns1(); }
@loop_begin 1
    let ghost pre = deps.storage.view();
    proof {
        broadcast use cw1_axioms;
        lemma_ns1();
        let s0 = old(deps.storage).view();
        let i = it.index@ as int;
        let cur = allow_of(deps.storage.view(), info.sender@);
        assert(*msg == msgs@[i]);
        assert(perm_of(deps.storage.view(), info.sender@) == perm_of(s0, info.sender@)) by {
            assert(unpath(pmkey(info.sender@)) != unpath(akey(info.sender@)));
            assert(raw_opt(s0, pmkey(info.sender@)) == raw_opt(deps.storage.view(), pmkey(info.sender@)));
        }
        assert(run(allow_of(s0, info.sender@), perm_of(s0, info.sender@), &env.block, msgs@, i + 1) == step1(cur, perm_of(s0, info.sender@), &env.block, msgs@[i]));
        if step1(cur, perm_of(s0, info.sender@), &env.block, msgs@[i]) is None {
            lemma_run_none(allow_of(s0, info.sender@), perm_of(s0, info.sender@), &env.block, msgs@, i + 1, msgs@.len() as int);
        }
    }
@loop_end 1
    proof {
        broadcast use cw1_axioms;
        let s0 = old(deps.storage).view();
        let post = deps.storage.view();
        assert forall|k2: Seq<u8>| k2 != akey(info.sender@) implies raw_opt(s0, k2) == raw_opt(post, k2) by {
            assert(raw_opt(s0, k2) == raw_opt(pre, k2));
        }
        assert forall|a: Seq<char>| allow_of(deps.storage.view(), a) is Some implies allow_of(deps.storage.view(), a)->Some_0.balance.wf() by {
            if a != info.sender@ { assert(unutf8(utf8(a)) != unutf8(utf8(info.sender@))); assert(unpath(akey(a)) != unpath(akey(info.sender@))); }
        }
    }
@end

// --------------------------------------------------------------------- allowance / permission administration (C08, C17)
/// the allowance an IncreaseAllowance starts from: an expired one restarts from zero
pub open spec fn base_allowance(a: Option<Allowance>, b: &BlockInfo) -> Option<Allowance> {
    match a { Some(x) => if x.expires.expired(b) { None } else { Some(x) }, None => None }
}
pub open spec fn step_increase(s: Raw, t: Raw, sender: Seq<char>, spender: Seq<char>, amount: Coin, expires: Option<Expiration>, b: &BlockInfo) -> bool {
    is_admin_of(s, sender) && sender != spender
    && allow_of(t, spender) is Some && t == s.insert(akey(spender), allow_of(t, spender)->Some_0.ser())
    && allow_of(t, spender)->Some_0.balance.wf()
    && !allow_of(t, spender)->Some_0.expires.expired(b)
    && allow_of(t, spender)->Some_0.expires == (match expires { Some(e) => e, None => match allow_of(s, spender) { Some(x) => x.expires, None => Expiration::Never {} } })
    && (forall|d: Seq<char>| allow_of(t, spender)->Some_0.balance.amt(d) ==
            (match base_allowance(allow_of(s, spender), b) { Some(x) => x.balance.amt(d), None => 0 }) + (if d == amount.denom@ { amount.amount@ } else { 0 }))
}
pub open spec fn step_decrease(s: Raw, t: Raw, sender: Seq<char>, spender: Seq<char>, amount: Coin, expires: Option<Expiration>, b: &BlockInfo) -> bool {
    is_admin_of(s, sender) && sender != spender
    && base_allowance(allow_of(s, spender), b) is Some
    && (expires is Some ==> !expires->Some_0.expired(b))
    && frame_but(s, t, akey(spender))
    && (forall|d: Seq<char>| (match allow_of(t, spender) { Some(x) => x.balance.amt(d), None => 0 }) ==
            (if d == amount.denom@ && allow_of(s, spender)->Some_0.balance.amt(d) >= amount.amount@ { (allow_of(s, spender)->Some_0.balance.amt(d) - amount.amount@) as nat }
             else if d == amount.denom@ { 0nat } else { allow_of(s, spender)->Some_0.balance.amt(d) }))
    && (allow_of(t, spender) is Some ==> allow_of(t, spender)->Some_0.balance.wf()
        && allow_of(t, spender)->Some_0.expires == (match expires { Some(e) => e, None => allow_of(s, spender)->Some_0.expires }))
}
pub open spec fn step_set_permissions(s: Raw, t: Raw, sender: Seq<char>, spender: Seq<char>, perm: Permissions) -> bool {
    is_admin_of(s, sender) && sender != spender && t == s.insert(pmkey(spender), perm.ser())
}

@fn contracts/cw1-subkeys/src/contract.rs execute_increase_allowance [closures: 3]
@requires
    inv_wf(old(deps.storage).view())
@ensures C08.increase_exact C17 C07 C16
    r is Ok ==> step_increase(old(deps.storage).view(), final(deps.storage).view(), info.sender@, spender@, amount, expires, &env.block)
@ensures C08.increase_inv
    r is Ok ==> inv_wf(final(deps.storage).view())
@ensures C07.increase_nomsg
    r is Ok ==> r->Ok_0.messages@.len() == 0
@ensures C17.increase_never_refused_to_an_admin C08
    is_admin_of(old(deps.storage).view(), info.sender@) && addr_ok(spender@) && spender@ != info.sender@
        && (!old(deps.storage).view().contains_key(akey(spender@)) || allow_of(old(deps.storage).view(), spender@) is Some)
        && !(match expires { Some(e) => e, None => match allow_of(old(deps.storage).view(), spender@) { Some(x) => x.expires, None => Expiration::Never {} } }).expired(&env.block)
        ==> r is Ok
@closure_types 1
    allow: Option<Allowance>
@closure 1 C08.increase_closure
    (res: Result<Allowance, ContractError>)
    requires allow is Some ==> allow->Some_0.balance.wf()
    ensures !(match expires { Some(e) => e, None => match allow { Some(x) => x.expires, None => Expiration::Never {} } }).expired(&env.block) ==> res is Ok,
        res is Ok ==> res->Ok_0.balance.wf() && !res->Ok_0.expires.expired(&env.block)
        && res->Ok_0.expires == (match expires { Some(e) => e, None => match allow { Some(x) => x.expires, None => Expiration::Never {} } })
        && (forall|d: Seq<char>| res->Ok_0.balance.amt(d) ==
            (match base_allowance(allow, &env.block) { Some(x) => x.balance.amt(d), None => 0 }) + (if d == amount.denom@ { amount.amount@ } else { 0 }))
@closure_types 2
    allow: &Allowance
@closure 2 C08.increase_prev_expires
    (res: Expiration)
    ensures res == allow.expires
@closure_types 3
    allow: &Allowance
@closure 3 C08.increase_filter
    (res: bool)
    ensures res == !allow.expires.expired(&env.block)
@prefix
    broadcast use cw1_axioms;
    proof { lemma_ns1(); }
@insert_before "ALLOWANCES.update::<_, ContractError>(" 1
    proof {
        let k = akey(spender_addr@);
        assert(allow_of(old(deps.storage).view(), spender_addr@) is Some ==> allow_of(old(deps.storage).view(), spender_addr@)->Some_0.balance.wf());
    }
@insert_before "~Response::new()" 1
    proof {
        let t = deps.storage.view();
        assert forall|a: Seq<char>| allow_of(t, a) is Some implies allow_of(t, a)->Some_0.balance.wf() by {
            if a != spender@ { assert(unutf8(utf8(a)) != unutf8(utf8(spender@))); assert(unpath(akey(a)) != unpath(akey(spender_addr@))); }
        }
    }
@end

@fn contracts/cw1-subkeys/src/contract.rs execute_set_permissions
@ensures C17.set_permissions_exact C08 C07 C16
    r is Ok ==> step_set_permissions(old(deps.storage).view(), final(deps.storage).view(), info.sender@, spender@, perm)
@ensures C07.set_permissions_nomsg
    r is Ok ==> r->Ok_0.messages@.len() == 0
@ensures C17.set_permissions_never_refused_to_an_admin C08
    is_admin_of(old(deps.storage).view(), info.sender@) && addr_ok(spender@) && spender@ != info.sender@ ==> r is Ok
@end

@fn contracts/cw1-subkeys/src/contract.rs execute_decrease_allowance [closures: 2]
@requires
    inv_wf(old(deps.storage).view())
@ensures C08.decrease_exact C17 C07 C16
    r is Ok ==> step_decrease(old(deps.storage).view(), final(deps.storage).view(), info.sender@, spender@, amount, expires, &env.block)
@ensures C08.decrease_inv
    r is Ok ==> inv_wf(final(deps.storage).view())
@ensures C07.decrease_nomsg
    r is Ok ==> r->Ok_0.messages@.len() == 0
@closure_types 1
    allow: Option<Allowance>
@closure 1 C08.decrease_closure
    (res: Result<Allowance, ContractError>)
    requires allow is Some ==> allow->Some_0.balance.wf()
    ensures res is Ok ==> base_allowance(allow, &env.block) is Some && res->Ok_0.balance.wf()
        && (expires is Some ==> !expires->Some_0.expired(&env.block))
        && res->Ok_0.expires == (match expires { Some(e) => e, None => allow->Some_0.expires })
        && res->Ok_0.balance.amt(amount.denom@) == (if allow->Some_0.balance.amt(amount.denom@) >= amount.amount@ { allow->Some_0.balance.amt(amount.denom@) - amount.amount@ } else { 0 })
        && (forall|d: Seq<char>| d != amount.denom@ ==> res->Ok_0.balance.amt(d) == allow->Some_0.balance.amt(d))
@closure_types 2
    allow: &Allowance
@closure 2 C08.decrease_filter
    (res: bool)
    ensures res == !allow.expires.expired(&env.block)
@prefix
    broadcast use cw1_axioms;
    proof { lemma_ns1(); }
@insert_before "let allowance =" 1
    proof {
        assert(allow_of(old(deps.storage).view(), spender_addr@) is Some ==> allow_of(old(deps.storage).view(), spender_addr@)->Some_0.balance.wf());
    }
@insert_before "~Response::new()" 1
    proof {
        let s = old(deps.storage).view();
        let t = deps.storage.view();
        assert forall|k2: Seq<u8>| k2 != akey(spender@) implies raw_opt(s, k2) == raw_opt(t, k2) by { }
        assert forall|a: Seq<char>| allow_of(t, a) is Some implies allow_of(t, a)->Some_0.balance.wf() by {
            if a != spender@ { assert(unutf8(utf8(a)) != unutf8(utf8(spender@))); assert(unpath(akey(a)) != unpath(akey(spender_addr@))); assert(raw_opt(s, akey(a)) == raw_opt(t, akey(a))); }
        }
    }
@end

// --------------------------------------------------------------------- CanExecute (C16) and queries
@fn contracts/cw1-subkeys/src/contract.rs can_execute
@ensures C16.can_execute_exact
    r is Ok ==> r->Ok_0 == exec_ok(deps.storage.view(), &env.block, sender@, seq![msg])
@prefix
    broadcast use cw1_axioms;
    proof {
        let s = deps.storage.view();
        assert(run(allow_of(s, sender@), perm_of(s, sender@), &env.block, seq![msg], 1) == step1(allow_of(s, sender@), perm_of(s, sender@), &env.block, msg)) by {
            assert(run(allow_of(s, sender@), perm_of(s, sender@), &env.block, seq![msg], 0) == Some(allow_of(s, sender@)));
            assert(seq![msg][0] == msg);
        }
        assert(seq![msg].len() == 1);
    }
@end

@fn contracts/cw1-subkeys/src/contract.rs query_can_execute
@ensures C16.query_can_execute_exact
    r is Ok ==> r->Ok_0.can_execute == exec_ok(deps.storage.view(), &env.block, sender@, seq![msg])
@end

@fn contracts/cw1-subkeys/src/contract.rs query_allowance [closures: 1]
@ensures C08.query_allowance_hides_expired
    r is Ok ==> match base_allowance(allow_of(deps.storage.view(), spender@), &env.block) {
        Some(a) => r->Ok_0 == a,
        None => r->Ok_0.balance.0@.len() == 0 && r->Ok_0.expires == (Expiration::Never {}),
    }
@closure_types 1
    allow: &Allowance
@closure 1 C08.query_allowance_filter
    (res: bool)
    ensures res == !allow.expires.expired(&env.block)
@prefix
    broadcast use cw1_axioms;
@end

@fn contracts/cw1-subkeys/src/contract.rs query_permissions
@ensures C07.query_permissions
    r is Ok ==> r->Ok_0 == (match perm_of(deps.storage.view(), spender@) { Some(p) => p, None => Permissions { delegate: false, redelegate: false, undelegate: false, withdraw: false } })
@prefix
    broadcast use cw1_axioms;
@end

@fn contracts/cw1-subkeys/src/contract.rs instantiate
@requires
    old(deps.storage).view() == SMap::<Seq<u8>, Seq<u8>>::empty()
@ensures C17.instantiate_exact C08
    r is Ok ==> admin_list(final(deps.storage).view()) is Some && admin_list(final(deps.storage).view())->Some_0.mutable == msg.mutable
        && admin_list(final(deps.storage).view())->Some_0.admins@.len() == msg.admins@.len()
        && (forall|i: int| 0 <= i < msg.admins@.len() ==> (#[trigger] admin_list(final(deps.storage).view())->Some_0.admins@[i])@ == msg.admins@[i]@)
        && inv_wf(final(deps.storage).view())
@prefix
    broadcast use cw1_axioms;
    proof { lemma_ns1(); }
@insert_before "Ok(result)" 1
    proof {
        let t = deps.storage.view();
        assert forall|a: Seq<char>| allow_of(t, a) is None by {
            assert(unpath(akey(a)).0 == "allowances"@);
            assert(unpath(cw2_key()).0 == "contract_info"@ && unpath(al_key()).0 == "admin_list"@);
            assert(!t.contains_key(akey(a)));
        }
    }
@end

pub open spec fn step_msg(s: Raw, t: Raw, sender: Seq<char>, b: &BlockInfo, msg: ExecuteMsg<Empty>) -> bool {
    match msg {
        ExecuteMsg::Execute { msgs } => exec_ok(s, b, sender, msgs@) && frame_but(s, t, akey(sender))
            && (if listed(admin_list(s)->Some_0.admins@, sender) { t == s }
                else { Some(allow_of(t, sender)) == run(allow_of(s, sender), perm_of(s, sender), b, msgs@, msgs@.len() as int) }),
        ExecuteMsg::Freeze {} => admin_list(s) is Some && admin_list(s)->Some_0.mutable && listed(admin_list(s)->Some_0.admins@, sender)
            && t == s.insert(al_key(), (AdminList { admins: admin_list(s)->Some_0.admins, mutable: false }).ser()),
        ExecuteMsg::UpdateAdmins { admins } => admin_list(s) is Some && admin_list(s)->Some_0.mutable && listed(admin_list(s)->Some_0.admins@, sender)
            && admin_list(t) is Some && admin_list(t)->Some_0.mutable && t == s.insert(al_key(), admin_list(t)->Some_0.ser()),
        ExecuteMsg::IncreaseAllowance { spender, amount, expires } => step_increase(s, t, sender, spender@, amount, expires, b),
        ExecuteMsg::DecreaseAllowance { spender, amount, expires } => step_decrease(s, t, sender, spender@, amount, expires, b),
        ExecuteMsg::SetPermissions { spender, permissions } => step_set_permissions(s, t, sender, spender@, permissions),
    }
}

@fn contracts/cw1-subkeys/src/contract.rs execute
@requires
    inv_wf(old(deps.storage).view())
@ensures C17.execute_step C07 C08
    r is Ok ==> step_msg(old(deps.storage).view(), final(deps.storage).view(), info.sender@, &env.block, msg)
@ensures C07.execute_relay
    r is Ok ==> (match msg { ExecuteMsg::Execute { msgs } => r->Ok_0.messages@ == submsgs_of(msgs@), _ => r->Ok_0.messages@.len() == 0 })
@ensures C08.execute_inv
    r is Ok ==> inv_wf(final(deps.storage).view())
@prefix
    broadcast use cw1_axioms;
    proof { lemma_ns1(); }
@end

// ===================================================================== lemmas (C08, C16, C17)
pub open spec fn amt_of(a: Option<Allowance>, d: Seq<char>) -> nat { match a { Some(x) => x.balance.amt(d), None => 0 } }
pub open spec fn wf_opt(a: Option<Allowance>) -> bool { a is Some ==> a->Some_0.balance.wf() }
/// native tokens of denomination `d` relayed by the first `n` messages
pub open spec fn sent_of<T>(msgs: Seq<CosmosMsg<T>>, d: Seq<char>, n: int) -> nat decreases n {
    if n <= 0 { 0 } else {
        sent_of(msgs, d, n - 1) + (match msgs[n - 1] { CosmosMsg::Bank(BankMsg::Send { to_address, amount }) => coins_total(amount@, d), _ => 0 })
    }
}
// serves: C08
/// the allowance left after a run of messages is the initial one minus exactly what was sent, per denomination
pub proof fn lemma_run_amounts<T>(a: Option<Allowance>, perm: Option<Permissions>, b: &BlockInfo, msgs: Seq<CosmosMsg<T>>, n: int, d: Seq<char>)
    requires wf_opt(a), 0 <= n <= msgs.len(), run(a, perm, b, msgs, n) is Some
    ensures wf_opt(run(a, perm, b, msgs, n)->Some_0),
        amt_of(run(a, perm, b, msgs, n)->Some_0, d) + sent_of(msgs, d, n) == amt_of(a, d),
        // every relayed Bank send happened under an unexpired allowance
        forall|i: int| 0 <= i < n && (#[trigger] msgs[i]) is Bank ==> a is Some && !a->Some_0.expires.expired(b),
    decreases n
{
    broadcast use ax_nb_sub;
    if n > 0 {
        lemma_run_amounts(a, perm, b, msgs, n - 1, d);
        let x = run(a, perm, b, msgs, n - 1)->Some_0;
        match msgs[n - 1] {
            CosmosMsg::Bank(BankMsg::Send { to_address, amount }) => {
                assert(nb_sub(x->Some_0.balance, amount@).wf());
                lemma_run_expiry(a, perm, b, msgs, n - 1);
            }
            _ => {}
        }
    }
}
pub proof fn lemma_run_expiry<T>(a: Option<Allowance>, perm: Option<Permissions>, b: &BlockInfo, msgs: Seq<CosmosMsg<T>>, n: int)
    requires 0 <= n <= msgs.len(), run(a, perm, b, msgs, n) is Some
    ensures run(a, perm, b, msgs, n)->Some_0 is Some ==> a is Some && run(a, perm, b, msgs, n)->Some_0->Some_0.expires == a->Some_0.expires,
        run(a, perm, b, msgs, n)->Some_0 is None ==> a is None,
    decreases n
{
    if n > 0 { lemma_run_expiry(a, perm, b, msgs, n - 1); }
}

// serves: C16
/// CanExecute answers true exactly when Execute by that sender carrying just that message succeeds on the same state and block
pub proof fn lemma_c16_subkeys(s: Raw, b: &BlockInfo, sender: Seq<char>, msg: CosmosMsg<Empty>, can: StdResult<CanExecuteResponse>, exec_is_ok: bool)
    requires
        can is Ok ==> can->Ok_0.can_execute == exec_ok(s, b, sender, seq![msg]),      // contract of query_can_execute
        exec_is_ok <==> exec_ok(s, b, sender, seq![msg]),                               // contract of execute_execute with msgs == [msg]
    ensures can is Ok ==> (can->Ok_0.can_execute <==> exec_is_ok)
{
}

pub open spec fn granted_by(sender: Seq<char>, msg: ExecuteMsg<Empty>, a: Seq<char>, d: Seq<char>) -> nat {
    match msg { ExecuteMsg::IncreaseAllowance { spender, amount, expires } => if spender@ == a && amount.denom@ == d { amount.amount@ } else { 0 }, _ => 0 }
}
pub open spec fn relayed_by(sender: Seq<char>, admin: bool, msg: ExecuteMsg<Empty>, a: Seq<char>, d: Seq<char>) -> nat {
    match msg { ExecuteMsg::Execute { msgs } => if sender == a && !admin { sent_of(msgs@, d, msgs@.len() as int) } else { 0 }, _ => 0 }
}
// serves: C08 C17
/// per step, per subkey `a` and denomination `d`: what `a` relayed plus what is left never exceeds what was there plus what admins
/// granted in this call; an allowance or permission entry changes only by an admin's call naming it or by the subkey's own spending
pub proof fn lemma_c08_step(s: Raw, t: Raw, sender: Seq<char>, b: &BlockInfo, msg: ExecuteMsg<Empty>, a: Seq<char>, d: Seq<char>)
    requires inv_wf(s), step_msg(s, t, sender, b, msg), admin_list(s) is Some
    ensures
        amt_of(allow_of(t, a), d) + relayed_by(sender, listed(admin_list(s)->Some_0.admins@, sender), msg, a, d)
            <= amt_of(allow_of(s, a), d) + granted_by(sender, msg, a, d),
        allow_of(t, a) != allow_of(s, a) ==> match msg {
            ExecuteMsg::Execute { .. } => sender == a && !listed(admin_list(s)->Some_0.admins@, sender),
            ExecuteMsg::IncreaseAllowance { spender, .. } => spender@ == a && is_admin_of(s, sender),
            ExecuteMsg::DecreaseAllowance { spender, .. } => spender@ == a && is_admin_of(s, sender),
            _ => false,
        },
        perm_of(t, a) != perm_of(s, a) ==> msg is SetPermissions && is_admin_of(s, sender) && msg->SetPermissions_spender@ == a,
{
    broadcast use cw1_axioms;
    lemma_ns1();
    assert(wf_opt(allow_of(s, a)));
    assert(wf_opt(allow_of(s, sender)));
    match msg {
        ExecuteMsg::Execute { msgs } => {
            if !listed(admin_list(s)->Some_0.admins@, sender) {
                lemma_run_amounts(allow_of(s, sender), perm_of(s, sender), b, msgs@, msgs@.len() as int, d);
            }
            if a != sender {
                assert(unutf8(utf8(a)) != unutf8(utf8(sender)));
                assert(unpath(akey(a)) != unpath(akey(sender)));
                assert(raw_opt(s, akey(a)) == raw_opt(t, akey(a)));
            }
            assert(unpath(pmkey(a)) != unpath(akey(sender)));
            assert(raw_opt(s, pmkey(a)) == raw_opt(t, pmkey(a)));
        }
        ExecuteMsg::Freeze {} => { assert(unpath(akey(a)) != unpath(al_key()) && unpath(pmkey(a)) != unpath(al_key())); }
        ExecuteMsg::UpdateAdmins { admins } => { assert(unpath(akey(a)) != unpath(al_key()) && unpath(pmkey(a)) != unpath(al_key())); }
        ExecuteMsg::IncreaseAllowance { spender, amount, expires } => {
            assert(unpath(pmkey(a)) != unpath(akey(spender@)));
            if a != spender@ { assert(unutf8(utf8(a)) != unutf8(utf8(spender@))); assert(unpath(akey(a)) != unpath(akey(spender@))); }
        }
        ExecuteMsg::DecreaseAllowance { spender, amount, expires } => {
            assert(unpath(pmkey(a)) != unpath(akey(spender@)));
            assert(raw_opt(s, pmkey(a)) == raw_opt(t, pmkey(a)));
            if a != spender@ {
                assert(unutf8(utf8(a)) != unutf8(utf8(spender@))); assert(unpath(akey(a)) != unpath(akey(spender@)));
                assert(raw_opt(s, akey(a)) == raw_opt(t, akey(a)));
            }
        }
        ExecuteMsg::SetPermissions { spender, permissions } => {
            assert(unpath(akey(a)) != unpath(pmkey(spender@)));
            if a != spender@ { assert(unutf8(utf8(a)) != unutf8(utf8(spender@))); assert(unpath(pmkey(a)) != unpath(pmkey(spender@))); }
        }
    }
}
// serves: C17
/// per step: the admin list changes only by UpdateAdmins / Freeze from a listed admin while mutable; frozen stays frozen
pub proof fn lemma_c17_step(s: Raw, t: Raw, sender: Seq<char>, b: &BlockInfo, msg: ExecuteMsg<Empty>)
    requires admin_list(s) is Some, step_msg(s, t, sender, b, msg)
    ensures admin_list(t) is Some,
        admin_list(t) != admin_list(s) ==> (msg is UpdateAdmins || msg is Freeze) && admin_list(s)->Some_0.mutable && listed(admin_list(s)->Some_0.admins@, sender),
        !admin_list(s)->Some_0.mutable ==> admin_list(t) == admin_list(s),
{
    broadcast use cw1_axioms;
    lemma_ns1();
    match msg {
        ExecuteMsg::Execute { msgs } => { assert(unpath(al_key()) != unpath(akey(sender))); assert(raw_opt(s, al_key()) == raw_opt(t, al_key())); }
        ExecuteMsg::IncreaseAllowance { spender, amount, expires } => { assert(unpath(al_key()) != unpath(akey(spender@))); }
        ExecuteMsg::DecreaseAllowance { spender, amount, expires } => { assert(unpath(al_key()) != unpath(akey(spender@))); assert(raw_opt(s, al_key()) == raw_opt(t, al_key())); }
        ExecuteMsg::SetPermissions { spender, permissions } => { assert(unpath(al_key()) != unpath(pmkey(spender@))); }
        _ => {}
    }
}

/// one successful execute call of a history (failed calls change nothing and relay nothing, A1)
pub ghost struct Call { pub sender: Seq<char>, pub block: BlockInfo, pub msg: ExecuteMsg<Empty> }
pub open spec fn call_at(tr: Seq<Raw>, cs: Seq<Call>, k: int) -> bool {
    inv_wf(tr[k]) && admin_list(tr[k]) is Some && step_msg(tr[k], tr[k + 1], cs[k].sender, &cs[k].block, cs[k].msg)
}
/// what subkey `a` relayed / what admins granted to `a`, in denomination `d`, over the first n calls
pub open spec fn relayed_upto(tr: Seq<Raw>, cs: Seq<Call>, a: Seq<char>, d: Seq<char>, n: int) -> nat decreases n {
    if n <= 0 { 0 } else { relayed_upto(tr, cs, a, d, n - 1) + relayed_by(cs[n - 1].sender, listed(admin_list(tr[n - 1])->Some_0.admins@, cs[n - 1].sender), cs[n - 1].msg, a, d) }
}
pub open spec fn granted_upto(cs: Seq<Call>, a: Seq<char>, d: Seq<char>, n: int) -> nat decreases n {
    if n <= 0 { 0 } else { granted_upto(cs, a, d, n - 1) + granted_by(cs[n - 1].sender, cs[n - 1].msg, a, d) }
}
// serves: C08
/// over every history of successful calls: what a subkey has relayed so far plus what is left of its allowance never exceeds what
/// it started with plus everything admins granted to it, per denomination
pub proof fn lemma_c08_history(tr: Seq<Raw>, cs: Seq<Call>, a: Seq<char>, d: Seq<char>, n: int)
    requires tr.len() == cs.len() + 1, 0 <= n <= cs.len(), forall|k: int| 0 <= k < cs.len() ==> #[trigger] call_at(tr, cs, k)
    ensures amt_of(allow_of(tr[n], a), d) + relayed_upto(tr, cs, a, d, n) <= amt_of(allow_of(tr[0], a), d) + granted_upto(cs, a, d, n)
    decreases n
{
    if n > 0 {
        lemma_c08_history(tr, cs, a, d, n - 1);
        assert(call_at(tr, cs, n - 1));
        lemma_c08_step(tr[n - 1], tr[n], cs[n - 1].sender, &cs[n - 1].block, cs[n - 1].msg, a, d);
    }
}

// ===================================================================== C20: listings of cw1-subkeys
@struct contracts/cw1-subkeys/src/msg.rs AllAllowancesResponse
@struct contracts/cw1-subkeys/src/msg.rs AllowanceInfo
@struct contracts/cw1-subkeys/src/msg.rs AllPermissionsResponse
@struct contracts/cw1-subkeys/src/msg.rs PermissionsInfo
@const contracts/cw1-subkeys/src/contract.rs MAX_LIMIT
@const contracts/cw1-subkeys/src/contract.rs DEFAULT_LIMIT
@include inc/paging.vsi
pub open spec fn str_cursor(c: Option<String>) -> Option<Seq<u8>> { match c { Some(s) => Some(utf8(s@)), None => None } }

@fn contracts/cw1-subkeys/src/contract.rs calc_limit
@ensures C20.calc_limit C08 C07
    r as int == page_limit(request)
@end

/// a stored allowance entry is live (listed) unless it parses and has expired at the query block
pub open spec fn live_at(b: BlockInfo) -> spec_fn(Entry) -> bool {
    |e: Entry| match Allowance::de(e.1) { Some(a) => (forall|k: Addr| #[trigger] utf8(k@) != e.0) || !a.expires.expired(&b), None => true }
}
pub open spec fn item_live(x: StdResult<(Addr, Allowance)>, b: BlockInfo) -> bool {
    match x { Ok((_, a)) => !a.expires.expired(&b), Err(_) => true }
}

@fn contracts/cw1-subkeys/src/contract.rs query_all_allowances [closures: 4]
@ensures C20.all_allowances_page C08
    r is Ok ==> ({
        let pg = page_f(listing(deps.storage.view(), "allowances"@, Seq::<u8>::empty(), false), str_cursor(start_after), limit, live_at(env.block));
        r->Ok_0.allowances@.len() == pg.len() && forall|i: int| 0 <= i < pg.len() ==> utf8((#[trigger] r->Ok_0.allowances@[i]).spender@) == pg[i].0
            && Allowance::de(pg[i].1) == Some(Allowance { balance: r->Ok_0.allowances@[i].balance, expires: r->Ok_0.allowances@[i].expires })
            && !r->Ok_0.allowances@[i].expires.expired(&env.block)
    })
@closure_types 1
    s: String
@closure 1 C20.all_allowances_cursor
    (res: Bound<&Addr>)
    ensures res.raw() == (utf8(s@), false)
@closure_types 2
    item: &StdResult<(Addr, Allowance)>
@closure 2 C20.all_allowances_filter
    (res: bool)
    ensures res == item_live(*item, env.block)
@closure_types 3
    item: StdResult<(Addr, Allowance)>
@closure 3 C20.all_allowances_map
    (res: StdResult<AllowanceInfo>)
    ensures match item { Ok((a, w)) => res is Ok && res->Ok_0.spender@ == a@ && res->Ok_0.balance == w.balance && res->Ok_0.expires == w.expires, Err(_) => res is Err }
@closure_types 4
    __p4_0: (Addr, Allowance)
@closure 4 C20.all_allowances_entry
    (res: AllowanceInfo)
    ensures res.spender@ == __p4_0.0@ && res.balance == __p4_0.1.balance && res.expires == __p4_0.1.expires
@split_before ".take(limit)" 1
    proof {
        let sel = scan(listing(deps.storage.view(), "allowances"@, Seq::<u8>::empty(), false), match cur { Some(c) => Some((c, false)), None => None }, None, Order::Ascending);
        let kb = |o: Addr| <&Addr as KeyOut>::out_kb(o);
        // the unnamed intermediate results of the chain: the ranged items and the predicate the filter closure computes
        assert(exists|items0: Seq<StdResult<(Addr, Allowance)>>, p: spec_fn(StdResult<(Addr, Allowance)>) -> bool|
            #![trigger typed_items(items0, sel, kb), keep(items0, p)]
            typed_items(items0, sel, kb) && __s1.items@ == keep(items0, p)
            && forall|i: int| 0 <= i < items0.len() ==> #[trigger] p(items0[i]) == item_live(items0[i], env.block));
        let (items0, p) = choose|items0: Seq<StdResult<(Addr, Allowance)>>, p: spec_fn(StdResult<(Addr, Allowance)>) -> bool|
            #![trigger typed_items(items0, sel, kb), keep(items0, p)]
            typed_items(items0, sel, kb) && __s1.items@ == keep(items0, p)
            && forall|i: int| 0 <= i < items0.len() ==> #[trigger] p(items0[i]) == item_live(items0[i], env.block);
        assert forall|i: int| 0 <= i < items0.len() implies p(#[trigger] items0[i]) == live_at(env.block)(sel[i]) by {
            match items0[i] {
                Ok((k, v)) => { assert(kb(k) == sel[i].0); assert(utf8(k@) == sel[i].0); },
                Err(_) => { if Allowance::de(sel[i].1) is Some { assert forall|k: Addr| #[trigger] utf8(k@) != sel[i].0 by { assert(kb(k) == utf8(k@)); } } },
            }
        }
        lemma_keep_typed(items0, sel, kb, p, live_at(env.block));
        lemma_keep_sat(sel, live_at(env.block));
        assert(typed_items(__s1.items@, keep(sel, live_at(env.block)), kb));
    }
@prefix
    broadcast use string_conv, ax_bytes_from_string;
    let ghost cur = str_cursor(start_after);
@end

@fn contracts/cw1-subkeys/src/contract.rs query_all_permissions [closures: 3]
@ensures C20.all_permissions_page C07
    r is Ok ==> ({
        let pg = page(listing(deps.storage.view(), "permissions"@, Seq::<u8>::empty(), false), str_cursor(start_after), limit);
        r->Ok_0.permissions@.len() == pg.len() && forall|i: int| 0 <= i < pg.len() ==> utf8((#[trigger] r->Ok_0.permissions@[i]).spender@) == pg[i].0
            && Permissions::de(pg[i].1) == Some(r->Ok_0.permissions@[i].permissions)
    })
@closure_types 1
    s: String
@closure 1 C20.all_permissions_cursor
    (res: Bound<&Addr>)
    ensures res.raw() == (utf8(s@), false)
@closure_types 2
    item: StdResult<(Addr, Permissions)>
@closure 2 C20.all_permissions_map
    (res: StdResult<PermissionsInfo>)
    ensures match item { Ok((a, w)) => res is Ok && res->Ok_0.spender@ == a@ && res->Ok_0.permissions == w, Err(_) => res is Err }
@closure_types 3
    __p3_0: (Addr, Permissions)
@closure 3 C20.all_permissions_entry
    (res: PermissionsInfo)
    ensures res.spender@ == __p3_0.0@ && res.permissions == __p3_0.1
@prefix
    broadcast use string_conv, ax_bytes_from_string;
@end

// ===================================================================== the query entry point routes every message to its query function
@enum contracts/cw1-subkeys/src/msg.rs QueryMsg [noderive]
impl JsonT for AdminListResponse { uninterp spec fn json(self) -> Seq<u8>; uninterp spec fn unjson(b: Seq<u8>) -> Option<Self>; }
impl JsonT for CanExecuteResponse { uninterp spec fn json(self) -> Seq<u8>; uninterp spec fn unjson(b: Seq<u8>) -> Option<Self>; }
impl JsonT for Allowance { uninterp spec fn json(self) -> Seq<u8>; uninterp spec fn unjson(b: Seq<u8>) -> Option<Self>; }
impl JsonT for Permissions { uninterp spec fn json(self) -> Seq<u8>; uninterp spec fn unjson(b: Seq<u8>) -> Option<Self>; }
impl JsonT for AllAllowancesResponse { uninterp spec fn json(self) -> Seq<u8>; uninterp spec fn unjson(b: Seq<u8>) -> Option<Self>; }
impl JsonT for AllPermissionsResponse { uninterp spec fn json(self) -> Seq<u8>; uninterp spec fn unjson(b: Seq<u8>) -> Option<Self>; }
@fn contracts/cw1-subkeys/src/contract.rs query
@ensures C16.query_routes C07 C08 C17 C20
    r is Ok ==> match msg {
        QueryMsg::AdminList {} => exists|x: AdminListResponse| r->Ok_0@ == x.json() && call_ensures(query_admin_list, (deps,), Ok::<AdminListResponse, StdError>(x)),
        QueryMsg::Allowance { spender } => exists|x: Allowance| r->Ok_0@ == x.json() && call_ensures(query_allowance, (deps, env, spender), Ok::<Allowance, StdError>(x)),
        QueryMsg::Permissions { spender } => exists|x: Permissions| r->Ok_0@ == x.json() && call_ensures(query_permissions, (deps, spender), Ok::<Permissions, StdError>(x)),
        QueryMsg::CanExecute { sender, msg } => exists|x: CanExecuteResponse| r->Ok_0@ == x.json() && call_ensures(query_can_execute, (deps, env, sender, msg), Ok::<CanExecuteResponse, StdError>(x)),
        QueryMsg::AllAllowances { start_after, limit } => exists|x: AllAllowancesResponse| r->Ok_0@ == x.json() && call_ensures(query_all_allowances, (deps, env, start_after, limit), Ok::<AllAllowancesResponse, StdError>(x)),
        QueryMsg::AllPermissions { start_after, limit } => exists|x: AllPermissionsResponse| r->Ok_0@ == x.json() && call_ensures(query_all_permissions, (deps, start_after, limit), Ok::<AllPermissionsResponse, StdError>(x)),
    }
@end
