@unit ics20
@shim core.rs cw_utils.rs std_more.rs cw2.rs std_adapters.rs cw_controllers.rs ibc.rs range.rs
@properties C11 C12 C18 C20

// ===================================================================== data and state
@struct packages/cw20/src/coin.rs Cw20Coin
@struct packages/cw20/src/receiver.rs Cw20ReceiveMsg
@enum packages/cw20/src/msg.rs Cw20ExecuteMsg
@enum packages/cw20/src/logo.rs Logo
@enum packages/cw20/src/logo.rs EmbeddedLogo
impl JsonT for Cw20ExecuteMsg { uninterp spec fn json(self) -> Seq<u8>; uninterp spec fn unjson(b: Seq<u8>) -> Option<Self>; }
@enum contracts/cw20-ics20/src/amount.rs Amount
@enum contracts/cw20-ics20/src/error.rs ContractError [display]
// `enum Never {}` (uninhabited) is not accepted by Verus; an opaque stand-in that is never constructed by the extracted code
pub struct Never { pub never: u8 }
@struct contracts/cw20-ics20/src/state.rs ChannelState [default: ChannelState { outstanding: Uint128(0), total_sent: Uint128(0) }]
@struct contracts/cw20-ics20/src/state.rs Config
@struct contracts/cw20-ics20/src/state.rs ChannelInfo
@struct contracts/cw20-ics20/src/state.rs AllowInfo
@struct contracts/cw20-ics20/src/state.rs ReplyArgs
@struct contracts/cw20-ics20/src/ibc.rs Ics20Packet [noderive; derive: Clone]
@enum contracts/cw20-ics20/src/ibc.rs Ics20Ack
@struct contracts/cw20-ics20/src/msg.rs InitMsg
@struct contracts/cw20-ics20/src/msg.rs AllowMsg
@struct contracts/cw20-ics20/src/msg.rs TransferMsg
@enum contracts/cw20-ics20/src/msg.rs ExecuteMsg
impl SerT for ChannelState { uninterp spec fn ser(self) -> Seq<u8>; uninterp spec fn de(b: Seq<u8>) -> Option<Self>; }
impl SerT for Config { uninterp spec fn ser(self) -> Seq<u8>; uninterp spec fn de(b: Seq<u8>) -> Option<Self>; }
impl SerT for ChannelInfo { uninterp spec fn ser(self) -> Seq<u8>; uninterp spec fn de(b: Seq<u8>) -> Option<Self>; }
impl SerT for AllowInfo { uninterp spec fn ser(self) -> Seq<u8>; uninterp spec fn de(b: Seq<u8>) -> Option<Self>; }
impl SerT for ReplyArgs { uninterp spec fn ser(self) -> Seq<u8>; uninterp spec fn de(b: Seq<u8>) -> Option<Self>; }
impl JsonT for Ics20Packet { uninterp spec fn json(self) -> Seq<u8>; uninterp spec fn unjson(b: Seq<u8>) -> Option<Self>; }
impl JsonT for Ics20Ack { uninterp spec fn json(self) -> Seq<u8>; uninterp spec fn unjson(b: Seq<u8>) -> Option<Self>; }
impl JsonT for TransferMsg { uninterp spec fn json(self) -> Seq<u8>; uninterp spec fn unjson(b: Seq<u8>) -> Option<Self>; }

@const contracts/cw20-ics20/src/contract.rs CONTRACT_NAME
@const contracts/cw20-ics20/src/contract.rs CONTRACT_VERSION
@const contracts/cw20-ics20/src/ibc.rs RECEIVE_ID
@const contracts/cw20-ics20/src/ibc.rs ACK_FAILURE_ID
@const contracts/cw20-ics20/src/state.rs ADMIN
@const contracts/cw20-ics20/src/state.rs CONFIG
@const contracts/cw20-ics20/src/state.rs REPLY_ARGS
@const contracts/cw20-ics20/src/state.rs CHANNEL_INFO
@const contracts/cw20-ics20/src/state.rs CHANNEL_STATE
@const contracts/cw20-ics20/src/state.rs ALLOW_LIST

pub open spec fn cskey(ch: Seq<char>, d: Seq<char>) -> Seq<u8> { path("channel_state"@, pair_kb(utf8(ch), utf8(d))) }
pub open spec fn cs_of(s: Raw, ch: Seq<char>, d: Seq<char>) -> Option<ChannelState> { raw_get::<ChannelState>(s, cskey(ch, d)) }
/// the channel's outstanding balance for a denomination, as the contract reports it
pub open spec fn outstanding(s: Raw, ch: Seq<char>, d: Seq<char>) -> nat { match cs_of(s, ch, d) { Some(c) => c.outstanding@, None => 0 } }
pub open spec fn total_sent(s: Raw, ch: Seq<char>, d: Seq<char>) -> nat { match cs_of(s, ch, d) { Some(c) => c.total_sent@, None => 0 } }
pub open spec fn allow_key(a: Seq<char>) -> Seq<u8> { path("allow_list"@, utf8(a)) }
pub open spec fn allow_of(s: Raw, a: Seq<char>) -> Option<AllowInfo> { raw_get::<AllowInfo>(s, allow_key(a)) }
pub open spec fn config_of(s: Raw) -> Option<Config> { raw_get::<Config>(s, item_key("ics20_config"@)) }
pub open spec fn chan_info(s: Raw, ch: Seq<char>) -> bool { s.contains_key(path("channel_info"@, utf8(ch))) }
pub open spec fn reply_args_key() -> Seq<u8> { item_key("reply_args"@) }

pub broadcast group ics_axioms { ax_path, ax_utf8, ax_ser, ax_json, ax_pair_kb, addr_ext }
pub proof fn lemma_ns6()
    ensures "channel_state"@ != "allow_list"@, "channel_state"@ != "ics20_config"@, "channel_state"@ != "reply_args"@, "channel_state"@ != "channel_info"@,
        "channel_state"@ != "admin"@, "channel_state"@ != "contract_info"@,
        "allow_list"@ != "ics20_config"@, "allow_list"@ != "reply_args"@, "allow_list"@ != "channel_info"@, "allow_list"@ != "admin"@, "allow_list"@ != "contract_info"@,
        "ics20_config"@ != "reply_args"@, "ics20_config"@ != "channel_info"@, "ics20_config"@ != "admin"@, "ics20_config"@ != "contract_info"@,
        "reply_args"@ != "channel_info"@, "reply_args"@ != "admin"@, "reply_args"@ != "contract_info"@,
        "channel_info"@ != "admin"@, "channel_info"@ != "contract_info"@, "admin"@ != "contract_info"@,
{
    reveal_strlit("channel_state"); reveal_strlit("allow_list"); reveal_strlit("ics20_config"); reveal_strlit("reply_args");
    reveal_strlit("channel_info"); reveal_strlit("admin"); reveal_strlit("contract_info");
    assert("channel_state"@.len() == 13); assert("allow_list"@.len() == 10); assert("ics20_config"@.len() == 12); assert("reply_args"@.len() == 10);
    assert("channel_info"@.len() == 12); assert("admin"@.len() == 5); assert("contract_info"@.len() == 13);
    assert("channel_state"@[8] == 's'); assert("contract_info"@[8] == '_');
    assert("allow_list"@[0] == 'a'); assert("reply_args"@[0] == 'r');
    assert("ics20_config"@[0] == 'i'); assert("channel_info"@[0] == 'c');
}

/// state after the channel balance of (ch, d) is set to (out, sent)
pub open spec fn cs_set(s: Raw, ch: Seq<char>, d: Seq<char>, out: nat, sent: nat) -> Raw {
    s.insert(cskey(ch, d), (ChannelState { outstanding: Uint128(out as u128), total_sent: Uint128(sent as u128) }).ser())
}

// ===================================================================== state.rs: channel balances
@fn contracts/cw20-ics20/src/state.rs increase_channel_balance [closures: 1]
@ensures C11.increase_exact C12
    r is Ok ==> outstanding(old(storage).view(), channel@, denom@) + amount@ <= u128::MAX && total_sent(old(storage).view(), channel@, denom@) + amount@ <= u128::MAX
        && final(storage).view() == cs_set(old(storage).view(), channel@, denom@, outstanding(old(storage).view(), channel@, denom@) + amount@, total_sent(old(storage).view(), channel@, denom@) + amount@)
@ensures C12.increase_succeeds C11
    (!old(storage).view().contains_key(cskey(channel@, denom@)) || cs_of(old(storage).view(), channel@, denom@) is Some) ==> r is Ok
@closure 1 C11.increase_closure
    (res: StdResult<ChannelState>)
    ensures res is Ok, res is Ok ==> orig.unwrap_or(ChannelState { outstanding: Uint128(0), total_sent: Uint128(0) }).outstanding.0 + amount.0 <= u128::MAX
        && orig.unwrap_or(ChannelState { outstanding: Uint128(0), total_sent: Uint128(0) }).total_sent.0 + amount.0 <= u128::MAX
        && res->Ok_0 == (ChannelState {
            outstanding: Uint128((orig.unwrap_or(ChannelState { outstanding: Uint128(0), total_sent: Uint128(0) }).outstanding.0 + amount.0) as u128),
            total_sent: Uint128((orig.unwrap_or(ChannelState { outstanding: Uint128(0), total_sent: Uint128(0) }).total_sent.0 + amount.0) as u128) })
@prefix
    broadcast use ics_axioms;
@end

@fn contracts/cw20-ics20/src/state.rs reduce_channel_balance [closures: 1; no_panic: 1]
@ensures C11.reduce_checked C12
    r is Ok ==> cs_of(old(storage).view(), channel@, denom@) is Some && outstanding(old(storage).view(), channel@, denom@) >= amount@
        && final(storage).view() == cs_set(old(storage).view(), channel@, denom@, (outstanding(old(storage).view(), channel@, denom@) - amount@) as nat, total_sent(old(storage).view(), channel@, denom@))
@ensures C12.reduce_err_no_change C11
    r is Err ==> final(storage).view() == old(storage).view()
@ensures C12.reduce_succeeds_when_covered C11
    cs_of(old(storage).view(), channel@, denom@) is Some && outstanding(old(storage).view(), channel@, denom@) >= amount@ ==> r is Ok
@closure 1 C11.reduce_closure
    (res: Result<ChannelState, ContractError>)
    ensures res is Ok ==> orig is Some && orig->Some_0.outstanding.0 >= amount.0
        && res->Ok_0 == (ChannelState { outstanding: Uint128((orig->Some_0.outstanding.0 - amount.0) as u128), total_sent: orig->Some_0.total_sent }),
        (orig is Some && orig->Some_0.outstanding.0 >= amount.0) ==> res is Ok
@prefix
    broadcast use ics_axioms;
@end

@fn contracts/cw20-ics20/src/state.rs undo_reduce_channel_balance [closures: 1]
@ensures C11.undo_exact C12
    r is Ok ==> outstanding(old(storage).view(), channel@, denom@) + amount@ <= u128::MAX
        && final(storage).view() == cs_set(old(storage).view(), channel@, denom@, outstanding(old(storage).view(), channel@, denom@) + amount@, total_sent(old(storage).view(), channel@, denom@))
@ensures C12.undo_succeeds C11
    (!old(storage).view().contains_key(cskey(channel@, denom@)) || cs_of(old(storage).view(), channel@, denom@) is Some) ==> r is Ok
@closure 1 C11.undo_closure
    (res: StdResult<ChannelState>)
    ensures res is Ok, res is Ok ==> orig.unwrap_or(ChannelState { outstanding: Uint128(0), total_sent: Uint128(0) }).outstanding.0 + amount.0 <= u128::MAX
        && res->Ok_0 == (ChannelState {
            outstanding: Uint128((orig.unwrap_or(ChannelState { outstanding: Uint128(0), total_sent: Uint128(0) }).outstanding.0 + amount.0) as u128),
            total_sent: orig.unwrap_or(ChannelState { outstanding: Uint128(0), total_sent: Uint128(0) }).total_sent })
@prefix
    broadcast use ics_axioms;
@end

// ===================================================================== amount.rs
/// the ICS-20 denomination string of an amount ("cw20:<address>" for cw20 tokens) -- uninterpreted; the two string functions
/// `Amount::denom` / `Amount::from_parts` are ASSUMED leaves related only through these spec functions (bounded Kani stand-in)
pub uninterp spec fn denom_of(a: Amount) -> Seq<char>;
pub uninterp spec fn parts_amount(denom: Seq<char>, amount: Uint128) -> Amount;
pub open spec fn amount_of(a: Amount) -> Uint128 { match a { Amount::Native(c) => c.amount, Amount::Cw20(c) => c.amount } }

// ASSUMED LEAF: `starts_with("cw20:")` / `get(5..)` string code
@method contracts/cw20-ics20/src/amount.rs Amount from_parts [assume]
@ensures C11.from_parts
    r == parts_amount(denom@, amount), amount_of(r) == amount
@end
// ASSUMED LEAF: `format!("cw20:{}", ..)` string code
@method contracts/cw20-ics20/src/amount.rs Amount denom [assume]
@ensures C11.denom
    r@ == denom_of(*self)
@end

@method contracts/cw20-ics20/src/amount.rs Amount amount
@ensures C12.amount
    r == amount_of(*self)
@end

@method contracts/cw20-ics20/src/amount.rs Amount is_empty
@ensures C12.is_empty
    r == (amount_of(*self).0 == 0)
@end

// ===================================================================== ibc.rs: packets, acks, payouts
@method contracts/cw20-ics20/src/ibc.rs Ics20Packet new
@requires
    <T as IntoSpec<String>>::obeys_into_spec()
@ensures C12.packet_new
    r.amount == amount && r.denom == into_string_spec(denom) && r.sender@ == sender@ && r.receiver@ == receiver@ && r.memo is None
@prefix
    broadcast use opt_conv, string_conv;
@end

@method contracts/cw20-ics20/src/ibc.rs Ics20Packet with_memo
@ensures C12.packet_with_memo
    r == (Ics20Packet { memo, ..self })
@end

@method contracts/cw20-ics20/src/ibc.rs Ics20Packet validate
@ensures C12.packet_amount_fits_u64
    r is Ok <==> self.amount.0 <= u64::MAX
@end

pub open spec fn ack_success_bytes() -> Seq<u8> { Ics20Ack::Result(Binary(bytes1())).json() }
pub uninterp spec fn bytes1() -> Vec<u8>;
pub open spec fn is_success_ack(b: Seq<u8>) -> bool { exists|x: Binary| b == #[trigger] Ics20Ack::Result(x).json() }
pub open spec fn is_error_ack(b: Seq<u8>) -> bool { exists|e: String| b == #[trigger] Ics20Ack::Error(e).json() }

@fn contracts/cw20-ics20/src/ibc.rs ack_success
@ensures C12.ack_success
    is_success_ack(r@)
@end

@fn contracts/cw20-ics20/src/ibc.rs ack_fail
@ensures C12.ack_fail
    is_error_ack(r@)
@end

/// the payout / refund of `a` to `to`: a bank send of exactly that coin, or a cw20 Transfer of exactly that amount on the token contract
pub open spec fn is_send_of(m: CosmosMsg<Empty>, a: Amount, to: Seq<char>) -> bool {
    match a {
        Amount::Native(coin) => m is Bank && m->Bank_0 is Send && m->Bank_0->Send_to_address@ == to
            && m->Bank_0->Send_amount@.len() == 1 && m->Bank_0->Send_amount@[0] == coin,
        Amount::Cw20(coin) => m is Wasm && m->Wasm_0 is Execute && m->Wasm_0->Execute_contract_addr@ == coin.address@
            && m->Wasm_0->Execute_funds@.len() == 0
            && exists|r: String| #![auto] r@ == to && m->Wasm_0->Execute_msg@ == (Cw20ExecuteMsg::Transfer { recipient: r, amount: coin.amount }).json(),
    }
}
@fn contracts/cw20-ics20/src/ibc.rs send_amount
@ensures C12.send_amount_exact C11
    is_send_of(r, amount, recipient@)
@prefix
    broadcast use msg_conv;
@end

/// C18: the gas limit a payout of `a` is issued with: the token's own limit if it is on the allow list, else the default; None = no such limit exists
pub open spec fn gas_limit_for(s: Raw, a: Amount) -> Option<Option<u64>> {
    match a {
        Amount::Cw20(coin) => match allow_of(s, coin.address@) {
            Some(al) => Some(al.gas_limit),
            None => match config_of(s) { Some(c) => match c.default_gas_limit { Some(b) => Some(Some(b)), None => None }, None => None },
        },
        Amount::Native(_) => Some(None),
    }
}
@fn contracts/cw20-ics20/src/ibc.rs check_gas_limit
@ensures C18.gas_limit_lookup C12
    r is Ok ==> gas_limit_for(deps.storage.view(), *amount) == Some(r->Ok_0)
@ensures C18.gas_limit_native_never_fails C12
    *amount is Native ==> r is Ok
@prefix
    broadcast use ics_axioms;
@end

// `splitn(3, '/').collect()` goes through E11 to a shim function with the ASSUMED std semantics (the parts are an uninterpreted
// function of the string); the body of parse_voucher_denom itself is verified. The thorough tier adds a bounded Kani harness that
// checks the concrete meaning (denom == port + "/" + channel + "/" + local) on the compiled function.
/// voucher_local(denom, port, channel) = Some(x) iff splitting denom at the first two '/' gives exactly [port, channel, x]
pub open spec fn voucher_local(denom: Seq<char>, port: Seq<char>, channel: Seq<char>) -> Option<Seq<char>> {
    let sp = splitn_spec(denom, 3, '/');
    if sp.len() == 3 && sp[0] == port && sp[1] == channel { Some(sp[2]) } else { None }
}
@fn contracts/cw20-ics20/src/ibc.rs parse_voucher_denom
@ensures C11.parse_voucher_denom C12
    r is Ok ==> voucher_local(voucher_denom@, remote_endpoint.port_id@, remote_endpoint.channel_id@) == Some(r->Ok_0@)
@replace E11 "voucher_denom.splitn(3, '/').collect()" 1
    str_splitn(voucher_denom, 3, '/')
@prefix
    broadcast use string_conv;
@end

/// what a successfully received packet does (C11, C12): the local denomination must carry the counterparty's port/channel
/// prefix, the channel's outstanding balance is reduced by the full amount (error if it does not cover it), and exactly one
/// payout sub-message of that amount to the receiver is issued (reply on error), with the token's gas limit
pub open spec fn step_receive(s: Raw, t: Raw, packet: IbcPacket, msgs: Seq<SubMsg<Empty>>) -> bool {
    Ics20Packet::unjson(packet.data@) is Some && ({
        let p = Ics20Packet::unjson(packet.data@)->Some_0;
        let local = voucher_local(p.denom@, packet.src.port_id@, packet.src.channel_id@);
        local is Some && ({
            let d = local->Some_0;
            let ch = packet.dest.channel_id@;
            let pay = parts_amount(d, p.amount);
            &&& outstanding(s, ch, d) >= p.amount@ && cs_of(s, ch, d) is Some
            &&& exists|ra: ReplyArgs| #![auto] ra.channel@ == ch && ra.denom@ == d && ra.amount == p.amount
                    && t == cs_set(s, ch, d, (outstanding(s, ch, d) - p.amount@) as nat, total_sent(s, ch, d)).insert(reply_args_key(), ra.ser())
            &&& gas_limit_for(s, pay) is Some
            &&& msgs.len() == 1 && msgs[0].id == 1337 && msgs[0].reply_on is Error && msgs[0].gas_limit == gas_limit_for(s, pay)->Some_0
            &&& is_send_of(msgs[0].msg, pay, p.receiver@)
        })
    })
}

@fn contracts/cw20-ics20/src/ibc.rs do_ibc_packet_receive [no_panic: 1]
@ensures C12.receive_exact C11 C18
    r is Ok ==> step_receive(old(deps.storage).view(), final(deps.storage).view(), *packet, r->Ok_0.messages@)
        && r->Ok_0.acknowledgement is Some && is_success_ack(r->Ok_0.acknowledgement->Some_0@)
@ensures C12.receive_err_no_change C11
    r is Err ==> final(deps.storage).view() == old(deps.storage).view()
@prefix
    broadcast use ics_axioms, msg_conv, binary_conv, string_conv;
    proof { lemma_ns6(); }
@end

@fn contracts/cw20-ics20/src/ibc.rs ibc_packet_receive [closures: 1; no_panic: 1]
@ensures C12.receive_never_aborts
    r is Ok && r->Ok_0.acknowledgement is Some
@ensures C12.success_ack_means_paid C11
    r is Ok && is_success_ack(r->Ok_0.acknowledgement->Some_0@) ==> step_receive(old(deps.storage).view(), final(deps.storage).view(), msg.packet, r->Ok_0.messages@)
@ensures C12.error_ack_no_change C11
    r is Ok && !is_success_ack(r->Ok_0.acknowledgement->Some_0@) ==> final(deps.storage).view() == old(deps.storage).view() && r->Ok_0.messages@.len() == 0
@closure_types 1
    err: ContractError
@closure 1 C12.receive_error_to_ack
    (res: Result<IbcReceiveResponse, Never>)
    ensures res is Ok && res->Ok_0.messages@.len() == 0 && res->Ok_0.acknowledgement is Some && is_error_ack(res->Ok_0.acknowledgement->Some_0@)
@prefix
    broadcast use ics_axioms, binary_conv;
@end

// --------------------------------------------------------------------- reply / ack / timeout
pub open spec fn reply_args_of(s: Raw) -> Option<ReplyArgs> { raw_get::<ReplyArgs>(s, reply_args_key()) }
/// C11 / C12: a failed payout sub-call (reply with Err, its own effects reverted by the chain, A1) restores the balance that
/// the receive path had reduced; every other reply changes nothing
pub open spec fn step_reply(s: Raw, t: Raw, reply: Reply) -> bool {
    if reply.id == 1337 && reply.result is Err {
        reply_args_of(s) is Some && ({
            let ra = reply_args_of(s)->Some_0;
            outstanding(s, ra.channel@, ra.denom@) + ra.amount@ <= u128::MAX
            && t == cs_set(s, ra.channel@, ra.denom@, outstanding(s, ra.channel@, ra.denom@) + ra.amount@, total_sent(s, ra.channel@, ra.denom@))
        })
    } else { t == s }
}
@fn contracts/cw20-ics20/src/ibc.rs reply
@rename_param reply reply_msg
@ensures C11.reply_undoes_failed_payout C12
    r is Ok ==> step_reply(old(deps.storage).view(), final(deps.storage).view(), reply_msg)
@ensures C12.reply_nomsg
    r is Ok ==> r->Ok_0.messages@.len() == 0
@prefix
    broadcast use ics_axioms, binary_conv;
@end

/// C11 / C12: an error acknowledgement or a timeout of a packet we sent: the channel balance is reduced by the packet's
/// amount (error if not covered) and exactly one refund of that amount to the original sender is issued
pub open spec fn step_failure(s: Raw, t: Raw, packet: IbcPacket, msgs: Seq<SubMsg<Empty>>) -> bool {
    Ics20Packet::unjson(packet.data@) is Some && ({
        let p = Ics20Packet::unjson(packet.data@)->Some_0;
        let ch = packet.src.channel_id@;
        let pay = parts_amount(p.denom@, p.amount);
        &&& cs_of(s, ch, p.denom@) is Some && outstanding(s, ch, p.denom@) >= p.amount@
        &&& t == cs_set(s, ch, p.denom@, (outstanding(s, ch, p.denom@) - p.amount@) as nat, total_sent(s, ch, p.denom@))
        &&& gas_limit_for(t, pay) is Some
        &&& msgs.len() == 1 && msgs[0].id == 0xfa17 && msgs[0].reply_on is Error && msgs[0].gas_limit == gas_limit_for(t, pay)->Some_0
        &&& is_send_of(msgs[0].msg, pay, p.sender@)
    })
}
@fn contracts/cw20-ics20/src/ibc.rs on_packet_failure
@ensures C11.failure_refunds_exactly C12 C18
    r is Ok ==> step_failure(old(deps.storage).view(), final(deps.storage).view(), packet, r->Ok_0.messages@)
@ensures C12.failure_refund_goes_through C11
    Ics20Packet::unjson(packet.data@) is Some && ({
        let p = Ics20Packet::unjson(packet.data@)->Some_0;
        cs_of(old(deps.storage).view(), packet.src.channel_id@, p.denom@) is Some && outstanding(old(deps.storage).view(), packet.src.channel_id@, p.denom@) >= p.amount@
        && parts_amount(p.denom@, p.amount) is Native
    }) ==> r is Ok
@prefix
    broadcast use ics_axioms, string_conv, msg_conv;
    proof { lemma_ns6(); }
@end

@fn contracts/cw20-ics20/src/ibc.rs on_packet_success
@ensures C12.success_ack_changes_nothing C11
    final(_deps.storage).view() == old(_deps.storage).view(), r is Ok ==> r->Ok_0.messages@.len() == 0
@end

@fn contracts/cw20-ics20/src/ibc.rs ibc_packet_ack
@ensures C12.ack_dispatch C11
    r is Ok ==> Ics20Ack::unjson(msg.acknowledgement.data@) is Some && match Ics20Ack::unjson(msg.acknowledgement.data@)->Some_0 {
        Ics20Ack::Result(_) => final(deps.storage).view() == old(deps.storage).view() && r->Ok_0.messages@.len() == 0,
        Ics20Ack::Error(_) => step_failure(old(deps.storage).view(), final(deps.storage).view(), msg.original_packet, r->Ok_0.messages@),
    }
@end

@fn contracts/cw20-ics20/src/ibc.rs ibc_packet_timeout
@ensures C12.timeout_refunds C11
    r is Ok ==> step_failure(old(deps.storage).view(), final(deps.storage).view(), msg.packet, r->Ok_0.messages@)
@prefix
    broadcast use string_conv;
@end

// ===================================================================== contract.rs
/// C12: the one ICS-20 packet an accepted transfer emits: the escrowed amount (<= 2^64-1), the denomination, the true sender,
/// the requested receiver and memo, with the requested or default timeout
pub open spec fn is_transfer_packet(m: SubMsg<Empty>, ch: Seq<char>, amount: Amount, sender: Seq<char>, tm: TransferMsg, timeout_ns: int) -> bool {
    m == SubMsg::<Empty>::new_spec(m.msg) && m.msg is Ibc && m.msg->Ibc_0 is SendPacket
    && m.msg->Ibc_0->SendPacket_channel_id@ == ch
    && m.msg->Ibc_0->SendPacket_timeout.block is None && m.msg->Ibc_0->SendPacket_timeout.timestamp is Some
    && m.msg->Ibc_0->SendPacket_timeout.timestamp->Some_0.ns() == timeout_ns
    && exists|p: Ics20Packet| #![auto] m.msg->Ibc_0->SendPacket_data@ == p.json()
        && p.amount == amount_of(amount) && p.amount.0 <= u64::MAX && p.denom@ == denom_of(amount) && p.sender@ == sender
        && p.receiver@ == tm.remote_address@ && p.memo == tm.memo
}
pub open spec fn step_transfer(s: Raw, t: Raw, tm: TransferMsg, amount: Amount) -> bool {
    amount_of(amount).0 != 0 && chan_info(s, tm.channel@) && config_of(s) is Some
    && (amount is Cw20 ==> config_of(s)->Some_0.default_gas_limit is Some || allow_of(s, amount->Cw20_0.address@) is Some)
    && outstanding(s, tm.channel@, denom_of(amount)) + amount_of(amount)@ <= u128::MAX && total_sent(s, tm.channel@, denom_of(amount)) + amount_of(amount)@ <= u128::MAX
    && t == cs_set(s, tm.channel@, denom_of(amount), outstanding(s, tm.channel@, denom_of(amount)) + amount_of(amount)@,
                   total_sent(s, tm.channel@, denom_of(amount)) + amount_of(amount)@)
}

@fn contracts/cw20-ics20/src/contract.rs execute_transfer
@ensures C12.transfer_escrows_exactly C11 C18
    r is Ok ==> step_transfer(old(deps.storage).view(), final(deps.storage).view(), msg, amount)
@ensures C12.transfer_emits_one_packet
    r is Ok ==> r->Ok_0.messages@.len() == 1 && is_transfer_packet(r->Ok_0.messages@[0], msg.channel@, amount, sender@, msg,
        env.block.time.ns() + (match msg.timeout { Some(t) => t, None => config_of(old(deps.storage).view())->Some_0.default_timeout }) * 1_000_000_000)
@ensures C18.an_allowed_transfer_is_accepted C12
    amount_of(amount).0 > 0 && amount_of(amount).0 <= u64::MAX && chan_info(old(deps.storage).view(), msg.channel@) && config_of(old(deps.storage).view()) is Some
        && (amount is Cw20 ==> addr_ok(amount->Cw20_0.address@)
            && (config_of(old(deps.storage).view())->Some_0.default_gas_limit is Some || allow_of(old(deps.storage).view(), amount->Cw20_0.address@) is Some))
        && (!old(deps.storage).view().contains_key(cskey(msg.channel@, denom_of(amount))) || cs_of(old(deps.storage).view(), msg.channel@, denom_of(amount)) is Some)
        ==> r is Ok
@prefix
    broadcast use ics_axioms, string_conv;
    proof { lemma_ns6(); }
@end

@fn contracts/cw20-ics20/src/contract.rs execute_receive
@ensures C11.receive_cw20_escrow C12 C18
    r is Ok ==> info.funds@.len() == 0 && exists|tm: TransferMsg, a: String| #![auto] TransferMsg::unjson(wrapper.msg@) == Some(tm) && a@ == info.sender@
        && step_transfer(old(deps.storage).view(), final(deps.storage).view(), tm, Amount::Cw20(Cw20Coin { address: a, amount: wrapper.amount }))
@ensures C12.receive_emits_one_packet
    r is Ok ==> r->Ok_0.messages@.len() == 1 && exists|tm: TransferMsg, a: String| #![auto] TransferMsg::unjson(wrapper.msg@) == Some(tm) && a@ == info.sender@
        && is_transfer_packet(r->Ok_0.messages@[0], tm.channel@, Amount::Cw20(Cw20Coin { address: a, amount: wrapper.amount }), wrapper.sender@, tm,
            env.block.time.ns() + (match tm.timeout { Some(t) => t, None => config_of(old(deps.storage).view())->Some_0.default_timeout }) * 1_000_000_000)
@end

/// C18: Allow is governance-only and only ever loosens: a new entry, or an existing one whose limit is raised / removed
pub open spec fn limit_loosened(old_l: Option<u64>, new_l: Option<u64>) -> bool {
    match (old_l, new_l) { (None, Some(_)) => false, (Some(o), Some(n)) => n >= o, _ => true }
}
pub open spec fn step_allow(s: Raw, t: Raw, sender: Seq<char>, allow: AllowMsg) -> bool {
    is_admin_addr(s, "admin"@, sender)
    && (allow_of(s, allow.contract@) is Some ==> limit_loosened(allow_of(s, allow.contract@)->Some_0.gas_limit, allow.gas_limit))
    && t == s.insert(allow_key(allow.contract@), (AllowInfo { gas_limit: allow.gas_limit }).ser())
}
@fn contracts/cw20-ics20/src/contract.rs execute_allow [closures: 1]
@ensures C18.allow_governance_only_and_loosens
    r is Ok ==> step_allow(old(deps.storage).view(), final(deps.storage).view(), info.sender@, allow)
@ensures C18.allow_nomsg
    r is Ok ==> r->Ok_0.messages@.len() == 0
@closure_types 1
    old: Option<AllowInfo>
@closure 1 C18.allow_closure
    (res: Result<AllowInfo, ContractError>)
    ensures res is Ok ==> (old is Some ==> limit_loosened(old->Some_0.gas_limit, allow.gas_limit)) && res->Ok_0 == (AllowInfo { gas_limit: allow.gas_limit })
@prefix
    broadcast use ics_axioms;
@end

pub open spec fn step_msg(s: Raw, t: Raw, sender: Addr, funds: Seq<Coin>, msg: ExecuteMsg) -> bool {
    match msg {
        ExecuteMsg::Receive(w) => funds.len() == 0 && exists|tm: TransferMsg, a: String| #![auto] TransferMsg::unjson(w.msg@) == Some(tm) && a@ == sender@
            && step_transfer(s, t, tm, Amount::Cw20(Cw20Coin { address: a, amount: w.amount })),
        ExecuteMsg::Transfer(tm) => funds.len() == 1 && funds[0].amount.0 != 0 && step_transfer(s, t, tm, Amount::Native(funds[0])),
        ExecuteMsg::Allow(a) => step_allow(s, t, sender@, a),
        ExecuteMsg::UpdateAdmin { admin } => is_admin_addr(s, "admin"@, sender@) && admin_of(t, "admin"@) is Some && admin_of(t, "admin"@)->Some_0 is Some
            && admin_of(t, "admin"@)->Some_0->Some_0@ == admin@ && t == s.insert(item_key("admin"@), admin_of(t, "admin"@)->Some_0.ser()),
    }
}

@fn contracts/cw20-ics20/src/contract.rs execute
@ensures C12.execute_step C11 C18
    r is Ok ==> step_msg(old(deps.storage).view(), final(deps.storage).view(), info.sender, info.funds@, msg)
@ensures C12.execute_dispatch_msgs C11
    r is Ok ==> match msg {
        ExecuteMsg::Transfer(tm) => r->Ok_0.messages@.len() == 1 && is_transfer_packet(r->Ok_0.messages@[0], tm.channel@, Amount::Native(info.funds@[0]), info.sender@, tm,
            env.block.time.ns() + (match tm.timeout { Some(t) => t, None => config_of(old(deps.storage).view())->Some_0.default_timeout }) * 1_000_000_000),
        ExecuteMsg::Receive(w) => r->Ok_0.messages@.len() == 1 && exists|tm: TransferMsg, a: String| #![auto] TransferMsg::unjson(w.msg@) == Some(tm) && a@ == info.sender@
            && is_transfer_packet(r->Ok_0.messages@[0], tm.channel@, Amount::Cw20(Cw20Coin { address: a, amount: w.amount }), w.sender@, tm,
                env.block.time.ns() + (match tm.timeout { Some(t) => t, None => config_of(old(deps.storage).view())->Some_0.default_timeout }) * 1_000_000_000),
        _ => r->Ok_0.messages@.len() == 0,
    }
@prefix
    broadcast use ics_axioms;
@end

// --------------------------------------------------------------------- instantiate / migrate (C12, C18)
pub mod v1 {
use super::*;
@struct contracts/cw20-ics20/src/migrations.rs v1::Config
impl SerT for Config { uninterp spec fn ser(self) -> Seq<u8>; uninterp spec fn de(b: Seq<u8>) -> Option<Self>; }
@const contracts/cw20-ics20/src/migrations.rs v1::CONFIG
} // mod v1
/// every key outside the per-channel balances is untouched
pub open spec fn same_outside_channel_state(s: Raw, t: Raw) -> bool {
    forall|k: Seq<u8>| unpath(k).0 != "channel_state"@ ==> #[trigger] s.contains_key(k) == t.contains_key(k) && (s.contains_key(k) ==> s[k] == t[k])
}
/// what the v2 -> v3 reconciliation is on a given pre-state: it refuses a contract with more than one channel, and it changes
/// nothing but per-channel balances (their new values come from the assumed leaf `update_denom`: the contract's real holdings)
pub open spec fn reconciled(s: Raw, t: Raw, env: Env) -> bool {
    listing(s, "channel_info"@, Seq::<u8>::empty(), false).len() <= 1 && same_outside_channel_state(s, t)
}
pub mod v2 {
use super::*;
// ASSUMED LEAF (bank / cw20 balance queries through the querier): sets the outstanding balance of one (channel, denom) entry to
// the contract's actual holdings; only that entry may change
@fn contracts/cw20-ics20/src/migrations.rs v2::update_denom [assume; id: v2_update_denom]
@ensures C12.update_denom_frame C11 C18
    same_outside_channel_state(old(deps.storage).view(), final(deps.storage).view())
@end
@fn contracts/cw20-ics20/src/migrations.rs v2::update_balances [loops: 1; id: v2_update_balances]
@ensures C12.update_balances_frame C18 C11
    r is Ok ==> same_outside_channel_state(old(deps.storage).view(), final(deps.storage).view())
@ensures C12.update_balances_reconciles C11
    r is Ok ==> reconciled(old(deps.storage).view(), final(deps.storage).view(), *env)
@loop 1 C12.update_balances_loop
    invariant
        same_outside_channel_state(s0, deps.storage.view()),
        final(deps.storage).view() == fin0,
@prefix
    broadcast use ics_axioms;
    let ghost s0 = deps.storage.view();
    let ghost fin0 = final(deps.storage).view();
    proof { lemma_ns6(); }
@insert_before "match channels.len()" 1
    proof {
        let l = listing(s0, "channel_info"@, Seq::<u8>::empty(), false);
        lemma_keep_all(l, |e: Entry| within(e.0, None, None));
        assert(scan(l, None, None, Order::Ascending) == l);
        assert(channels@.len() == l.len());
    }
@end
} // mod v2
pub use semver::Version;
@struct contracts/cw20-ics20/src/msg.rs MigrateMsg
@const contracts/cw20-ics20/src/contract.rs MIGRATE_MIN_VERSION
@const contracts/cw20-ics20/src/contract.rs MIGRATE_VERSION_2
@const contracts/cw20-ics20/src/contract.rs MIGRATE_VERSION_3

@fn contracts/cw20-ics20/src/contract.rs from_semver
@end

/// entry j of the initial allow list is not overwritten by a later entry (before position n) for the same contract
pub open spec fn no_later_entry(al: Seq<AllowMsg>, j: int, n: int) -> bool {
    forall|k: int| j < k < n ==> (#[trigger] al[k]).contract@ != al[j].contract@
}
@fn contracts/cw20-ics20/src/contract.rs instantiate [loops: 1]
@requires
    old(deps.storage).view() == SMap::<Seq<u8>, Seq<u8>>::empty()
@ensures C18.instantiate_admin_and_config
    r is Ok ==> is_admin_addr(final(deps.storage).view(), "admin"@, msg.gov_contract@)
        && config_of(final(deps.storage).view()) == Some(Config { default_timeout: msg.default_timeout, default_gas_limit: msg.default_gas_limit })
@ensures C18.instantiate_allow_list_as_given
    r is Ok ==> forall|j: int| 0 <= j < msg.allowlist@.len() && no_later_entry(msg.allowlist@, j, msg.allowlist@.len() as int)
        ==> allow_of(final(deps.storage).view(), (#[trigger] msg.allowlist@[j]).contract@) == Some(AllowInfo { gas_limit: msg.allowlist@[j].gas_limit })
@loop 1 C18.instantiate_loop
    invariant
        it.index@ <= msg.allowlist@.len(),
        is_admin_addr(deps.storage.view(), "admin"@, msg.gov_contract@),
        config_of(deps.storage.view()) == Some(cfg),
        forall|j: int| 0 <= j < it.index@ && no_later_entry(msg.allowlist@, j, it.index@ as int)
            ==> allow_of(deps.storage.view(), (#[trigger] msg.allowlist@[j]).contract@) == Some(AllowInfo { gas_limit: msg.allowlist@[j].gas_limit }),
@prefix
    broadcast use ics_axioms;
    proof { lemma_ns6(); }
@loop_begin 1
    let ghost pre = deps.storage.view();
    let ghost idx = it.index@ as int;
    let ghost al0 = allowed;
@loop_end 1
    proof {
        broadcast use ics_axioms;
        lemma_ns6();
        assert(unpath(allow_key(contract@)) != unpath(item_key("admin"@)) && unpath(allow_key(contract@)) != unpath(item_key("ics20_config"@)));
        let post = deps.storage.view();
        assert(al0 == msg.allowlist@[idx]);
        assert forall|j: int| 0 <= j < idx + 1 && no_later_entry(msg.allowlist@, j, idx + 1)
            implies allow_of(post, (#[trigger] msg.allowlist@[j]).contract@) == Some(AllowInfo { gas_limit: msg.allowlist@[j].gas_limit }) by {
            if j < idx {
                assert(msg.allowlist@[idx].contract@ != msg.allowlist@[j].contract@);
                assert(no_later_entry(msg.allowlist@, j, idx));
                assert(unutf8(utf8(msg.allowlist@[j].contract@)) != unutf8(utf8(contract@)));
                assert(unpath(allow_key(msg.allowlist@[j].contract@)) != unpath(allow_key(contract@)));
            }
        }
    }
@end

/// C18: migrate never touches the allow list and may set but never unset the default gas limit
/// the stored contract version is one of the v1-style versions whose Config is rebuilt from scratch by migrate
pub open spec fn v1_style(s: Raw) -> bool {
    semver::ver_parse(cw2_version(s)) is Some && semver::ver_parse("0.12.0-alpha1"@) is Some
    && (semver::ver_lt(semver::ver_parse(cw2_version(s))->Some_0, semver::ver_parse("0.12.0-alpha1"@)->Some_0)
        || semver::ver_parse(cw2_version(s))->Some_0 == semver::ver_parse("0.12.0-alpha1"@)->Some_0)
}
/// the stored version is at most 0.13.0: channel balances still have to be reconciled with the contract's holdings (v2 -> v3)
pub open spec fn upto_v3(s: Raw) -> bool {
    semver::ver_parse(cw2_version(s)) is Some && semver::ver_parse("0.13.0"@) is Some
    && (semver::ver_lt(semver::ver_parse(cw2_version(s))->Some_0, semver::ver_parse("0.13.0"@)->Some_0)
        || semver::ver_parse(cw2_version(s))->Some_0 == semver::ver_parse("0.13.0"@)->Some_0)
}
pub open spec fn same_channel_state(s: Raw, t: Raw) -> bool {
    forall|k: Seq<u8>| unpath(k).0 == "channel_state"@ ==> #[trigger] s.contains_key(k) == t.contains_key(k) && (s.contains_key(k) ==> s[k] == t[k])
}
@fn contracts/cw20-ics20/src/contract.rs migrate [closures: 1]
@ensures C11.migrate_reconciles_exactly_old_versions C12
    r is Ok ==> (if upto_v3(old(deps.storage).view()) {
        exists|a: Raw, b: Raw| #[trigger] reconciled(a, b, env) && same_channel_state(old(deps.storage).view(), a) && same_channel_state(b, final(deps.storage).view())
    } else { same_channel_state(old(deps.storage).view(), final(deps.storage).view()) })
@ensures C18.migrate_keeps_allow_list
    r is Ok ==> forall|a: Seq<char>| #![trigger allow_key(a)] allow_of(final(deps.storage).view(), a) == allow_of(old(deps.storage).view(), a)
@ensures C18.migrate_sets_default
    r is Ok && msg.default_gas_limit is Some ==> config_of(final(deps.storage).view()) is Some
        && config_of(final(deps.storage).view())->Some_0.default_gas_limit == msg.default_gas_limit
@ensures C18.migrate_never_unsets_default
    r is Ok && msg.default_gas_limit is None && !v1_style(old(deps.storage).view()) ==> config_of(final(deps.storage).view()) == config_of(old(deps.storage).view())
@closure 1 C18.migrate_default_closure
    (res: StdResult<Config>)
    ensures res is Ok ==> res->Ok_0 == (Config { default_gas_limit: msg.default_gas_limit, ..old })
@prefix
    broadcast use ics_axioms;
    // snapshots of the storage between the migration steps; each is refreshed at its step (a step that is gone leaves the previous one)
    let ghost s0 = deps.storage.view();
    let ghost mut s1 = s0;
    let ghost mut s2 = s0;
    let ghost mut s3 = s0;
    let ghost mut sa = s0;
    proof {
        lemma_ns6();
        reveal_strlit("0.12.0-alpha1"); reveal_strlit("0.13.0");
        assert(unpath(item_key("admin"@)).0 == "admin"@ && unpath(item_key("ics20_config"@)).0 == "ics20_config"@ && unpath(cw2_key()).0 == "contract_info"@);
    }
@insert_before "if storage_version <= MIGRATE_VERSION_3.parse().map_err(from_semver)?" 1
    proof {
        s1 = deps.storage.view(); s2 = s1; s3 = s1; sa = s1;
        assert(same_channel_state(s0, s1)) by {
            assert forall|k: Seq<u8>| unpath(k).0 == "channel_state"@ implies #[trigger] s0.contains_key(k) == s1.contains_key(k) && (s0.contains_key(k) ==> s0[k] == s1[k]) by {
                assert(k != item_key("admin"@) && k != item_key("ics20_config"@) && k != cw2_key());
            }
        }
        assert forall|a: Seq<char>| allow_of(s1, a) == allow_of(s0, a) by { assert(unpath(allow_key(a)).0 == "allow_list"@); }
        assert(!v1_style(s0) ==> config_of(s1) == config_of(s0));
    }
@insert_before "if msg.default_gas_limit.is_some()" 1
    proof {
        s2 = deps.storage.view(); s3 = s2;
        assert(upto_v3(s0) ==> reconciled(sa, s2, env));
        assert(!upto_v3(s0) ==> s2 == sa);
        assert forall|a: Seq<char>| allow_of(s2, a) == allow_of(s1, a) by {
            assert(unpath(allow_key(a)).0 == "allow_list"@);
            assert(s1.contains_key(allow_key(a)) == s2.contains_key(allow_key(a)));
        }
        assert(config_of(s2) == config_of(s1)) by { assert(s1.contains_key(item_key("ics20_config"@)) == s2.contains_key(item_key("ics20_config"@))); }
    }
@insert_before "if storage_version < version" 1
    proof {
        s3 = deps.storage.view();
        assert forall|a: Seq<char>| allow_of(s3, a) == allow_of(s2, a) by { assert(unpath(allow_key(a)).0 == "allow_list"@); }
        assert(msg.default_gas_limit is Some ==> config_of(s3) is Some && config_of(s3)->Some_0.default_gas_limit == msg.default_gas_limit);
        assert(msg.default_gas_limit is None ==> config_of(s3) == config_of(s2));
    }
@insert_before "Ok(Response::new())" 1
    proof {
        let t = deps.storage.view();
        assert forall|a: Seq<char>| allow_of(t, a) == allow_of(s3, a) by { assert(unpath(allow_key(a)).0 == "allow_list"@); }
        assert(config_of(t) == config_of(s3));
        assert(same_channel_state(s2, t)) by {
            assert forall|k: Seq<u8>| unpath(k).0 == "channel_state"@ implies #[trigger] s2.contains_key(k) == t.contains_key(k) && (s2.contains_key(k) ==> s2[k] == t[k]) by {
                assert(k != item_key("ics20_config"@) && k != cw2_key());
            }
        }
    }
@end

// ===================================================================== lemmas (C11, C12, C18)
pub proof fn lemma_cs_set(s: Raw, ch: Seq<char>, d: Seq<char>, out: nat, sent: nat, ch2: Seq<char>, d2: Seq<char>)
    requires out <= u128::MAX, sent <= u128::MAX
    ensures outstanding(cs_set(s, ch, d, out, sent), ch, d) == out, total_sent(cs_set(s, ch, d, out, sent), ch, d) == sent,
        (ch2 != ch || d2 != d) ==> cs_of(cs_set(s, ch, d, out, sent), ch2, d2) == cs_of(s, ch2, d2),
        forall|a: Seq<char>| #![trigger allow_key(a)] allow_of(cs_set(s, ch, d, out, sent), a) == allow_of(s, a),
        config_of(cs_set(s, ch, d, out, sent)) == config_of(s), admin_of(cs_set(s, ch, d, out, sent), "admin"@) == admin_of(s, "admin"@),
{
    broadcast use ics_axioms;
    lemma_ns6();
    if ch2 != ch || d2 != d {
        assert(unpair_kb(pair_kb(utf8(ch2), utf8(d2))) != unpair_kb(pair_kb(utf8(ch), utf8(d)))) by {
            assert(unutf8(utf8(ch2)) == ch2 && unutf8(utf8(ch)) == ch && unutf8(utf8(d2)) == d2 && unutf8(utf8(d)) == d);
        }
        assert(unpath(cskey(ch2, d2)) != unpath(cskey(ch, d)));
    }
    assert forall|a: Seq<char>| allow_of(cs_set(s, ch, d, out, sent), a) == allow_of(s, a) by { assert(unpath(allow_key(a)) != unpath(cskey(ch, d))); }
    assert(unpath(item_key("ics20_config"@)) != unpath(cskey(ch, d)) && unpath(item_key("admin"@)) != unpath(cskey(ch, d)));
}

// serves: C11 C12
/// per (channel, denomination): what each kind of entry-point call does to the reported outstanding balance.
/// escrowed: +amount on an accepted transfer (tokens attached / received with the call);
/// paid: -amount on a received packet (one payout sub-message of exactly that amount) and on an error ack / timeout (one refund of
/// exactly that amount); a failed payout (reply Err) gives the amount back. Nothing else changes it, other (channel, denom) pairs
/// are untouched, and a reduction is only possible while the balance covers it: payouts never exceed what was escrowed.
pub proof fn lemma_c11_transfer(s: Raw, t: Raw, tm: TransferMsg, amount: Amount, ch: Seq<char>, d: Seq<char>)
    requires step_transfer(s, t, tm, amount)
    ensures outstanding(t, ch, d) == outstanding(s, ch, d) + (if ch == tm.channel@ && d == denom_of(amount) { amount_of(amount)@ } else { 0 })
{
    lemma_cs_set(s, tm.channel@, denom_of(amount), outstanding(s, tm.channel@, denom_of(amount)) + amount_of(amount)@, total_sent(s, tm.channel@, denom_of(amount)) + amount_of(amount)@, ch, d);
}
// serves: C11 C12
pub proof fn lemma_c11_receive(s: Raw, t: Raw, packet: IbcPacket, msgs: Seq<SubMsg<Empty>>, ch: Seq<char>, d: Seq<char>)
    requires step_receive(s, t, packet, msgs)
    ensures ({
        let p = Ics20Packet::unjson(packet.data@)->Some_0;
        let local = voucher_local(p.denom@, packet.src.port_id@, packet.src.channel_id@)->Some_0;
        &&& outstanding(s, packet.dest.channel_id@, local) >= p.amount@
        &&& outstanding(t, ch, d) == outstanding(s, ch, d) - (if ch == packet.dest.channel_id@ && d == local { p.amount@ } else { 0 })
    })
{
    broadcast use ics_axioms;
    lemma_ns6();
    let p = Ics20Packet::unjson(packet.data@)->Some_0;
    let local = voucher_local(p.denom@, packet.src.port_id@, packet.src.channel_id@)->Some_0;
    let c = packet.dest.channel_id@;
    lemma_cs_set(s, c, local, (outstanding(s, c, local) - p.amount@) as nat, total_sent(s, c, local), ch, d);
    assert(unpath(cskey(ch, d)) != unpath(reply_args_key()));
}
// serves: C11 C12
pub proof fn lemma_c11_failure(s: Raw, t: Raw, packet: IbcPacket, msgs: Seq<SubMsg<Empty>>, ch: Seq<char>, d: Seq<char>)
    requires step_failure(s, t, packet, msgs)
    ensures ({
        let p = Ics20Packet::unjson(packet.data@)->Some_0;
        &&& outstanding(s, packet.src.channel_id@, p.denom@) >= p.amount@
        &&& outstanding(t, ch, d) == outstanding(s, ch, d) - (if ch == packet.src.channel_id@ && d == p.denom@ { p.amount@ } else { 0 })
    })
{
    let p = Ics20Packet::unjson(packet.data@)->Some_0;
    let c = packet.src.channel_id@;
    lemma_cs_set(s, c, p.denom@, (outstanding(s, c, p.denom@) - p.amount@) as nat, total_sent(s, c, p.denom@), ch, d);
}
// serves: C11 C12
pub proof fn lemma_c11_reply(s: Raw, t: Raw, reply: Reply, ch: Seq<char>, d: Seq<char>)
    requires step_reply(s, t, reply)
    ensures outstanding(t, ch, d) == outstanding(s, ch, d)
        + (if reply.id == 1337 && reply.result is Err && ch == reply_args_of(s)->Some_0.channel@ && d == reply_args_of(s)->Some_0.denom@ { reply_args_of(s)->Some_0.amount@ } else { 0 })
{
    if reply.id == 1337 && reply.result is Err {
        let ra = reply_args_of(s)->Some_0;
        lemma_cs_set(s, ra.channel@, ra.denom@, outstanding(s, ra.channel@, ra.denom@) + ra.amount@, total_sent(s, ra.channel@, ra.denom@), ch, d);
    }
}

/// one balance-changing event of a history of the contract (everything else leaves channel balances alone)
pub ghost enum Ev { Transfer(TransferMsg, Amount), Receive(IbcPacket, Seq<SubMsg<Empty>>), Failure(IbcPacket, Seq<SubMsg<Empty>>), Reply(Reply) }
pub open spec fn ev_step(s: Raw, t: Raw, e: Ev) -> bool {
    match e {
        Ev::Transfer(tm, am) => step_transfer(s, t, tm, am),
        Ev::Receive(p, m) => step_receive(s, t, p, m),
        Ev::Failure(p, m) => step_failure(s, t, p, m),
        Ev::Reply(r) => step_reply(s, t, r),
    }
}
pub open spec fn ev_at(tr: Seq<Raw>, es: Seq<Ev>, k: int) -> bool { ev_step(tr[k], tr[k + 1], es[k]) }
/// tokens escrowed (or given back by a failed payout) / tokens released by event e on (ch, d), in pre-state s
pub open spec fn ev_in(s: Raw, e: Ev, ch: Seq<char>, d: Seq<char>) -> nat {
    match e {
        Ev::Transfer(tm, am) => if ch == tm.channel@ && d == denom_of(am) { amount_of(am)@ } else { 0 },
        Ev::Reply(r) => if r.id == 1337 && r.result is Err && ch == reply_args_of(s)->Some_0.channel@ && d == reply_args_of(s)->Some_0.denom@ { reply_args_of(s)->Some_0.amount@ } else { 0 },
        _ => 0,
    }
}
pub open spec fn ev_out(e: Ev, ch: Seq<char>, d: Seq<char>) -> nat {
    match e {
        Ev::Receive(p, m) => { let q = Ics20Packet::unjson(p.data@)->Some_0;
            if ch == p.dest.channel_id@ && d == voucher_local(q.denom@, p.src.port_id@, p.src.channel_id@)->Some_0 { q.amount@ } else { 0 } },
        Ev::Failure(p, m) => { let q = Ics20Packet::unjson(p.data@)->Some_0; if ch == p.src.channel_id@ && d == q.denom@ { q.amount@ } else { 0 } },
        _ => 0,
    }
}
pub open spec fn in_upto(tr: Seq<Raw>, es: Seq<Ev>, ch: Seq<char>, d: Seq<char>, n: int) -> nat decreases n {
    if n <= 0 { 0 } else { in_upto(tr, es, ch, d, n - 1) + ev_in(tr[n - 1], es[n - 1], ch, d) }
}
pub open spec fn out_upto(es: Seq<Ev>, ch: Seq<char>, d: Seq<char>, n: int) -> nat decreases n {
    if n <= 0 { 0 } else { out_upto(es, ch, d, n - 1) + ev_out(es[n - 1], ch, d) }
}
// serves: C11 C12
/// over every history of balance-changing events, per (channel, denomination): reported outstanding == initial + everything escrowed
/// (or given back after a failed payout) - everything released; in particular the releases never exceed initial + escrowed
pub proof fn lemma_c11_history(tr: Seq<Raw>, es: Seq<Ev>, ch: Seq<char>, d: Seq<char>, n: int)
    requires tr.len() == es.len() + 1, 0 <= n <= es.len(), forall|k: int| 0 <= k < es.len() ==> #[trigger] ev_at(tr, es, k)
    ensures outstanding(tr[n], ch, d) + out_upto(es, ch, d, n) == outstanding(tr[0], ch, d) + in_upto(tr, es, ch, d, n),
        out_upto(es, ch, d, n) <= outstanding(tr[0], ch, d) + in_upto(tr, es, ch, d, n),
    decreases n
{
    if n > 0 {
        lemma_c11_history(tr, es, ch, d, n - 1);
        assert(ev_at(tr, es, n - 1));
        match es[n - 1] {
            Ev::Transfer(tm, am) => lemma_c11_transfer(tr[n - 1], tr[n], tm, am, ch, d),
            Ev::Receive(p, m) => lemma_c11_receive(tr[n - 1], tr[n], p, m, ch, d),
            Ev::Failure(p, m) => lemma_c11_failure(tr[n - 1], tr[n], p, m, ch, d),
            Ev::Reply(r) => lemma_c11_reply(tr[n - 1], tr[n], r, ch, d),
        }
    }
}

/// C18: the limit attached to a token: None = not allowed (no entry, no default)
pub open spec fn looser_or_equal(a: Option<Option<u64>>, b: Option<Option<u64>>) -> bool {
    match (a, b) { (None, _) => true, (Some(x), Some(y)) => limit_loosened(x, y), (Some(_), None) => false }
}
// serves: C18
/// per execute call: only the governance address changes an allow-list entry, entries are never removed, and an entry's limit is
/// never lowered (unlimited stays unlimited)
pub proof fn lemma_c18_step(s: Raw, t: Raw, sender: Addr, funds: Seq<Coin>, msg: ExecuteMsg, a: Seq<char>)
    requires step_msg(s, t, sender, funds, msg)
    ensures
        allow_of(s, a) is Some ==> allow_of(t, a) is Some && limit_loosened(allow_of(s, a)->Some_0.gas_limit, allow_of(t, a)->Some_0.gas_limit),
        allow_of(t, a) != allow_of(s, a) ==> msg is Allow && is_admin_addr(s, "admin"@, sender@) && msg->Allow_0.contract@ == a,
        admin_of(t, "admin"@) != admin_of(s, "admin"@) ==> msg is UpdateAdmin && is_admin_addr(s, "admin"@, sender@),
{
    broadcast use ics_axioms;
    lemma_ns6();
    match msg {
        ExecuteMsg::Receive(w) => {
            let (tm, ad) = choose|tm: TransferMsg, ad: String| #![auto] TransferMsg::unjson(w.msg@) == Some(tm) && ad@ == sender@
                && step_transfer(s, t, tm, Amount::Cw20(Cw20Coin { address: ad, amount: w.amount }));
            let am = Amount::Cw20(Cw20Coin { address: ad, amount: w.amount });
            lemma_cs_set(s, tm.channel@, denom_of(am), outstanding(s, tm.channel@, denom_of(am)) + amount_of(am)@, total_sent(s, tm.channel@, denom_of(am)) + amount_of(am)@, tm.channel@, denom_of(am));
        }
        ExecuteMsg::Transfer(tm) => {
            let am = Amount::Native(funds[0]);
            lemma_cs_set(s, tm.channel@, denom_of(am), outstanding(s, tm.channel@, denom_of(am)) + amount_of(am)@, total_sent(s, tm.channel@, denom_of(am)) + amount_of(am)@, tm.channel@, denom_of(am));
        }
        ExecuteMsg::Allow(al) => {
            assert(unpath(item_key("admin"@)) != unpath(allow_key(al.contract@)));
            if a != al.contract@ { assert(unutf8(utf8(a)) != unutf8(utf8(al.contract@))); assert(unpath(allow_key(a)) != unpath(allow_key(al.contract@))); }
        }
        ExecuteMsg::UpdateAdmin { admin } => { assert(unpath(allow_key(a)) != unpath(item_key("admin"@))); }
    }
}

/// one step of any history of the contract: an execute message, or any other entry point (IBC callbacks, reply, migrate), all of
/// which are proved to leave the allow list alone (their contracts: `same allow list` clauses of ibc_* / reply / migrate)
pub open spec fn hist_step_c18(s: Raw, t: Raw) -> bool {
    (exists|sender: Addr, funds: Seq<Coin>, msg: ExecuteMsg| #![auto] step_msg(s, t, sender, funds, msg))
    || (forall|a: Seq<char>| #![trigger allow_key(a)] allow_of(t, a) == allow_of(s, a))
}
pub open spec fn hist_step_c18_at(tr: Seq<Raw>, k: int) -> bool { hist_step_c18(tr[k], tr[k + 1]) }
// serves: C18
/// over every history: a token that is on the allow list stays on it, and its gas limit is only ever loosened
pub proof fn lemma_c18_history(tr: Seq<Raw>, a: Seq<char>, i: int, j: int)
    requires 0 <= i <= j < tr.len(), forall|k: int| 0 <= k < tr.len() - 1 ==> #[trigger] hist_step_c18_at(tr, k)
    ensures allow_of(tr[i], a) is Some ==> allow_of(tr[j], a) is Some && limit_loosened(allow_of(tr[i], a)->Some_0.gas_limit, allow_of(tr[j], a)->Some_0.gas_limit)
    decreases j - i
{
    if i < j {
        lemma_c18_history(tr, a, i, j - 1);
        assert(hist_step_c18_at(tr, j - 1));
        let s = tr[j - 1]; let t = tr[j];
        if exists|sender: Addr, funds: Seq<Coin>, msg: ExecuteMsg| #![auto] step_msg(s, t, sender, funds, msg) {
            let (sender, funds, msg) = choose|sender: Addr, funds: Seq<Coin>, msg: ExecuteMsg| #![auto] step_msg(s, t, sender, funds, msg);
            lemma_c18_step(s, t, sender, funds, msg, a);
        } else {
            assert(allow_of(t, a) == allow_of(s, a)) by { assert(allow_key(a) == allow_key(a)); }
        }
    }
}


// ===================================================================== C20: allow-list listing
@struct contracts/cw20-ics20/src/msg.rs ListAllowedResponse
@struct contracts/cw20-ics20/src/msg.rs AllowedInfo
@const contracts/cw20-ics20/src/contract.rs MAX_LIMIT
@const contracts/cw20-ics20/src/contract.rs DEFAULT_LIMIT
@include inc/paging.vsi
pub open spec fn str_cursor(c: Option<String>) -> Option<Seq<u8>> { match c { Some(s) => Some(utf8(s@)), None => None } }

@fn contracts/cw20-ics20/src/contract.rs list_allowed [closures: 2]
@ensures C20.list_allowed_page C18
    r is Ok ==> ({
        let pg = page(listing(deps.storage.view(), "allow_list"@, Seq::<u8>::empty(), false), str_cursor(start_after), limit);
        r->Ok_0.allow@.len() == pg.len() && forall|i: int| 0 <= i < pg.len() ==> utf8((#[trigger] r->Ok_0.allow@[i]).contract@) == pg[i].0
            && AllowInfo::de(pg[i].1) == Some(AllowInfo { gas_limit: r->Ok_0.allow@[i].gas_limit })
    })
@eta ".as_ref().map" 1
    __c: &Addr -> Bound<&Addr>
@closure_types 1
    item: StdResult<(Addr, AllowInfo)>
@closure 1 C20.list_allowed_map
    (res: StdResult<AllowedInfo>)
    ensures match item { Ok((a, w)) => res is Ok && res->Ok_0.contract@ == a@ && res->Ok_0.gas_limit == w.gas_limit, Err(_) => res is Err }
@closure_types 2
    __p2_0: (Addr, AllowInfo)
@closure 2 C20.list_allowed_entry
    (res: AllowedInfo)
    ensures res.contract@ == __p2_0.0@ && res.gas_limit == __p2_0.1.gas_limit
@prefix
    broadcast use string_conv;
@end

// ===================================================================== the query entry point routes every message to its query function
@enum contracts/cw20-ics20/src/msg.rs QueryMsg
@struct contracts/cw20-ics20/src/msg.rs ListChannelsResponse
@struct contracts/cw20-ics20/src/msg.rs ChannelResponse
@struct contracts/cw20-ics20/src/msg.rs PortResponse
@struct contracts/cw20-ics20/src/msg.rs ConfigResponse
@struct contracts/cw20-ics20/src/msg.rs AllowedResponse
impl JsonT for ListChannelsResponse { uninterp spec fn json(self) -> Seq<u8>; uninterp spec fn unjson(b: Seq<u8>) -> Option<Self>; }
impl JsonT for ChannelResponse { uninterp spec fn json(self) -> Seq<u8>; uninterp spec fn unjson(b: Seq<u8>) -> Option<Self>; }
impl JsonT for PortResponse { uninterp spec fn json(self) -> Seq<u8>; uninterp spec fn unjson(b: Seq<u8>) -> Option<Self>; }
impl JsonT for ConfigResponse { uninterp spec fn json(self) -> Seq<u8>; uninterp spec fn unjson(b: Seq<u8>) -> Option<Self>; }
impl JsonT for AllowedResponse { uninterp spec fn json(self) -> Seq<u8>; uninterp spec fn unjson(b: Seq<u8>) -> Option<Self>; }
impl JsonT for ListAllowedResponse { uninterp spec fn json(self) -> Seq<u8>; uninterp spec fn unjson(b: Seq<u8>) -> Option<Self>; }
impl JsonT for AdminResponse { uninterp spec fn json(self) -> Seq<u8>; uninterp spec fn unjson(b: Seq<u8>) -> Option<Self>; }
// declarations only (nothing assumed about them): port id comes from the chain, channel listings use raw ranges / unzip
@fn contracts/cw20-ics20/src/contract.rs query_port [assume]
@end
@fn contracts/cw20-ics20/src/contract.rs query_list [assume]
@end
@fn contracts/cw20-ics20/src/contract.rs query_channel [assume]
@end
@fn contracts/cw20-ics20/src/contract.rs query_config [assume]
@end
@fn contracts/cw20-ics20/src/contract.rs query_allowed
@ensures C18.query_allowed
    r is Ok ==> match allow_of(deps.storage.view(), contract@) {
        Some(a) => r->Ok_0.is_allowed && r->Ok_0.gas_limit == a.gas_limit,
        None => !r->Ok_0.is_allowed && r->Ok_0.gas_limit is None,
    }
@prefix
    broadcast use ics_axioms;
@end
@fn contracts/cw20-ics20/src/contract.rs query
@ensures C18.query_routes C11 C12 C20
    r is Ok ==> match msg {
        QueryMsg::Port {} => exists|x: PortResponse| r->Ok_0@ == x.json() && call_ensures(query_port, (deps,), Ok::<PortResponse, StdError>(x)),
        QueryMsg::ListChannels {} => exists|x: ListChannelsResponse| r->Ok_0@ == x.json() && call_ensures(query_list, (deps,), Ok::<ListChannelsResponse, StdError>(x)),
        QueryMsg::Channel { id } => exists|x: ChannelResponse| r->Ok_0@ == x.json() && call_ensures(query_channel, (deps, id), Ok::<ChannelResponse, StdError>(x)),
        QueryMsg::Config {} => exists|x: ConfigResponse| r->Ok_0@ == x.json() && call_ensures(query_config, (deps,), Ok::<ConfigResponse, StdError>(x)),
        QueryMsg::Allowed { contract } => exists|x: AllowedResponse| r->Ok_0@ == x.json() && call_ensures(query_allowed, (deps, contract), Ok::<AllowedResponse, StdError>(x)),
        QueryMsg::ListAllowed { start_after, limit } => exists|x: ListAllowedResponse| r->Ok_0@ == x.json() && call_ensures(list_allowed, (deps, start_after, limit), Ok::<ListAllowedResponse, StdError>(x)),
        QueryMsg::Admin {} => exists|x: AdminResponse| r->Ok_0@ == x.json() && admin_answer(deps.storage.view(), "admin"@, x),
    }
@end
