#!/usr/bin/env python3
"""confirm the seeded changes a sub-agent left in /tmp/seed_out/<prop>/<k>/ in the scratch worktree /tmp/seed_<prop>:
the demo test must PASS on HEAD and FAIL with patch.diff applied; confirmed ones are copied to /verif/seeded/<prop>/<k>/
(patch.diff, demo.diff, meta.json + confirmation record). Nothing is applied to /repo here.
usage: tools/seed_confirm.py [--round=2] Cxx [Cyy ...]"""
import json, os, re, shutil, subprocess, sys
ROOT = os.path.dirname(os.path.dirname(os.path.abspath(__file__)))


def sh(cmd, cwd, env=None):
    return subprocess.run(cmd, shell=True, cwd=cwd, capture_output=True, text=True, env=dict(os.environ, CARGO_NET_OFFLINE="true", **(env or {})))


def crate_of(path):
    parts = path.split("/")
    d = "/".join(parts[:2])
    return d


def main():
    args = sys.argv[1:]
    rnd = ""
    if args and args[0].startswith("--round="):
        rnd = args[0].split("=")[1]; args = args[1:]
    for prop in args:
        wt = f"/tmp/seed{rnd}_{prop}"
        src = f"/tmp/seed_out{rnd}/{prop}"
        if not os.path.isdir(src): print(f"{prop}: no output"); continue
        for k in sorted(os.listdir(src)):
            d = os.path.join(src, k)
            if not os.path.isfile(os.path.join(d, "patch.diff")): continue
            try:
                meta = json.load(open(os.path.join(d, "meta.json")))
            except Exception as e:
                meta = {"title": f"(meta.json unreadable: {e})"}
            sh("git checkout -- . && git clean -fdq -e target", wt)
            env = {"CARGO_TARGET_DIR": wt + "/target"}
            a = sh(f"git apply {d}/demo.diff", wt)
            if a.returncode != 0:
                print(f"{prop}/{k}: demo.diff does not apply: {a.stderr[:200]}"); continue
            m = re.search(r"cargo test[^;\n`\"]*", str(meta.get("demo_test", "")))
            if m:
                cmd = m.group(0).strip().rstrip(".)")
            else:
                files = sh("git diff --name-only; git ls-files --others --exclude-standard", wt).stdout.split()
                toml = os.path.join(wt, crate_of(files[0]), "Cargo.toml")
                name = re.search(r'name\s*=\s*"([^"]+)"', open(toml).read()).group(1)
                cmd = f"cargo test -p {name} --offline"
            if "--offline" not in cmd: cmd += " --offline"
            r1 = sh(cmd + " 2>&1 | tail -30", wt, env)
            ok_head = "test result: ok" in r1.stdout and "FAILED" not in r1.stdout and "error:" not in r1.stdout and "error[" not in r1.stdout
            a = sh(f"git apply {d}/patch.diff", wt)
            if a.returncode != 0:
                print(f"{prop}/{k}: patch.diff does not apply with demo: {a.stderr[:200]}"); sh("git checkout -- . && git clean -fdq -e target", wt); continue
            r2 = sh(cmd + " 2>&1 | tail -40", wt, env)
            fails = "FAILED" in r2.stdout or "panicked" in r2.stdout
            compiles = "could not compile" not in r2.stdout
            sh("git checkout -- . && git clean -fdq -e target", wt)
            conf = {"demo_cmd": cmd, "demo_passes_on_head": ok_head, "demo_fails_with_patch": fails and compiles,
                    "head_tail": r1.stdout[-600:], "patched_tail": r2.stdout[-900:]}
            good = ok_head and fails and compiles
            print(f"{prop}/{k}: {'CONFIRMED' if good else 'NOT CONFIRMED'} head_ok={ok_head} patched_fails={fails} compiles={compiles} :: {meta.get('title', '')[:110]}")
            if good:
                dst = os.path.join(ROOT, "seeded", prop, (f"r{rnd}_" if rnd else "") + k)
                os.makedirs(dst, exist_ok=True)
                for f in ("patch.diff", "demo.diff"):
                    shutil.copy(os.path.join(d, f), os.path.join(dst, f))
                meta["confirmation"] = conf
                json.dump(meta, open(os.path.join(dst, "meta.json"), "w"), indent=1)
            else:
                print(r1.stdout[-500:]); print(r2.stdout[-500:])


if __name__ == "__main__":
    main()
