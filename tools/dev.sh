#!/bin/sh
# dev helper: generate build/<unit>.rs and run verus, printing errors concisely
U="$1"; shift
cd "$(dirname "$0")" && python3 gen.py ../specs/$U.vs -o ../build/$U.rs || exit 2
cd ../build && CARGO_PKG_VERSION=2.0.0 verus $U.rs --multiple-errors 10 "$@" 2>&1 | grep -v "^warning: unused" | grep -A${CTX:-18} -E "^error|verification results" | grep -v "^note: automatically chose" | head -${HEAD:-120}
