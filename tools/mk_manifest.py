#!/usr/bin/env python3
"""writes /verif/MANIFEST.json from the table below (kept in one place so it stays valid)"""
import json, os, glob, re, sys
ROOT = os.path.dirname(os.path.dirname(os.path.abspath(__file__)))
sys.path.insert(0, os.path.join(ROOT, "tools"))
import gen

TRUST = ("Trusted base: the shim of assumed contracts on cosmwasm-std 2.0.2 / cw-storage-plus 2.0.0 / cw-utils / cw-controllers / cw2 "
         "(every external_body / axiom / assume_specification is listed in the evidence file on each run), environment assumptions A1-A8 "
         "(DESIGN.md 5.4), structural semantics of derived Clone/PartialEq/Default, rustc + Verus 0.2026.09.13 + Z3. "
         "Assumed leaves (not verified by Verus) are named in the evidence under assumed_leaves / bounded.")

CLAIMS = {
    "C01": ("Verus proves, for every input and every pre-state satisfying the invariant, whole-state postconditions of instantiate, create_accounts, the dispatcher and every execute_* handler of cw20-base (extracted from /repo on each run): supply == sum of balances is inductive, and supply moves only at mint/burn by exactly the amount with exactly one balance; lemmas lift this to every finite history.",
            "7 C01", "function contracts + sum-over-storage invariant + history lemma (Verus); validate_accounts verified via assumed sort/dedup contracts"),
    "C02": ("Verus proves exact step relations for transfer/send/burn and the *_from handlers (debit only of sender or of an owner under an unexpired sufficient allowance, allowance lowered by exactly the amount, exactly one Receive notification naming the true initiator), exact increase/decrease relations, and an inductive budget lemma drawn + remaining <= granted over every history.",
            "7 C02", "function contracts + per-step lemmas + inductive budget lemma (Verus)"),
    "C13": ("Verus proves mint requires sender == stored minter and supply+amount <= cap, update_minter requires the current minter and copies the cap, every other handler leaves minter/cap alone, instantiate establishes supply <= cap; history lemma: None is absorbing, cap constant while a minter exists, supply <= cap always. Success direction: the minter can mint up to and including the cap.",
            "7 C13", "function contracts + cap invariant + history lemma (Verus)"),
    "C04": ("Verus proves on the real packages/cw3 code that votes_needed(w,p) == ceil(floor(1e9*w*p/1e18)/1e9) with the u64 cast in range and no overflow (strict shim), that is_passed/is_rejected equal spec functions written from the cw3 threshold rules for every valid threshold and tally <= total, and lemmas: exact for <=9 decimals, within one vote and never stricter for 18, monotone, p/(1-p) complement, never both passed and rejected, early Passed/Rejected sound for every completion, Passed needs yes > 0.",
            "7 C04", "function contracts against spec functions + nonlinear arithmetic lemmas (Verus)"),
    "C03": ("Verus proves Proposal::current_status/update_status == spec_status written from the cw3 threshold rules (on the real packages/cw3 code), that both multisigs recompute and store exactly that on every vote, admit Execute only when it is Passed and Close only when expired and not Passed, and keep the stored tally equal, kind by kind, to the recorded ballots (sum-over-storage invariants); Passed needs yes > 0.",
            "7 C03", "function contracts + spec-function equality + sum-over-storage invariants (Verus)"),
    "C05": ("Verus proves whole-state step relations of propose/vote/execute/close of both multisigs: next id = count+1, expiry clamped to the maximum voting period, Execute only on Passed (and authorised in flex) storing Executed and dispatching exactly the proposal's messages (after the refund), Close only on expired non-passed proposals dispatching nothing but the refund; lemmas: content fixed, stored status only moves forward, at most one successful Execute per proposal over any history. Success direction: Execute of a Passed proposal by an entitled caller (anyone, the configured address, or a group member) and Close of an expired unpassed proposal go through; refused Close / Execute calls leave no trace.",
            "7 C05", "function contracts + lifecycle lemmas over histories (Verus)"),
    "C06": ("fixed: Verus proves total_weight == sum of the voter table (instantiate loop invariant; duplicate voters rejected after fix 9201625), one ballot per voter with the voter's table weight >= 1 (proposer's implicit Yes may be 0), tally == weight of voters with a ballot <= total, voter table immutable. flex: ballot weight == the group's Member{at_height: start_height} answer >= 1 via verified cw4 helper contracts; the two snapshot clauses of Propose are recorded known findings (D3). Success direction: an entitled voter (fixed list weight >= 1 / snapshot weight >= 1) on a votable, unexpired proposal without a ballot is never refused.",
            "7 C06", "function contracts + weighted-sum invariants + group oracle (Verus)"),
    "C15": ("Verus proves on packages/cw3/deposit.rs and cw3-flex: Propose succeeds only if exactly the configured native amount is attached or emits exactly one cw20 TransferFrom of the amount from the proposer; Execute always emits exactly one refund to the proposer when a deposit exists; Close emits the refund iff refund_failed_proposals; no other call emits messages. Recoverability of voted-down deposits is a recorded known finding (D6); created-expired proposals fixed (426f6f3). Success direction: Close goes through on every expired proposal that did not pass (so the deposit is recoverable), Execute on every passed one for an entitled caller; the refund message is always constructible.",
            "7 C15", "function contracts on emitted messages + known-finding variants (Verus)"),
    "C07": ("Verus proves for cw1-whitelist Execute: Ok <=> sender is a listed admin, messages == exactly the submitted ones in order, storage untouched; for cw1-subkeys Execute an exact success condition (admin, or every message covered in order by permissions / unexpired sufficient allowance, threaded through a loop invariant), exact relay, and that only the caller's own allowance entry changes.",
            "7 C07", "function contracts with exact (iff) success conditions + loop invariant (Verus)"),
    "C08": ("Verus proves the subkey spend path leaves exactly run(allowance, msgs) (sequential NativeBalance subtraction, expiry checked on every Bank send), increase/decrease relations (admin only, expired restarts from zero, saturating, expiry must be in the future), and lemmas: per denomination relayed + remaining == initial, budget inequality per step, other subkeys' entries untouched.",
            "7 C08", "function contracts + loop invariant + per-denomination lemmas (Verus)"),
    "C16": ("Both code paths get exact contracts over one spec predicate: CanExecute returns exec_ok(state, block, sender, [msg]) and Execute succeeds iff exec_ok(state, block, sender, msgs); the lemma instantiates msgs = [msg]. Any divergence of either path fails its own obligation.",
            "7 C16", "relational: two exact contracts over one shared spec predicate (Verus)"),
    "C17": ("Verus proves Freeze/UpdateAdmins succeed only for a listed admin while mutable and write exactly the new list/flag, every other handler leaves the admin list alone, allowance/permission changes require a listed admin; lemmas: immutable is absorbing over any history. Success direction: IncreaseAllowance and SetPermissions are never refused to a current admin (also when the list is frozen).",
            "7 C17", "function contracts + frames + absorbing-state lemma (Verus)"),
    "C09": ("Verus proves for cw4-group (create, update_members with both loops, dispatcher) and cw4-stake (update_membership, bond/unbond/claim, dispatcher) that TOTAL == sum of the member table is an inductive invariant, that every member/total write passes the current block height and every at-height query goes through may_load_at_height; the sentence 'value at the start of block h' is then a lemma proved over the ASSUMED SnapshotMap model (first changelog entry >= h, else current) for every history of writes at non-decreasing heights and every h. validate_unique_members is verified too (sort_by / neighbour pairs via assumed std contracts); instantiate stores exactly the given members; the query entry points route Member / TotalWeight with their at_height to those functions. The raw-key layout of member_key is an assumed leaf with a bounded Kani stand-in (thorough tier).",
            "7 C09", "function contracts + sum invariant + loop invariants + snapshot lemma over the assumed dependency model (Verus)"),
    "C10": ("Verus proves on cw4-stake: only the configured native denom / cw20 contract is accepted and the stake grows by exactly the provided amount; unbond checked-subtracts and creates a claim maturing at unbonding_period.after(block); Claim releases exactly the matured claims (assumed Claims contract) and emits exactly one payout of that amount to the caller; calc_weight == stake / tokens_per_weight with no truncation (fix a148515), None iff stake < min_bond, and the member entry always equals it; lemma: books = stakes + claims moves only by bond (+amount) and claim (-payout). Success direction: Claim goes through whenever matured claims exist; the unbond stake closure and calc_weight refuse only an uncovered amount / a weight beyond 64 bits.",
            "7 C10", "function contracts + books lemma (Verus)"),
    "C14": ("Verus proves update_members asserts the admin before any write and returns diffs that form a chain of single-member writes with the true previous and new weight of exactly the touched addresses (ghost state sequence), that execute_update_members / update_membership emit exactly one MemberChangedHook message per registered hook carrying those diffs (none when nothing changed), and that UpdateAdmin/AddHook/RemoveHook are wired to the admin-checked cw-controllers functions (assumed contracts).",
            "7 C14", "function contracts + ghost diff chain + assumed cw-controllers contracts (Verus)"),
    "C11": ("Verus proves whole-state step relations for every ics20 entry point that touches a channel balance: transfer (+amount, escrow attached or received via cw20 Receive), packet receive (voucher must carry the counterparty port/channel prefix, checked -amount, exactly one payout sub-message of the amount, reply on error), reply(Err) (+amount back), error ack / timeout (checked -amount, exactly one refund to the sender); lemmas give the per-(channel, denom) delta of each and that a reduction needs a covering balance, so payouts never exceed escrow. Real token holdings enter only through A4. parse_voucher_denom is verified against the assumed splitn semantics; Amount::from_parts / Amount::denom are assumed leaves (string code) with bounded Kani stand-ins in the thorough tier; migrate reconciles channel balances exactly for stored versions <= 0.13.0 (v2::update_balances verified: refuses more than one channel, touches nothing but channel balances; v2::update_denom assumed) and leaves them alone otherwise.",
            "7 C11", "function contracts + per-channel accounting lemmas (Verus)"),
    "C12": ("Verus proves ibc_packet_receive never returns Err, that a success ack implies the full receive step and an error ack implies storage unchanged and no sub-message (fix 2af7d5b), that execute_transfer emits exactly one SendPacket carrying amount (<= u64::MAX), denom, true sender, receiver, memo and timeout = block time + requested/default seconds, and the exact balance deltas of ack/timeout/reply. Success direction: a covered refund of a failed / timed-out native transfer goes through; increase / undo of a readable channel balance never fails.",
            "7 C12", "function contracts on state and emitted messages (Verus)"),
    "C18": ("Verus proves Allow requires the governance address and only adds or loosens an entry, no entry point removes an allow-list entry, transfer of a cw20 needs an entry or a default limit, every payout/refund sub-message carries gas_limit_for(token) (entry limit, else default), migrate keeps the allow list and sets but never unsets the default; lemma: per call an entry changes only by Allow from governance, limits only loosen. Success direction: a transfer of an allowed token (or any cw20 when a default limit exists) on a registered channel is accepted; native amounts never fail the gas-limit lookup.",
            "7 C18", "function contracts + monotonicity lemma (Verus)"),
    "C19": ("Verus proves that every cw20-base handler preserves the mirror invariant ALLOWANCES[(o,s)] == ALLOWANCES_SPENDER[(s,o)] for every pair (increase, decrease/removal, every *_from draw write both maps with the same value), that the single-allowance query, the owner listing and the spender listing each return exactly the stored entry of their own map (listing contracts over the ASSUMED range model), a lemma that under the invariant the three views report the same amount and expiry, and that migrate of a pre-0.14 token with an empty spender map establishes the invariant (loop invariant over the owner-map listing).",
            "7 C19", "function contracts + mirror invariant + loop invariant for migration (Verus)"),
    "C20": ("Verus proves for 16 list queries (cw20 accounts / owner allowances / spender allowances, subkeys allowances (filtered by expiry) and permissions, cw3-fixed and cw3-flex proposals forward and reverse and votes, cw3-fixed voters, cw4-group and cw4-stake members, ics20 allow list) that the returned page is exactly page(listing, cursor, limit): the first min(limit or 10, 30) entries strictly after (before, for reverse) the cursor in key order of the ASSUMED cw-storage-plus range model, each shown with its stored value; lemmas prove that chaining pages by the last returned key yields consecutive slices of the listing (every item once, in order, for every size, limit and cursor). cw3-flex list_voters only forwards to the group contract and is outside.",
            "7 C20", "function contracts against a page() spec function + pagination completeness lemmas (Verus)"),
}

NOT_YET = "machinery for this property is not built yet in this round (see DESIGN.md section 11 build order); not claimed until its unit verifies on the unchanged tree"


def main():
    props = [json.loads(l) for l in open(os.path.join(ROOT, "properties.jsonl"))]
    served = {}
    for p in sorted(glob.glob(os.path.join(ROOT, "specs", "*.vs"))):
        meta, _ = gen.parse_spec(p)
        for c in meta["properties"]:
            served.setdefault(c, []).append(meta["unit"])
    checks, na = [], []
    for pr in props:
        pid = pr["id"]
        if pid in CLAIMS and pid in served:
            text, ref, tech = CLAIMS[pid]
            checks.append({
                "property_id": pid,
                "quick_cmd": f"./check {pid} --tier quick",
                "thorough_cmd": f"./check {pid} --tier thorough",
                "evidence_file": f"evidence/{pid}.json",
                "replay_cmd_template": "./check --replay {path}",
                "engine": "verus-contracts",
                "level_claimed": {"category": "proof", "text": text, "design_ref": "DESIGN.md section " + ref},
                "level_note": TRUST,
                "technique": tech,
            })
        else:
            na.append({"property_id": pid, "reason": NA.get(pid, NOT_YET)})
    man = {
        "version": 1,
        "setup_cmd": "python3 tools/setup.py",
        "hooks": {
            "guard": "none (no hook in /repo; Kani sets cfg(kani) on a scratch copy only)",
            "enable": "no source hooks: functions are extracted from /repo's working tree and verified against the shim; Kani harness modules are appended to a scratch copy outside /repo",
            "baseline_off_cmd": "cd /repo && cargo test --workspace --no-fail-fast --offline",
            "source_commits": FIX_COMMITS,
            "add_only": True,
        },
        "engines": [{"name": "verus-contracts", "path": "tools/driver.py", "serves_properties": [c["property_id"] for c in checks],
                     "kind_free_text": "contract-based deductive verification: Verus (Z3) on functions extracted mechanically from /repo each run, against a shim of assumed dependency contracts"}],
        "checks": checks,
        "not_applicable": na,
        "notes": "exit 0 = all obligations serving the property discharged; exit 1 = a baseline obligation fails (VIOLATION line per obligation); exit 2 = undecided (lost anchor, unsupported construct or compile error of the generated file, rlimit, vacuity, a function that gained a closure without contract). Range conditions of arithmetic that a changed tree adds are left to the runtime overflow checks in non-strict units (DESIGN.md 6). Every VIOLATION line ends with no-failing-input-found (Verus gives no counterexample); the replay file names the failed obligation and carries the verifier's output. See DESIGN.md 0, 6, 9, 12.",
    }
    json.dump(man, open(os.path.join(ROOT, "MANIFEST.json"), "w"), indent=1)
    print(f"MANIFEST.json: {len(checks)} checks, {len(na)} not_applicable")


NA = {}
FIX_COMMITS = []
if __name__ == "__main__":
    main()
