"""Generator: unit spec (specs/<unit>.vs) + /repo working tree + shim -> build/<unit>.rs

The spec file contains only contracts, spec functions and lemmas. Function bodies, struct
and enum definitions and constants are extracted verbatim from /repo on every run
(DESIGN.md section 3); the rewrites applied are exactly E1..E12 and each is wrapped in
marker comments so that `roundtrip()` can undo them and compare with the original tokens.
"""
from __future__ import annotations
import base64, dataclasses, hashlib, json, os, re, sys
from dataclasses import dataclass, field
from typing import Dict, List, Optional, Tuple
import rs

REPO = os.environ.get("VERIF_REPO", "/repo")
ROOT = os.path.dirname(os.path.dirname(os.path.abspath(__file__)))


try:
    PARAMS_BASE = json.load(open(os.path.join(os.path.dirname(os.path.dirname(os.path.abspath(__file__))), "specs", "PARAMS.json")))
except Exception:
    PARAMS_BASE = {}


NO_E23 = False   # set by the driver for a last attempt when an E23 / E25 rewrite does not type-check
E25_RESULT = False   # second attempt: `map` / `and_then` with a new closure are taken for the Result forms


class AnchorLost(Exception):
    """a listed item / loop / closure is no longer where the spec expects it -> exit 2"""


# ----------------------------------------------------------------------------- spec parsing

@dataclass
class Clause:
    kind: str                 # requires | ensures | closure | loop | prefix | insert_before | ret | types | nested
    label: Optional[str]
    args: List[str]
    text: str
    line: int


@dataclass
class Directive:
    kind: str                 # fn | method | struct | enum | const | verbatim
    path: str = ""
    owner: str = ""           # impl type for methods
    name: str = ""
    opts: Dict[str, str] = field(default_factory=dict)
    clauses: List[Clause] = field(default_factory=list)
    text: str = ""            # for verbatim
    line: int = 0


SUB = ("@ret", "@requires", "@ensures", "@closure", "@loop", "@prefix", "@insert_before", "@recommends",
       "@decreases", "@nested", "@attr", "@closure_types", "@generics", "@replace", "@loop_begin", "@loop_end", "@adapter", "@inline_snapshot_update", "@rename_param", "@after_loop", "@split_before", "@eta")


def parse_spec(path: str):
    meta = {"unit": None, "shim": [], "properties": [], "strict": False}
    dirs: List[Directive] = []
    cur: Optional[Directive] = None
    cl: Optional[Clause] = None
    verb: List[str] = []
    verb_line = 1

    def flush_verb():
        nonlocal verb
        if verb:
            dirs.append(Directive("verbatim", text="".join(verb), line=verb_line))
            verb = []

    def read_lines(pth, depth=0):
        out = []
        for raw in open(pth).readlines():
            m = re.match(r"\s*@include\s+(\S+)", raw)
            if m and depth < 5:
                out += read_lines(os.path.join(os.path.dirname(pth), m.group(1)), depth + 1)
            else:
                out.append(raw)
        return out
    lines = read_lines(path)
    for ln, raw in enumerate(lines, 1):
        s = raw.strip()
        if cur is None:
            if s.startswith("@unit "):
                meta["unit"] = s.split()[1]; continue
            if s.startswith("@shim "):
                meta["shim"] += s.split()[1:]; continue
            if s.startswith("@properties "):
                meta["properties"] += s.split()[1:]; continue
            if s.startswith("@strict"):
                meta["strict"] = True; continue
            m = re.match(r"@(fn|method|struct|enum|const|nestedfn)\s+(\S+)\s+(.*)$", s)
            if m:
                flush_verb()
                kind, p, rest = m.group(1), m.group(2), m.group(3).strip()
                opts = {}
                mo = re.search(r"\[(.*)\]\s*$", rest)
                if mo:
                    for kv in mo.group(1).split(";"):
                        kv = kv.strip()
                        if not kv: continue
                        k, _, v = kv.partition(":")
                        opts[k.strip()] = v.strip()
                    rest = rest[:mo.start()].strip()
                parts = rest.split()
                d = Directive(kind, path=p, line=ln, opts=opts)
                if kind == "method":
                    d.owner, d.name = " ".join(parts[:-1]), parts[-1]
                else:
                    d.name = parts[0]
                if kind in ("fn", "method"):
                    cur = d
                else:
                    dirs.append(d)
                continue
            if not verb: verb_line = ln
            verb.append(raw)
        else:
            if s == "@end":
                dirs.append(cur); cur = None; cl = None; continue
            if s.startswith("@") and s.split()[0] in SUB:
                parts = s.split()
                kind = parts[0][1:]
                args = parts[1:]
                label = None
                if kind in ("ensures",) and args:
                    label = args[0]; args = args[1:]
                elif kind in ("closure", "loop") and len(args) >= 2:
                    label = args[1]
                if kind == "insert_before":
                    mm = re.match(r'@insert_before\s+"(.*)"\s+(\d+)\s*$', s)
                    if not mm: raise SystemExit(f"{path}:{ln}: bad @insert_before")
                    args = [mm.group(1), mm.group(2)]
                if kind == "eta":
                    mm = re.match(r'@eta\s+"(.*)"\s+(\d+)\s*$', s)
                    if not mm: raise SystemExit(f"{path}:{ln}: bad @eta")
                    args = [mm.group(1), mm.group(2)]
                if kind == "split_before":
                    mm = re.match(r'@split_before\s+"(.*)"\s+(\d+)\s*$', s)
                    if not mm: raise SystemExit(f"{path}:{ln}: bad @split_before")
                    args = [mm.group(1), mm.group(2)]
                if kind == "replace":
                    mm = re.match(r'@replace\s+(E\d+)\s+"(.*)"\s+(\d+)\s*$', s)
                    if not mm: raise SystemExit(f"{path}:{ln}: bad @replace")
                    args = [mm.group(1), mm.group(2), mm.group(3)]
                cl = Clause(kind, label, args, "", ln)
                cur.clauses.append(cl)
                continue
            if cl is None:
                if s == "" or s.startswith("//"): continue
                raise SystemExit(f"{path}:{ln}: text outside a clause in @fn block")
            cl.text += raw
    if cur is not None:
        raise SystemExit(f"{path}: unterminated @fn block for {cur.name}")
    flush_verb()
    return meta, dirs


# ----------------------------------------------------------------------------- source cache

class Source:
    cache: Dict[str, "Source"] = {}

    def __init__(self, rel: str):
        self.rel = rel
        p = os.path.join(REPO, rel)
        if not os.path.exists(p):
            raise AnchorLost(f"file missing: {rel}")
        self.src = open(p, encoding="utf-8").read()
        self.toks = rs.tokenize(self.src)
        self.st = rs.sig(self.toks)
        self.items = rs.find_items(self.st, 0, len(self.st))

    @classmethod
    def get(cls, rel: str) -> "Source":
        if rel not in cls.cache:
            cls.cache[rel] = Source(rel)
        return cls.cache[rel]

    def line_of(self, off: int) -> int:
        return self.src.count("\n", 0, off) + 1

    def top(self, kind: str, name: str) -> rs.Item:
        if "::" in name:
            # item inside (nested) modules of this file: "v1::CONFIG"
            parts = name.split("::")
            items = self.items
            for m in parts[:-1]:
                mods = [i for i in items if i.kind == "mod" and i.name == m and not i.cfg_test]
                if len(mods) != 1: raise AnchorLost(f"{self.rel}: mod {m}: found {len(mods)}")
                bo = mods[0].kw
                while self.st[bo].text != "{": bo += 1
                items = rs.find_items(self.st, bo + 1, mods[0].st_hi)
            c = [i for i in items if i.kind == kind and i.name == parts[-1] and not i.cfg_test]
            if len(c) != 1: raise AnchorLost(f"{self.rel}: {kind} {name}: found {len(c)}")
            return c[0]
        c = [i for i in self.items if i.kind == kind and i.name == name and not i.cfg_test]
        if len(c) != 1:
            raise AnchorLost(f"{self.rel}: {kind} {name}: found {len(c)}")
        return c[0]

    def method(self, owner: str, name: str) -> Tuple[rs.Item, rs.Item]:
        """owner: 'Type' (inherent impl) or 'Trait for Type'"""
        own = owner.replace(" ", "")
        own_base = re.sub(r"<[^<>]*>", "", re.sub(r"<[^<>]*>", "", own))
        found = []
        for imp in self.items:
            if imp.kind != "impl" or imp.cfg_test: continue
            hdr = imp.name.replace(" ", "")
            # strip generic args from header for comparison
            base = re.sub(r"<[^<>]*>", "", re.sub(r"<[^<>]*>", "", hdr))
            if base != own and hdr != own and base != own_base: continue
            if own != own_base and hdr != own: continue   # generic arguments given: require an exact header match
            # body items
            bo = imp.kw
            while self.st[bo].text != "{": bo += 1
            for it in rs.find_items(self.st, bo + 1, imp.st_hi):
                if it.kind == "fn" and it.name == name and not it.cfg_test:
                    found.append((imp, it))
        if len(found) != 1:
            raise AnchorLost(f"{self.rel}: method {owner}::{name}: found {len(found)}")
        return found[0]

    def nested_fn(self, outer: rs.Item, name: str) -> rs.Item:
        fp = rs.parse_fn(self.st, outer)
        c = []
        i = fp.body_open + 1
        while i < fp.body_close:
            t = self.st[i]
            if t.kind == "ident" and t.text == "fn" and self.st[i + 1].text == name:
                its = rs.find_items(self.st, i, fp.body_close)
                c.append(its[0])
                break
            i += 1
        if len(c) != 1:
            raise AnchorLost(f"{self.rel}: nested fn {name} in {outer.name}: not found")
        return c[0]


# ----------------------------------------------------------------------------- splicing with markers

def b64(s: str) -> str:
    return base64.b64encode(s.encode()).decode()


def ADD(rule: str, text: str) -> str:
    return f"/*+{rule}*/{text}/*-*/"


def REP(rule: str, orig: str, text: str) -> str:
    return f"/*~{rule} {b64(orig)}*/{text}/*-*/"


MARK = re.compile(r"/\*\+(E\d+)\*/(.*?)/\*-\*/|/\*~(E\d+) ([A-Za-z0-9+/=]*)\*/(.*?)/\*-\*/", re.S)


def undo_markers(text: str) -> str:
    # innermost first: repeat until no marker is left
    prev = None
    while prev != text:
        prev = text
        def r(m):
            if m.group(1): return ""
            return base64.b64decode(m.group(4)).decode()
        # only replace markers that do not contain another marker start inside
        text = re.sub(r"/\*\+(E\d+)\*/((?:(?!/\*[+~]E\d).)*?)/\*-\*/|/\*~(E\d+) ([A-Za-z0-9+/=]*)\*/((?:(?!/\*[+~]E\d).)*?)/\*-\*/", r, text, flags=re.S)
    return text


def sig_text(text: str) -> List[str]:
    return [t.text for t in rs.sig(rs.tokenize(text))]


class Splicer:
    def __init__(self, src: str, lo: int, hi: int):
        self.src, self.lo, self.hi = src, lo, hi
        self.ops: List[Tuple[int, int, str, int]] = []   # (start, end, replacement, seq)

    def insert(self, off: int, text: str):
        self.ops.append((off, off, text, len(self.ops)))

    def replace(self, a: int, b: int, text: str):
        self.ops.append((a, b, text, len(self.ops)))

    def render(self) -> str:
        # ops must not partially overlap. Inserts at the same offset keep their order.
        out = []
        pos = self.lo
        for a, b, text, _ in sorted(self.ops, key=lambda o: (o[0], o[1] != o[0], o[3])):
            if a < pos:
                raise SystemExit(f"overlapping splice at {a}")
            out.append(self.src[pos:a]); out.append(text); pos = b
        out.append(self.src[pos:self.hi])
        return "".join(out)


# ----------------------------------------------------------------------------- emit helpers

@dataclass
class Seg:
    text: str
    item: Optional[str] = None       # function id this text belongs to
    label: Optional[str] = None      # obligation label for these lines


class Out:
    def __init__(self):
        self.segs: List[Seg] = []

    def add(self, text: str, item=None, label=None):
        if text and not text.endswith("\n"): text += "\n"
        self.segs.append(Seg(text, item, label))

    def render(self):
        lines_meta = []   # per line: (item, label)
        buf = []
        for s in self.segs:
            n = s.text.count("\n")
            buf.append(s.text)
            lines_meta += [(s.item, s.label)] * n
        return "".join(buf), lines_meta


def strip_attrs(st, src, lo_idx, hi_idx, sp: Splicer, rule="E1"):
    """drop every `#[...]` attribute among st[lo_idx..hi_idx]; returns list of attr texts with st index"""
    found = []
    i = lo_idx
    while i <= hi_idx:
        if st[i].text == "#" and st[i + 1].text == "[":
            e = rs.match_close(st, i + 1)
            txt = src[st[i].start:st[e].end]
            sp.replace(st[i].start, st[e].end, REP(rule, txt, ""))
            found.append((i, txt))
            i = e + 1
        else:
            i += 1
    return found


def add_static(type_text: str) -> str:
    """spell elided lifetimes in a const type as 'static (E7)"""
    toks = rs.tokenize(type_text)
    out = []
    for k, t in enumerate(toks):
        out.append(t.text)
        if t.kind == "punct" and t.text == "&":
            nxt = next((x for x in toks[k + 1:] if x.kind not in ("ws", "comment")), None)
            if nxt is not None and nxt.kind != "lifetime":
                out.append("'static ")
    return "".join(out)


# ----------------------------------------------------------------------------- item emitters

class Gen:
    def __init__(self, spec_path: str, mode: str = "main", kf_omit: Optional[set] = None, kf_only: Optional[str] = None):
        self.spec_path = spec_path
        self.meta, self.dirs = parse_spec(spec_path)
        self.unit = self.meta["unit"]
        self.mode = mode                  # main | vacuity
        self.kf_omit = kf_omit or set()   # obligation ids whose clause is left out (known findings)
        self.out = Out()
        self.functions: Dict[str, dict] = {}   # fid -> info
        self.items_sha: Dict[str, str] = {}
        self.rewrites: List[dict] = []
        self.param_names: Dict[str, list] = {}
        self.extracted: List[Tuple[str, str, str]] = []   # (id, original text, emitted text)
        self.skipped_hints: List[str] = []

    # ---- consts (E7)
    def emit_const(self, d: Directive):
        S = Source.get(d.path)
        it = S.top("const", d.name)
        st, src = S.st, S.src
        orig = it.text(src)
        self.items_sha[f"{d.path}::{d.name}"] = hashlib.sha256(orig.encode()).hexdigest()
        # find ':' type '=' init ';'
        i = it.kw + 2
        assert st[i].text == ":", f"const {d.name}"
        j = i + 1
        depth = 0
        while True:
            t = st[j]
            if t.text == "<": depth += 1
            elif t.text == ">": depth -= 1
            elif t.text == "=" and depth == 0: break
            elif t.text in ("(", "["): j = rs.match_close(st, j)
            j += 1
        ty = src[st[i + 1].start:st[j - 1].end]
        init = src[st[j + 1].start:st[it.st_hi - 1].end]
        sp = Splicer(src, it.start, it.end)
        strip_attrs(st, src, it.st_lo, it.kw - 1, sp)
        ty2 = add_static(ty)
        if ty2 != ty:
            sp.replace(st[i + 1].start, st[j - 1].end, REP("E7", ty, ty2))
        m = re.match(r'\s*(Map|Item|SnapshotMap|SnapshotItem|Admin|Hooks|Claims)\s*::\s*new\s*\(', init)
        if m or d.opts.get("exec"):
            ens = d.opts.get("ensures")
            if ens is None:
                lits = [t.text for t in rs.sig(rs.tokenize(init)) if t.kind == "lit" and t.text.startswith('"')]
                if not lits: raise AnchorLost(f"const {d.name}: no namespace literal")
                short = d.name.split("::")[-1]
                ens = f"{short}.ns@ == {lits[0]}@"
                if m.group(1) in ("SnapshotMap", "SnapshotItem") and len(lits) >= 3:
                    ens += f", {short}.cp@ == {lits[1]}@, {short}.cl@ == {lits[2]}@"
            sp.insert(st[it.kw].start, ADD("E7", "exec "))
            sp.replace(st[j].start, st[j].end, REP("E7", "=", f"ensures {ens} {{"))
            sp.replace(st[it.st_hi].start, st[it.st_hi].end, REP("E7", ";", "}"))
        text = sp.render()
        self.extracted.append((f"{d.path}::{d.name}", orig, text))
        self.out.add(text)

    # ---- struct / enum (E1)
    def emit_adt(self, d: Directive):
        S = Source.get(d.path)
        it = S.top(d.kind, d.name)
        st, src = S.st, S.src
        orig = it.text(src)
        self.items_sha[f"{d.path}::{d.name}"] = hashlib.sha256(orig.encode()).hexdigest()
        sp = Splicer(src, it.start, it.end)
        attrs = strip_attrs(st, src, it.st_lo, it.st_hi, sp)
        if d.opts.get("pub") is not None and not any(st[k].text == "pub" for k in range(it.st_lo, it.kw)):
            sp.insert(st[it.kw].start, ADD("E13", "pub "))   # visibility widened (single-file crate)
        text = sp.render()
        self.extracted.append((f"{d.path}::{d.name}", orig, text))
        self.out.add(text)
        outer = " ".join(a for i, a in attrs if i < it.kw).replace(" ", "")
        derives = set()
        if "cw_serde" in outer: derives |= {"Clone", "PartialEq"}
        for m in re.finditer(r"derive\(([^)]*)\)", outer):
            derives |= set(x.strip() for x in m.group(1).split(","))
        n = d.name.split("::")[-1]
        gen = []
        if d.opts.get("derive") is not None:
            derives = set(d.opts["derive"].split())
        # generics: `struct X<T = Empty>` -> impl<T> .. for X<T>
        gp, ga = "", ""
        if st[it.kw + 2].text == "<":
            ge = rs._skip_generics(st, it.kw + 2)
            params = []
            depth = 0; cur = []
            for tk in st[it.kw + 3:ge - 1]:
                if tk.text == "<": depth += 1
                if tk.text == ">": depth -= 1
                if tk.text == "," and depth == 0:
                    params.append(cur); cur = []
                else:
                    cur.append(tk)
            if cur: params.append(cur)
            names = []
            for prm in params:
                txt = []
                for tk in prm:
                    if tk.text == "=": break
                    txt.append(tk.text)
                names.append((txt[0], " ".join(txt)))
            gp = "<" + ", ".join(t for _, t in names) + ">"
            ga = "<" + ", ".join(nm for nm, _ in names) + ">"
        if d.opts.get("noderive") is None or d.opts.get("derive") is not None:
            if "Copy" in derives:
                gen.append(f"impl{gp} Copy for {n}{ga} {{}}")
                gen.append(f"impl{gp} Clone for {n}{ga} {{ #[verifier::external_body] fn clone(&self) -> (r: Self) ensures r == *self {{ unimplemented!() }} }}")
            elif "Clone" in derives:
                gen.append(f"impl{gp} Clone for {n}{ga} {{ #[verifier::external_body] fn clone(&self) -> (r: Self) ensures r == *self {{ unimplemented!() }} }}")
            if "PartialEq" in derives:
                gen.append(f"impl{gp} PartialEqSpecImpl for {n}{ga} {{ open spec fn obeys_eq_spec() -> bool {{ true }} open spec fn eq_spec(&self, o: &{n}{ga}) -> bool {{ *self == *o }} }}")
                gen.append(f"impl{gp} PartialEq for {n}{ga} {{ #[verifier::external_body] fn eq(&self, o: &{n}{ga}) -> (r: bool) {{ unimplemented!() }} }}")
            if "Eq" in derives:
                gen.append(f"impl Eq for {n} {{}}")
            if "Default" in derives and d.kind == "struct":
                # fieldwise default, verified (not external) against the field types' default contracts
                bo = it.kw
                while st[bo].text != "{": bo += 1
                bc = rs.match_close(st, bo)
                fields = []
                k = bo + 1
                while k < bc:
                    if st[k].text == "#": k = rs.match_close(st, k + 1) + 1; continue
                    if st[k].text == "pub":
                        k += 1
                        if st[k].text == "(": k = rs.match_close(st, k) + 1
                        continue
                    if st[k].kind == "ident" and st[k + 1].text == ":":
                        fields.append(st[k].text)
                        depth = 0
                        k += 2
                        while k < bc and not (st[k].text == "," and depth == 0):
                            if st[k].text == "<": depth += 1
                            elif st[k].text == ">": depth -= 1
                            elif st[k].text in ("(", "["): k = rs.match_close(st, k)
                            k += 1
                    k += 1
                dspec = d.opts.get("default")
                ens = f" ensures r == ({dspec})" if dspec else ""
                body = ", ".join(f"{f}: Default::default()" for f in fields)
                gen.append(f"impl Default for {n} {{ fn default() -> (r: Self){ens} {{ {n} {{ {body} }} }} }}")
        if d.opts.get("display") is not None:
            # the repository's `impl fmt::Display` (formatting only) is not extracted; an opaque stand-in keeps `.to_string()` typable
            gen.append(f"impl{gp} core::fmt::Display for {n}{ga} {{ #[verifier::external_body] fn fmt(&self, f: &mut core::fmt::Formatter<'_>) -> core::fmt::Result {{ unimplemented!() }} }}")
        # thiserror #[from]
        if d.kind == "enum":
            for idx, a in attrs:
                if a.replace(" ", "") == "#[from]":
                    # variant name: walk back to ident before '('
                    k = idx
                    while st[k].text != "(": k -= 1
                    var = st[k - 1].text
                    e = rs.match_close(st, k)
                    ea = rs.match_close(st, idx + 1)
                    ty = src[st[ea].end:st[e].start].strip()
                    gen.append(f"impl FromSpecImpl<{ty}> for {n} {{ open spec fn obeys_from_spec() -> bool {{ true }} open spec fn from_spec(e: {ty}) -> Self {{ {n}::{var}(e) }} }}")
                    gen.append(f"impl From<{ty}> for {n} {{ fn from(e: {ty}) -> (r: {n}) {{ {n}::{var}(e) }} }}")
        if gen:
            self.out.add("/*+E1*/\n" + "\n".join(gen) + "\n/*-*/")

    # ---- functions
    LAZY_TO_EAGER = {"ok_or_else": "ok_or", "unwrap_or_else": "unwrap_or", "or_else": "or"}

    def _thunk_to_eager(self, st, src, sp, cl, fid) -> bool:
        """E22: `x.ok_or_else(|| E)` -> `x.ok_or(E)`, `x.unwrap_or_else(|_| E)` -> `x.unwrap_or(E)`, `x.or_else(|_| E)` -> `x.or(E)` when E is a
        constant constructor expression (paths, struct / tuple-variant literals, literals, plain variables: no calls, no macros, no
        method calls) that does not use the closure's parameters: evaluating E eagerly instead of lazily is unobservable."""
        b = cl.bar
        if cl.arrow is not None or cl.is_block: return False
        if b < 3 or st[b - 1].text != "(" or st[b - 3].text != "." or st[b - 2].text not in self.LAZY_TO_EAGER: return False
        if rs.match_close(st, b - 1) != cl.body_hi + 1: return False
        pnames = set()
        if st[b].text == "|":
            for i in range(b + 1, cl.params_end):
                t = st[i]
                if t.kind == "ident" and t.text != "_": pnames.add(t.text)
                elif t.text not in ("_", ","): return False
        body = st[cl.body_lo:cl.body_hi + 1]
        for j, t in enumerate(body):
            nx = body[j + 1].text if j + 1 < len(body) else ""
            if t.kind == "ident":
                if t.text in pnames: return False
                if nx == "!": return False
                if nx == "(" and not t.text[:1].isupper(): return False
                if t.text in ("if", "match", "loop", "while", "for", "return", "break", "continue", "unsafe", "move", "async", "await"): return False
            elif t.kind == "punct":
                if t.text not in ("::", "{", "}", "(", ")", ",", ":", "&", "-"): return False
            elif t.kind not in ("lit", "num", "str", "int", "string", "char", "literal", "number"):
                return False
        a0, b0 = st[b].start, st[cl.body_hi].end
        btxt = src[st[cl.body_lo].start:st[cl.body_hi].end]
        sp.replace(st[b - 2].start, st[b - 2].end, REP("E22", st[b - 2].text, self.LAZY_TO_EAGER[st[b - 2].text]))
        sp.replace(a0, b0, REP("E22", src[a0:b0], btxt))
        self.rewrites.append({"fn": fid, "rule": "E22", "from": f".{st[b - 2].text}({src[a0:b0]})", "to": f".{self.LAZY_TO_EAGER[st[b - 2].text]}({btxt})"})
        return True

    def _pure_closure(self, st, cl):
        """'bool' (comparison / boolean expression), 'path' (a variable or field path), or None"""
        if cl.arrow is not None or cl.is_block: return None
        body = st[cl.body_lo:cl.body_hi + 1]
        if body and all((t.kind == "ident" and t.text not in ("self",)) or (t.kind == "punct" and t.text == ".") or (t.kind == "lit" and t.text.isdigit()) for t in body) \
                and body[0].kind == "ident" and len(body) >= 3 and not any(b.kind == "ident" and j + 1 < len(body) and body[j + 1].text in ("(", "!", "::") for j, b in enumerate(body)):
            return "path"
        return "bool" if self._bool_closure(st, cl) else None

    ITER_METHODS = {"iter", "into_iter", "iter_mut", "range", "range_raw", "keys", "keys_raw", "prefix_range", "take", "skip", "rev", "filter", "map",
                    "chain", "zip", "enumerate", "cloned", "copied", "values", "drain", "chars", "bytes", "split", "splitn", "lines", "filter_map", "flat_map"}

    def _inline_combinator(self, st, src, sp, cl, fid, fp) -> bool:
        """E25: `X.map(|p| B)` -> `(match X { Some(p) => Some(B), None => None })` and likewise and_then / filter / ok_or_else / unwrap_or_else /
        or_else / map_err / is_some_and: exactly the std definitions of these combinators, so evaluation order and results are unchanged.
        Only for closures the baseline does not know (they have no contract), with plain identifier parameters and a body without `?`,
        `return`, `break`, `continue` or nested closures; `map` / `filter` only when the receiver is not an iterator chain. `map` /
        `and_then` / `filter` are assumed to be the Option forms: if the receiver is a Result the generated file does not compile and the
        driver rebuilds the unit without E23/E25."""
        b = cl.bar
        if cl.arrow is not None: return False
        dflt = None
        if b >= 5 and st[b - 1].text == ",":
            # `X.map_or(D, |p| B)` with a constant D (evaluating a constant lazily instead of eagerly is unobservable)
            o = rs.enclosing_open(st, b, fp.body_open + 1)
            if o is None or st[o].text != "(" or st[o - 1].text != "map_or" or st[o - 2].text != ".": return False
            dt = st[o + 1:b - 1]
            if not dt or any((t.kind == "punct" and t.text not in ("::", "{", "}", ",", ":", "-", "&")) or (t.kind == "ident" and t.text[:1].islower() and t.text not in ("true", "false"))
                             or t.kind not in ("ident", "punct", "lit") for t in dt): return False
            if rs.match_close(st, o) != cl.body_hi + 1: return False
            dflt = src[dt[0].start:dt[-1].end]
            meth = "map_or"; call_open = o
        else:
            if b < 3 or st[b - 1].text != "(" or st[b - 3].text != ".": return False
            meth = st[b - 2].text
            if meth not in ("map", "and_then", "filter", "ok_or_else", "unwrap_or_else", "or_else", "map_err", "is_some_and"): return False
            call_open = b - 1
        close = rs.match_close(st, call_open)
        if close != cl.body_hi + 1: return False
        # parameters: identifiers (optionally `mut`, optionally `: Type`) or `_`
        pats = []
        if st[b].text == "|":
            cur = []; i = b + 1
            while i < cl.params_end:
                t = st[i]
                if t.text in rs.OPEN: return False
                if t.text == ",": pats.append(cur); cur = []
                else: cur.append(t)
                i += 1
            if cur: pats.append(cur)
        names = []
        for ptoks in pats:
            core = [t for t in ptoks]
            if ":" in [t.text for t in core]: core = core[:[t.text for t in core].index(":")]
            core = [t for t in core if t.text != "mut"]
            if len(core) != 1 or not (core[0].kind == "ident" or core[0].text == "_"): return False
            names.append(core[0].text)
        body = st[cl.body_lo:cl.body_hi + 1]
        for t in body:
            if (t.kind == "punct" and t.text in ("?", "|", "||")) or (t.kind == "ident" and t.text in ("return", "break", "continue", "await", "move")): return False
        dot = call_open - 2
        start = rs.postfix_start(st, dot, fp.body_open + 1)
        if start is None: return False
        if meth in ("map", "filter") and st[b - 4].text == ")":
            o = b - 4; depth = 0
            while o > start:
                if st[o].text in rs.CLOSE: depth += 1
                elif st[o].text in rs.OPEN:
                    depth -= 1
                    if depth == 0: break
                o -= 1
            if st[o - 1].kind == "ident" and st[o - 1].text in self.ITER_METHODS: return False
        a0, b0 = st[start].start, st[close].end
        if any(not (e <= a0 or s0 >= b0) for (s0, e, _, _) in sp.ops): return False
        recv = src[st[start].start:st[dot].start].rstrip()
        btxt = src[st[cl.body_lo].start:st[cl.body_hi].end]
        n = len(names)
        P = names[0] if n >= 1 else None
        arms = None
        if meth == "map" and n == 1 and E25_RESULT: arms = f"Ok({P}) => Ok({btxt}), Err(e__) => Err(e__)"
        elif meth == "and_then" and n == 1 and E25_RESULT: arms = f"Ok({P}) => {btxt}, Err(e__) => Err(e__)"
        elif meth == "map" and n == 1: arms = f"Some({P}) => Some({btxt}), None => None"
        elif meth == "and_then" and n == 1: arms = f"Some({P}) => {btxt}, None => None"
        elif meth == "filter" and n == 1 and P != "_": arms = f"Some(v__) => {{ let {P} = &v__; if {btxt} {{ Some(v__) }} else {{ None }} }}, None => None"
        elif meth == "ok_or_else" and n == 0: arms = f"Some(v__) => Ok(v__), None => Err({btxt})"
        elif meth == "unwrap_or_else" and n == 0: arms = f"Some(v__) => v__, None => {btxt}"
        elif meth == "unwrap_or_else" and n == 1: arms = f"Ok(v__) => v__, Err({P}) => {btxt}"
        elif meth == "or_else" and n == 0: arms = f"Some(v__) => Some(v__), None => {btxt}"
        elif meth == "or_else" and n == 1: arms = f"Ok(v__) => Ok(v__), Err({P}) => {btxt}"
        elif meth == "map_err" and n == 1: arms = f"Ok(v__) => Ok(v__), Err({P}) => Err({btxt})"
        elif meth == "is_some_and" and n == 1: arms = f"Some({P}) => {btxt}, None => false"
        elif meth == "map_or" and n == 1 and not E25_RESULT: arms = f"Some({P}) => {btxt}, None => {dflt}"
        elif meth == "map_or" and n == 1: arms = f"Ok({P}) => {btxt}, Err(_) => {dflt}"
        if arms is None: return False
        new = f"(match {recv} {{ {arms} }})"
        sp.replace(a0, b0, REP("E25", src[a0:b0], new))
        self.rewrites.append({"fn": fid, "rule": "E25", "from": f".{meth}(<new closure>)", "to": "the combinator's defining match", "at": self.src_line(st[b].start) if hasattr(self, "src_line") else None})
        return True

    def _bool_closure(self, st, cl) -> bool:
        if cl.arrow is not None or cl.is_block: return False
        body = st[cl.body_lo:cl.body_hi + 1]
        top = False; depth = 0
        for j, t in enumerate(body):
            nx = body[j + 1].text if j + 1 < len(body) else ""
            if t.kind == "ident":
                if nx in ("(", "!", "::") or t.text in ("if", "match", "loop", "while", "for", "return", "break", "continue", "unsafe", "move", "as"): return False
            elif t.kind == "punct":
                if t.text in ("(",): depth += 1
                elif t.text in (")",): depth -= 1
                elif t.text in ("<", "<=", ">", ">=", "==", "!=", "&&", "||"):
                    if depth == 0: top = True
                elif t.text not in (".", "*", "&", "!"): return False
            elif t.kind != "lit":
                return False
        return top

    def emit_fn(self, d: Directive):
        S = Source.get(d.path)
        st, src = S.st, S.src
        if d.kind == "method":
            imp, it = S.method(d.owner, d.name)
            fid = f"{d.owner.replace(' ', '_')}::{d.name}"
        else:
            if d.opts.get("nested_in"):
                outer = S.top("fn", d.opts["nested_in"])
                it = S.nested_fn(outer, d.name)
                fid = f"{d.opts['nested_in']}::{d.name}"
            else:
                it = S.top("fn", d.name)
                fid = d.name
            imp = None
        if d.opts.get("id"):
            fid = d.opts["id"]
        fp = rs.parse_fn(st, it)
        orig = it.text(src)
        key = f"{d.path}::{fid}"
        self.items_sha[key] = hashlib.sha256(orig.encode()).hexdigest()
        sp = Splicer(src, it.start, it.end)
        strip_attrs(st, src, it.st_lo, it.kw - 1, sp)
        if imp is None and not d.opts.get("nested_in") and not any(st[k].text == "pub" for k in range(it.st_lo, it.kw)):
            # E13: private fn made crate-visible (each function is emitted in its own module)
            k0 = it.st_lo
            while st[k0].text == "#": k0 = rs.match_close(st, k0 + 1) + 1
            sp.insert(st[k0].start, ADD("E13", "pub "))
        cls = d.clauses
        # E20: contracts refer to parameters by position. specs/PARAMS.json records the parameter names each contract was written
        # against; if a parameter has since been renamed in /repo (e.g. `block` -> `_block`), the recorded name is substituted by
        # the current one in every clause / hint text of this function (token-level; never a field or path segment)
        pnames = rs.param_names(st, fp)
        self.param_names[f"{self.unit}/{fid}"] = pnames
        base_names = PARAMS_BASE.get(f"{self.unit}/{fid}")
        if base_names and len(base_names) == len(pnames):
            ren = {b: a for a, b in zip(pnames, base_names) if a and b and a != b}
            if ren and not (set(ren.values()) & set(ren.keys())):
                def ren_args(c):
                    # anchors of hints / rewrites are code text too
                    if c.kind in ("eta", "insert_before", "split_before"): return [rs.rename_idents(c.args[0], ren)] + c.args[1:]
                    if c.kind == "replace": return [c.args[0], rs.rename_idents(c.args[1], ren)] + c.args[2:]
                    return c.args
                cls = [dataclasses.replace(c, text=rs.rename_idents(c.text, ren), args=ren_args(c)) for c in cls]
                self.rewrites.append({"fn": fid, "rule": "E20", "renamed_params": ren})
        ret_name = next((c.args[0] for c in cls if c.kind == "ret"), "r")
        labels: List[str] = []
        info = {"fid": fid, "file": d.path, "line": S.line_of(st[it.kw].start), "sha256": self.items_sha[key],
                "labels": labels, "unit": self.unit, "tags": {}, "kinds": {}}
        self.functions[fid] = info

        # E3: named return
        if fp.ret is not None:
            a, b = st[fp.ret[0]].start, st[fp.ret[1] - 1].end
            ty = src[a:b]
            sp.replace(a, b, REP("E3", ty, f"({ret_name}: {ty})"))
        # contract text goes right before the body '{' (after where clause)
        contract: List[Tuple[str, Optional[str]]] = []   # (text, label)
        if fp.where is not None:
            last = st[fp.where[1] - 1]
            if last.text != ",":
                sp.insert(last.end, ADD("E3", ","))
        req = [c for c in cls if c.kind == "requires"]
        rec = [c for c in cls if c.kind == "recommends"]
        ens = [c for c in cls if c.kind == "ensures"]
        dec = [c for c in cls if c.kind == "decreases"]
        pieces: List[Tuple[str, Optional[str]]] = []
        if req:
            pieces.append(("    requires\n", None))
            for c in req:
                pieces.append((_clause_text(c.text), None))
        if ens:
            kept = []
            for c in ens:
                oid = f"{self.unit}/{fid}#{c.label}"
                if oid in self.kf_omit:
                    continue
                kept.append(c)
            if kept:
                pieces.append(("    ensures\n", None))
                for c in kept:
                    labels.append(c.label)
                    info["tags"][c.label] = c.args
                    pieces.append((_clause_text(c.text), c.label))
        if dec:
            pieces.append(("    decreases " + dec[0].text.strip().rstrip(",") + "\n", None))
        # closures (E5/E6) and loops (E4)
        closures = rs.find_closures(st, fp.body_open + 1, fp.body_close)
        loops = rs.find_loops(st, fp.body_open + 1, fp.body_close)
        # E21: `continue` of a `for` loop in guard shape -> else branch (Verus: "for-loops do not yet support continue")
        csites, cbad = rs.find_for_continues(st, loops, fp.body_open + 1, fp.body_close)
        for cs_ in csites:
            sp.replace(st[cs_.kw].start, st[cs_.end].end, REP("E21", src[st[cs_.kw].start:st[cs_.end].end], ""))
            sp.insert(st[cs_.if_close].end, ADD("E21", " else {"))
            sp.insert(st[cs_.block_close].start, ADD("E21", "}"))
            self.rewrites.append({"fn": fid, "rule": "E21", "from": "if C { ..; continue; } REST", "to": "if C { ..; } else { REST }"})
        nclos = d.opts.get("closures")
        if nclos is not None and int(nclos) != len(closures):
            # soft: the function's shape changed; contracts keyed by ordinal are attached as far as they go and the
            # verifier decides (a misplaced clause can only fail, never wrongly succeed)
            self.skipped_hints.append(f"{fid}: expected {nclos} closures, found {len(closures)}")
            info.setdefault("skipped_hints", []).append(f"closure count {nclos} -> {len(closures)}")
        nloops = d.opts.get("loops")
        if nloops is not None and int(nloops) != len(loops):
            self.skipped_hints.append(f"{fid}: expected {nloops} loops, found {len(loops)}")
            info.setdefault("skipped_hints", []).append(f"loop count {nloops} -> {len(loops)}")
        clos_spec = {int(c.args[0]): c for c in cls if c.kind == "closure"}
        clos_types = {int(c.args[0]): c for c in cls if c.kind == "closure_types"}
        # closure specs are keyed by ordinal. If the number of closures differs from the one recorded in specs/PARAMS.json, the
        # recorded closures are aligned with the present ones by their parameter names (longest common subsequence); a spec whose
        # closure has no partner is skipped (soft), instead of being attached to an unrelated closure
        def _cnames(cl):
            out = []
            if st[cl.bar].text != "|": return tuple(out)
            gs, cg, idx = [], [], cl.bar + 1
            while idx < cl.params_end:
                t = st[idx]
                if t.text in rs.OPEN:
                    e = rs.match_close(st, idx); cg += list(range(idx, e + 1)); idx = e + 1; continue
                if t.text == ",": gs.append(cg); cg = []
                else: cg.append(idx)
                idx += 1
            if cg: gs.append(cg)
            for g in gs:
                toks = [st[i] for i in g if st[i].text not in ("mut", "&", "ref")]
                out.append(toks[0].text if toks and toks[0].kind == "ident" and toks[0].text != "_" else None)
            return tuple(out)
        actual_c = [_cnames(cl) for cl in closures]
        base_c = []
        while f"{self.unit}/{fid}#closure{len(base_c) + 1}" in PARAMS_BASE:
            base_c.append(tuple(PARAMS_BASE[f"{self.unit}/{fid}#closure{len(base_c) + 1}"]))
        closure_alias = {}   # actual ordinal -> recorded ordinal (for PARAMS lookup)
        if base_c and len(base_c) != len(actual_c):
            n, m = len(base_c), len(actual_c)
            L = [[0] * (m + 1) for _ in range(n + 1)]
            for i in range(n - 1, -1, -1):
                for j in range(m - 1, -1, -1):
                    L[i][j] = L[i + 1][j + 1] + 1 if base_c[i] == actual_c[j] else max(L[i + 1][j], L[i][j + 1])
            i = j = 0; mp = {}
            while i < n and j < m:
                if base_c[i] == actual_c[j]: mp[i + 1] = j + 1; i += 1; j += 1
                elif L[i + 1][j] >= L[i][j + 1]: i += 1
                else: j += 1
            for dct in (clos_spec, clos_types):
                newd = {}
                for kk, v in dct.items():
                    if kk in mp: newd[mp[kk]] = v
                    elif dct is clos_spec:
                        self.skipped_hints.append(f"{fid}: closure {kk} has no partner among the {m} closures present")
                        info.setdefault("skipped_hints", []).append(f"closure {kk} unmatched")
                dct.clear(); dct.update(newd)
            closure_alias = {v: kk for kk, v in mp.items()}
        for k in list(clos_spec):
            if k < 1 or k > len(closures):
                self.skipped_hints.append(f"{fid}: closure {k} not found ({len(closures)} closures)")
                info.setdefault("skipped_hints", []).append(f"closure {k} missing")
                del clos_spec[k]
        inner_marks: List[Tuple[int, int, str]] = []   # (line offset start, end, label) filled later via sentinels
        # closures that the baseline (specs/PARAMS.json) does not know: they have no contract, and a closure without a contract is
        # opaque to the verifier (its result is unconstrained). Recorded so that the driver can tell "cannot see through a new
        # closure" (undecided) from a violation.
        fn_known = f"{self.unit}/{fid}" in PARAMS_BASE
        if fn_known and len(actual_c) > len(base_c) and not base_c:
            new_closures = set(range(1, len(actual_c) + 1))
        elif fn_known and base_c and len(base_c) != len(actual_c):
            new_closures = set(range(1, len(actual_c) + 1)) - set(closure_alias.keys())
        else:
            new_closures = set()
        for k, cl in enumerate(closures, 1):
            # E22: a thunk with a constant body handed to a lazy std combinator -> the eager combinator
            if k not in clos_spec and k not in clos_types and self._thunk_to_eager(st, src, sp, cl, fid):
                new_closures.discard(k)
                continue
            # E25: a new closure handed to an Option / Result combinator -> the combinator's defining `match` (its std implementation)
            if k in new_closures and k not in clos_spec and k not in clos_types and not NO_E23 and self._inline_combinator(st, src, sp, cl, fid, fp):
                new_closures.discard(k)
                continue
            # E6 tuple-pattern params (generated names carry the ordinal the contracts were written against)
            pk = f"__p{closure_alias[k]}" if k in closure_alias else (f"__q{k}" if closure_alias else f"__p{k}")
            params = st[cl.bar + 1:cl.params_end] if st[cl.bar].text == "|" else []
            lets = []
            if params:
                # split params at depth-0 commas
                groups, curg, depth = [], [], 0
                idx = cl.bar + 1
                while idx < cl.params_end:
                    t = st[idx]
                    if t.text in rs.OPEN:
                        e = rs.match_close(st, idx)
                        curg += list(range(idx, e + 1)); idx = e + 1; continue
                    if t.text == ",":
                        groups.append(curg); curg = []
                    else:
                        curg.append(idx)
                    idx += 1
                if curg: groups.append(curg)
                for gi, g in enumerate(groups):
                    if len(g) >= 1 and st[g[0]].text == "_" and (len(g) == 1 or st[g[1]].text == ":"):
                        # E6: wildcard closure parameter -> unused named variable
                        sp.replace(st[g[0]].start, st[g[0]].end, REP("E6", "_", f"{pk}_{gi}"))
                        continue
                    if st[g[0]].text == "(":
                        # pattern possibly followed by ': Type'
                        e = rs.match_close(st, g[0])
                        pat = src[st[g[0]].start:st[e].end]
                        nm = f"{pk}_{gi}"
                        sp.replace(st[g[0]].start, st[e].end, REP("E6", pat, nm))
                        lets.append(f"let {pat} = {nm};")
            # E20 for closures: the spec refers to identifier parameters of the k-th closure by position
            cnames = []
            if st[cl.bar].text == "|":
                gs, cg, idx = [], [], cl.bar + 1
                while idx < cl.params_end:
                    t = st[idx]
                    if t.text in rs.OPEN:
                        e = rs.match_close(st, idx); cg += list(range(idx, e + 1)); idx = e + 1; continue
                    if t.text == ",": gs.append(cg); cg = []
                    else: cg.append(idx)
                    idx += 1
                if cg: gs.append(cg)
                for g in gs:
                    toks = [st[i] for i in g if st[i].text not in ("mut", "&", "ref")]
                    cnames.append(toks[0].text if toks and toks[0].kind == "ident" and toks[0].text != "_" else None)
            ckey = f"{self.unit}/{fid}#closure{k}"
            self.param_names[ckey] = cnames
            cbase = PARAMS_BASE.get(f"{self.unit}/{fid}#closure{closure_alias.get(k, k)}") if (not closure_alias or k in closure_alias) else None
            cren = {}
            if cbase and len(cbase) == len(cnames):
                cren = {b: a for a, b in zip(cnames, cbase) if a and b and a != b}
                if set(cren.values()) & set(cren.keys()): cren = {}
            ctypes = clos_types.get(k)
            if cren:
                if ctypes is not None: ctypes = dataclasses.replace(ctypes, text=rs.rename_idents(ctypes.text, cren))
                if clos_spec.get(k) is not None: clos_spec[k] = dataclasses.replace(clos_spec[k], text=rs.rename_idents(clos_spec[k].text, cren))
                self.rewrites.append({"fn": fid, "rule": "E20", "closure": k, "renamed_params": cren})
            if ctypes is not None:
                # E5b: make the type of identifier parameters explicit: "name: Type" per line
                want = dict((x.split(":", 1)[0].strip(), x.split(":", 1)[1].strip()) for x in ctypes.text.strip().splitlines() if x.strip())
                idx = cl.bar + 1
                while idx < cl.params_end:
                    t = st[idx]
                    if t.kind == "ident" and t.text in want and st[idx + 1].text in (",", "|"):
                        sp.insert(t.end, ADD("E5", f": {want[t.text]}"))
                    idx += 1
            c = clos_spec.get(k)
            body_a, body_b = st[cl.body_lo].start, st[cl.body_hi].end
            pk_ = self._pure_closure(st, cl) if (c is None and k in new_closures and not lets and not NO_E23) else None
            if pk_:
                # E23: a new closure whose body is one comparison / boolean expression, or one field path, over variables, fields and
                # literals gets the contract "the result is that expression" (Verus checks it against the body: it is not an assumption)
                btxt = src[body_a:body_b]
                sp.insert(st[cl.params_end].end, ADD("E23", f" -> (res: bool) ensures res == ({btxt})" if pk_ == "bool" else f" -> (res: _) ensures equal(res, {btxt})"))
                sp.insert(body_a, ADD("E23", "{ "))
                sp.insert(body_b, ADD("E23", " }"))
                self.rewrites.append({"fn": fid, "rule": "E23", "closure": k, "contract": f"res == ({btxt})"})
                new_closures.discard(k)
            if c is not None:
                lab = c.label
                labels.append(lab)
                info["tags"][lab] = c.args[2:]
                info["kinds"][lab] = "closure"
                spec_txt = c.text.strip()
                # first line of the clause text: "(res: Type)"; rest: requires/ensures
                mm = re.match(r"\((\w+)\s*:\s*(.*?)\)\s*\n(.*)$", spec_txt, re.S)
                if not mm:
                    mm2 = re.match(r"\((\w+)\s*:\s*(.*)\)\s*$", spec_txt, re.S)
                    if not mm2: raise SystemExit(f"{self.spec_path}:{c.line}: closure spec must start with (name: Type)")
                    rn, rt, rest = mm2.group(1), mm2.group(2), ""
                else:
                    rn, rt, rest = mm.group(1), mm.group(2), mm.group(3)
                hdr = f" -> ({rn}: {rt})\n/*@L {lab}*/{rest}/*@E*/\n"
                if cl.arrow is not None:
                    a, b = st[cl.arrow].start, st[cl.ret[1] - 1].end
                    sp.replace(a, b, REP("E5", src[a:b], hdr))
                else:
                    sp.insert(st[cl.params_end].end, ADD("E5", hdr))
                if not cl.is_block:
                    sp.insert(body_a, ADD("E5", "{ " + " ".join(lets)))
                    sp.insert(body_b, ADD("E5", " }"))
                elif lets:
                    sp.insert(st[cl.body_lo].end, ADD("E6", " " + " ".join(lets)))
            elif lets:
                if cl.is_block:
                    sp.insert(st[cl.body_lo].end, ADD("E6", " " + " ".join(lets)))
                else:
                    sp.insert(body_a, ADD("E6", "{ " + " ".join(lets)))
                    sp.insert(body_b, ADD("E6", " }"))
        new_closures = sorted(k for k in new_closures if k not in clos_spec)
        if new_closures:
            info["new_closures"] = [S.line_of(st[closures[k - 1].bar].start) for k in new_closures]
        loop_spec = {int(c.args[0]): c for c in cls if c.kind == "loop"}
        for k, c in loop_spec.items():
            if k < 1 or k > len(loops):
                raise AnchorLost(f"{fid}: loop {k} not found ({len(loops)} loops)")
            lp = loops[k - 1]
            lab = c.label
            labels.append(lab)
            info["tags"][lab] = c.args[2:]
            info["kinds"][lab] = "loop"
            if lp.kind == "for":
                if lp.in_kw is None: raise AnchorLost(f"{fid}: loop {k}: no `in`")
                itname = c.args[2] if len(c.args) > 2 and not c.args[2].startswith("C") else "it"
                sp.insert(st[lp.in_kw].end, ADD("E4", f" {itname}:"))
            sp.insert(st[lp.body_open].start, ADD("E4", f"\n/*@L {lab}*/{c.text.rstrip()}\n/*@E*/\n"))
        pending_hints = []
        for c in cls:
            if c.kind == "generics":
                # E15: `x: impl Bound` in argument position -> named type parameter (so that specs can mention it)
                adds = []
                for ln_ in c.text.strip().splitlines():
                    if not ln_.strip(): continue
                    pname, tname = [x.strip() for x in ln_.split(":")]
                    bound_override = None
                    if "=" in tname:
                        # E16: the std trait bound is replaced by a shim trait of the same shape (e.g. AsRef<str> -> AsRefStr)
                        tname, bound_override = [x.strip() for x in tname.split("=")]
                    k = fp.params_open + 1
                    found = False
                    while k < fp.params_close:
                        if st[k].kind == "ident" and st[k].text == pname and st[k + 1].text == ":" and st[k + 2].text == "impl":
                            e = k + 3; depth = 0
                            while e < fp.params_close:
                                if st[e].text in ("<", "("): depth += 1
                                elif st[e].text in (">", ")"): depth -= 1
                                elif st[e].text == "," and depth == 0: break
                                e += 1
                            bound = src[st[k + 3].start:st[e - 1].end]
                            sp.replace(st[k + 2].start, st[e - 1].end, REP("E15", src[st[k + 2].start:st[e - 1].end], tname))
                            adds.append(f"{tname}: {bound_override or bound}")
                            found = True
                            break
                        k += 1
                    if not found:
                        raise AnchorLost(f"{fid}: parameter {pname}: impl ... not found")
                nm = it.kw + 1
                if st[nm + 1].text == "<":
                    sp.insert(st[nm + 1].end, ADD("E15", ", ".join(adds) + ", "))
                else:
                    sp.insert(st[nm].end, ADD("E15", "<" + ", ".join(adds) + ">"))
            if c.kind == "after_loop":
                k = int(c.args[0])
                if k < 1 or k > len(loops):
                    raise AnchorLost(f"{fid}: loop {k} not found ({len(loops)} loops)")
                sp.insert(st[loops[k - 1].body_close].end, ADD("E10", "\n" + c.text.rstrip() + "\n"))
            if c.kind in ("loop_begin", "loop_end"):
                k = int(c.args[0])
                if k < 1 or k > len(loops):
                    raise AnchorLost(f"{fid}: loop {k} not found ({len(loops)} loops)")
                lp = loops[k - 1]
                if c.kind == "loop_begin":
                    sp.insert(st[lp.body_open].end, ADD("E10", "\n" + c.text.rstrip() + "\n"))
                else:
                    sp.insert(st[lp.body_close].start, ADD("E10", "\n" + c.text.rstrip() + "\n"))
            if c.kind == "nested":
                nit = S.nested_fn(it, c.args[0])
                nfp = rs.parse_fn(st, nit)
                lines = c.text.strip().splitlines()
                rn = lines[0].strip().strip("()")
                body_txt = "\n".join(lines[1:])
                if nfp.ret is not None:
                    a, b = st[nfp.ret[0]].start, st[nfp.ret[1] - 1].end
                    sp.replace(a, b, REP("E3", src[a:b], f"({rn}: {src[a:b]})"))
                lab = c.args[1] if len(c.args) > 1 else f"nested_{c.args[0]}"
                labels.append(lab); info["tags"][lab] = c.args[2:]; info["kinds"][lab] = "closure"
                sp.insert(st[nfp.body_open].start, ADD("E3", f"\n/*@L {lab}*/{body_txt}\n/*@E*/\n"))
            if c.kind == "prefix":
                txt = c.text
                sp.insert(st[fp.body_open].end, ADD("E10", "\n" + txt))
            if c.kind == "rename_param":
                # E18: a parameter whose name collides with the function's own name (Verus limitation) is renamed consistently
                old_n, new_n = c.args[0], c.args[1]
                k = fp.params_open + 1
                while k < fp.body_close:
                    t = st[k]
                    if t.kind == "ident" and t.text == old_n and st[k + 1].text != "(" and st[k - 1].text not in (".", "::"):
                        sp.replace(t.start, t.end, REP("E18", old_n, new_n))
                    k += 1
            if c.kind == "inline_snapshot_update":
                # E9: `M.update(STORE, KEY, HEIGHT, |P| -> R { STMTS; Ok(E) })` is replaced by the body of cw-storage-plus 2.0.0
                # SnapshotMap::update (may_load, action, save -- in that order) with the closure body in place, because the
                # closure mutates captured locals (unsupported by Verus). The closure body tokens are the real ones.
                nth = int(c.args[0]) if c.args else 1
                dep = os.path.expanduser("~/.cargo/registry/src")
                ok_dep = False
                for root_, _dirs, files in os.walk(dep):
                    if root_.endswith("cw-storage-plus-2.0.0/src/snapshot") and "map.rs" in files:
                        txt = open(os.path.join(root_, "map.rs")).read()
                        m_ = re.search(r"pub fn update<A, E>\(.*?\n    \}", txt, re.S)
                        body_ = re.sub(r"\s+", " ", m_.group(0)) if m_ else ""
                        ok_dep = ("let input = self.may_load(store, k.clone())?; let output = action(input)?; self.save(store, k, &output, height)?; Ok(output)" in body_)
                if not ok_dep:
                    raise AnchorLost("E9: cw-storage-plus 2.0.0 SnapshotMap::update source not found or changed")
                hits = []
                i = fp.body_open + 1
                while i < fp.body_close:
                    if st[i].text == "." and st[i + 1].text == "update" and st[i + 2].text == "(":
                        hits.append(i)
                    i += 1
                if nth < 1 or nth > len(hits):
                    raise AnchorLost(f"{fid}: inline_snapshot_update #{nth}: {len(hits)} update calls")
                i = hits[nth - 1]
                close = rs.match_close(st, i + 2)
                # receiver = single identifier before '.'
                recv = st[i - 1]
                # split args
                args_ = []; cur_ = []; k = i + 3
                while k < close:
                    if st[k].text in rs.OPEN:
                        e = rs.match_close(st, k); cur_ += list(range(k, e + 1)); k = e + 1; continue
                    if st[k].text == ",":
                        args_.append(cur_); cur_ = []
                    else:
                        cur_.append(k)
                    k += 1
                if cur_: args_.append(cur_)
                if len(args_) != 4 or st[args_[3][0]].text != "|":
                    raise AnchorLost(f"{fid}: inline_snapshot_update: unexpected call shape")
                def txt_(idx): return src[st[idx[0]].start:st[idx[-1]].end]
                store_t, key_t, height_t = txt_(args_[0]), txt_(args_[1]), txt_(args_[2])
                cl_ = args_[3]
                pname = st[cl_[1]].text
                bo = next(x for x in cl_ if st[x].text == "{")
                bc = rs.match_close(st, bo)
                # last expression must be Ok(EXPR)
                j = bc - 1
                if st[j].text != ")": raise AnchorLost(f"{fid}: inline_snapshot_update: closure does not end in Ok(..)")
                depth = 0; q = j
                while True:
                    if st[q].text in rs.CLOSE: depth += 1
                    elif st[q].text in rs.OPEN:
                        depth -= 1
                        if depth == 0: break
                    q -= 1
                if st[q - 1].text != "Ok": raise AnchorLost(f"{fid}: inline_snapshot_update: closure does not end in Ok(..)")
                stmts_t = src[st[bo].end:st[q - 1].start]
                out_t = src[st[q + 1].start:st[j - 1].end]
                a, b = st[recv.start and i - 1].start, st[close].end
                a = st[i - 1].start
                new = (f"{{ let {pname} = {recv.text}.may_load({store_t}, {key_t})?;{stmts_t}let __out = {out_t}; "
                       f"{recv.text}.save({store_t}, {key_t}, &__out, {height_t})?; Ok::<_, ContractError>(__out) }}")
                sp.ops = [o for o in sp.ops if not (a <= o[0] and o[1] <= b)]
                sp.replace(a, b, REP("E9", src[a:b], new))
                self.rewrites.append({"fn": fid, "rule": "E9", "at": S.line_of(a)})
            if c.kind == "adapter":
                # E11 (structured): `RECV.iter().any(F)` -> `it_any(&RECV, F)` etc. The receiver and the closure F are the
                # real tokens; only the adapter call syntax changes. args: kind, ordinal
                kind_, nth = c.args[0], int(c.args[1]) if len(c.args) > 1 else 1
                pats = {
                    "any": ([".", "iter", "(", ")", ".", "any", "("], [], "it_any(&", False),
                    "map_sum": ([".", "iter", "(", ")", ".", "map", "("], [".", "sum", "(", ")"], "it_map_sum_u64(&", False),
                    "try_map_collect": ([".", "iter", "(", ")", ".", "map", "("], [".", "collect", "(", ")"], "it_try_map(", False),
                    "into_map_collect": ([".", "into_iter", "(", ")", ".", "map", "("], [".", "collect", "(", ")"], "it_into_map(", False),
                    "sort_by": ([".", "sort_by", "("], [], "slice_sort_by(", False),
                    "map_collect_vec": ([".", "iter", "(", ")", ".", "map", "("], [t.text for t in rs.sig(rs.tokenize(".collect::<Vec<_>>()"))], "it_map_collect(", False),
                }
                if kind_ not in pats: raise SystemExit(f"{self.spec_path}:{c.line}: unknown adapter {kind_}")
                head, tail, fn_open, _ = pats[kind_]
                hits = []
                i = fp.body_open + 1
                while i < fp.body_close - len(head):
                    if [t.text for t in st[i:i + len(head)]] == head:
                        close = rs.match_close(st, i + len(head) - 1)
                        if [t.text for t in st[close + 1:close + 1 + len(tail)]] == tail:
                            hits.append((i, close))
                    i += 1
                if nth < 1 or nth > len(hits):
                    raise AnchorLost(f"{fid}: adapter {kind_} #{nth}: {len(hits)} hits")
                i, close = hits[nth - 1]
                # receiver: walk back over a postfix chain
                r0 = i - 1
                while True:
                    t = st[r0]
                    if t.text in (")", "]"):
                        # find matching opener
                        depth = 0; k = r0
                        while True:
                            if st[k].text in rs.CLOSE: depth += 1
                            elif st[k].text in rs.OPEN:
                                depth -= 1
                                if depth == 0: break
                            k -= 1
                        r0 = k - 1
                        continue
                    if t.kind == "ident" or t.text in (".", "::", "&", "*") or t.kind == "lifetime":
                        if t.kind == "ident" and t.text in ("return", "let", "in", "if", "match", "else"): break
                        r0 -= 1
                        continue
                    break
                r0 += 1
                recv_a = st[r0].start
                sp.insert(recv_a, ADD("E11", fn_open))
                sp.replace(st[i].start, st[i + len(head) - 1].end, REP("E11", src[st[i].start:st[i + len(head) - 1].end], ", "))
                if tail:
                    sp.replace(st[close + 1].start, st[close + len(tail)].end, REP("E11", src[st[close + 1].start:st[close + len(tail)].end], ""))
                self.rewrites.append({"fn": fid, "rule": "E11", "adapter": kind_, "at": S.line_of(st[i].start)})
            if c.kind == "eta":
                # E12 (structured): the single argument of the anchored call is a function path P; it becomes the closure
                # |__c: T| -> (res: R) ensures call_ensures(P, (__c,), res) { P(__c) }  -- whatever path stands there is kept
                anchor, nth = c.args[0], int(c.args[1])
                atoks = [t.text for t in rs.sig(rs.tokenize(anchor))]
                hits = [i for i in range(fp.body_open + 1, fp.body_close - len(atoks)) if [t.text for t in st[i:i + len(atoks)]] == atoks and st[i + len(atoks)].text == "("]
                if nth < 1 or nth > len(hits):
                    self.skipped_hints.append(f"{fid}: eta-expansion anchor {anchor!r} #{nth} not found")
                    info.setdefault("skipped_hints", []).append(f"eta {anchor} #{nth}")
                    continue
                o = hits[nth - 1] + len(atoks)
                depth = 0; e = o
                while True:
                    if st[e].text in ("(", "[", "{"): depth += 1
                    elif st[e].text in (")", "]", "}"):
                        depth -= 1
                        if depth == 0: break
                    e += 1
                arg = st[o + 1:e]
                if not arg or not all(re.match(r"^[A-Za-z_]\w*$", t.text) or t.text in ("::", "<", ">", ",", "&") for t in arg):
                    # soft: the argument is no longer a bare function path (e.g. it has become a closure); nothing to eta-expand
                    self.skipped_hints.append(f"{fid}: eta-expansion at {anchor!r} skipped (argument is not a function path)")
                    info.setdefault("skipped_hints", []).append(f"eta {anchor}")
                    continue
                ptxt = src[arg[0].start:arg[-1].end]
                mm = re.match(r"\s*(\w+)\s*:\s*(.*?)\s*->\s*(.*?)\s*$", c.text.strip(), re.S)
                if not mm: raise SystemExit(f"{self.spec_path}:{c.line}: @eta needs `name: T -> R`")
                nm, ty, rt = mm.groups()
                sp.replace(arg[0].start, arg[-1].end, REP("E12", ptxt, f"|{nm}: {ty}| -> (res: {rt}) ensures call_ensures({ptxt}, ({nm},), res) {{ {ptxt}({nm}) }}"))
                self.rewrites.append({"fn": fid, "rule": "E12", "from": ptxt, "eta": True})
            if c.kind == "replace":
                # listed call-syntax rewrites (E8 checked arithmetic, E9 dependency inlining, E11 std adapter -> shim fn, E12 eta)
                rule, anchor, nth = c.args[0], c.args[1], int(c.args[2])
                if rule not in ("E8", "E9", "E11", "E12", "E17"):
                    raise SystemExit(f"{self.spec_path}:{c.line}: @replace rule {rule} not allowed")
                atoks = [t.text for t in rs.sig(rs.tokenize(anchor))]
                hits = []
                i = fp.body_open + 1
                while i < fp.body_close - len(atoks) + 1:
                    if [t.text for t in st[i:i + len(atoks)]] == atoks: hits.append(i)
                    i += 1
                if nth < 1 or nth > len(hits):
                    # soft: the call this rewrite is for is no longer in the function; nothing to rewrite. If the construct is
                    # still there in another form Verus rejects the file (exit 2); otherwise the contract decides.
                    self.skipped_hints.append(f"{fid}: rewrite {rule} of {anchor!r} #{nth} (call not found)")
                    info.setdefault("skipped_hints", []).append(f"rewrite {rule} {anchor} #{nth}")
                    continue
                a, b = st[hits[nth - 1]].start, st[hits[nth - 1] + len(atoks) - 1].end
                # drop closure/other splices inside the replaced span
                sp.ops = [o for o in sp.ops if not (a <= o[0] and o[1] <= b)]
                sp.replace(a, b, REP(rule, src[a:b], c.text.strip()))
                self.rewrites.append({"fn": fid, "rule": rule, "from": anchor, "to": c.text.strip()})
            if c.kind == "insert_before":
                anchor, nth = c.args[0], int(c.args[1])
                # "~text": the nth statement that CONTAINS text (the hint goes before that statement); without the tilde the
                # statement must BEGIN with text
                inside = anchor.startswith("~")
                atoks = [t.text for t in rs.sig(rs.tokenize(anchor[1:] if inside else anchor))]
                hits = []
                i = fp.body_open + 1
                while i < fp.body_close - len(atoks) + 1:
                    if [t.text for t in st[i:i + len(atoks)]] == atoks:
                        if inside:
                            b0 = rs.stmt_start(st, i, fp.body_open + 1)
                            if b0 is not None and b0 not in hits: hits.append(b0)
                        elif st[i - 1].text in (";", "{", "}"):
                            hits.append(i)
                    i += 1
                if (nth < 1 or nth > len(hits)) and not inside:
                    # the statement no longer BEGINS with the anchor text (its binding or its shape was rewritten): fall back to the n-th
                    # statement that CONTAINS the anchor's last call (`msg.get_cap(`, `create_accounts(`, `TOKEN_INFO.save(`)
                    calls = [m for m in re.finditer(r"((?:[A-Za-z_]\w*\s*(?:::|\.)\s*)*[A-Za-z_]\w*)\s*\(", anchor)
                             if m.group(1).split(".")[-1].split("::")[-1].strip() not in ("Some", "Ok", "Err")]
                    if calls:
                        ftoks = [t.text for t in rs.sig(rs.tokenize(calls[-1].group(1) + "("))]
                        fh = []
                        i = fp.body_open + 1
                        while i < fp.body_close - len(ftoks) + 1:
                            if [t.text for t in st[i:i + len(ftoks)]] == ftoks:
                                b0 = rs.stmt_start(st, i, fp.body_open + 1)
                                if b0 is not None and b0 not in fh: fh.append(b0)
                            i += 1
                        if 1 <= nth <= len(fh):
                            hits = fh
                            info.setdefault("relocated_hints", []).append(f"{anchor} #{nth} -> statement containing {calls[-1].group(1)}(")
                if nth < 1 or nth > len(hits):
                    # soft anchor: a proof hint whose statement is gone is skipped (a missing hint can only make a
                    # proof fail, never succeed); recorded so that the report can say so
                    self.skipped_hints.append(f"{fid}: hint before {anchor!r} #{nth}")
                    info.setdefault("skipped_hints", []).append(f"{anchor} #{nth}")
                    continue
                pending_hints.append((st[hits[nth - 1]].start, len(pending_hints), c, anchor, nth))
        # a hint may use ghost variables that an earlier hint (or the prefix) defines. If the statements were reordered, or the defining
        # hint lost its anchor, the using hint is skipped as well (soft, recorded) instead of producing text that does not compile
        gdef = lambda txt: set(re.findall(r"\blet\s+ghost\s+(?:mut\s+)?(\w+)", txt))
        hint_ghosts = set()
        for c in cls:
            if c.kind in ("insert_before", "loop_begin", "loop_end", "after_loop"): hint_ghosts |= gdef(c.text)
        defined = set()
        for c in cls:
            if c.kind in ("prefix", "loop_begin", "loop_end", "after_loop"): defined |= gdef(c.text)
        for off, _, c, anchor, nth in sorted(pending_hints, key=lambda x: (x[0], x[1])):
            used = set(re.findall(r"\b\w+\b", c.text)) & hint_ghosts
            mine = gdef(c.text)
            if not used <= (defined | mine):
                self.skipped_hints.append(f"{fid}: hint before {anchor!r} #{nth} uses {sorted(used - defined - mine)}, not defined before it on this tree")
                info.setdefault("skipped_hints", []).append(f"{anchor} #{nth} (needs {sorted(used - defined - mine)})")
                continue
            defined |= mine
            sp.insert(off, ADD("E10", c.text.rstrip() + "\n"))
        # E19: a `let PAT = a.m1(..).m2(..)...;` method chain is split into consecutive lets at listed `.method` anchors, so that a
        # proof hint can stand between two calls of the chain (evaluation order and every call are unchanged)
        splits = {}
        for c in cls:
            if c.kind != "split_before": continue
            anchor, nth = c.args[0], int(c.args[1])
            atoks = [t.text for t in rs.sig(rs.tokenize(anchor))]
            hits = [i for i in range(fp.body_open + 1, fp.body_close - len(atoks) + 1) if [t.text for t in st[i:i + len(atoks)]] == atoks]
            if nth < 1 or nth > len(hits) or st[hits[nth - 1]].text != ".":
                self.skipped_hints.append(f"{fid}: split before {anchor!r} #{nth}")
                info.setdefault("skipped_hints", []).append(f"split {anchor} #{nth}")
                continue
            h = hits[nth - 1]
            # enclosing `let` at the same bracket depth
            depth = 0; j = h - 1; let_i = None
            while j > fp.body_open:
                t = st[j].text
                if t in (")", "]", "}"): depth += 1
                elif t in ("(", "[", "{"):
                    if depth == 0: break
                    depth -= 1
                elif t == ";" and depth == 0: break
                elif t == "let" and depth == 0: let_i = j; break
                j -= 1
            if let_i is None:
                self.skipped_hints.append(f"{fid}: split before {anchor!r} #{nth} (no enclosing let)")
                info.setdefault("skipped_hints", []).append(f"split {anchor} #{nth}")
                continue
            splits.setdefault(let_i, []).append((h, c))
        for let_i, hs in splits.items():
            hs.sort(key=lambda x: x[0])
            depth = 0; e = let_i + 1
            while not (st[e].text == "=" and depth == 0):
                if st[e].text in ("(", "[", "{", "<"): depth += 1
                elif st[e].text in (")", "]", "}", ">"): depth -= 1
                e += 1
            let_txt = src[st[let_i].start:st[e].end]
            sp.replace(st[let_i].start, st[e].end, REP("E19", let_txt, "let __s1 ="))
            for k, (h, c) in enumerate(hs, start=1):
                last = k == len(hs)
                nxt = (let_txt if last else f"let __s{k + 1} =") + f" __s{k}"
                sp.insert(st[h].start, ADD("E19", ";\n" + c.text.rstrip() + "\n    " + nxt))
            self.rewrites.append({"fn": fid, "rule": "E19", "at": S.line_of(st[let_i].start), "splits": len(hs)})
        assumed = d.opts.get("assume") is not None
        info["assumed"] = assumed
        if d.opts.get("no_panic") is not None: info["no_panic"] = True
        if assumed:
            # E14: the body of an assumed leaf is not verified; it is dropped so that rustc need not type-check
            # std adapters / helpers that the shim does not model. Closures/loops inside are ignored.
            a, b = st[fp.body_open].end, st[fp.body_close].start
            sp.ops = [o for o in sp.ops if not (a <= o[0] and o[1] <= b)]
            sp.replace(a, b, REP("E14", src[a:b], " unimplemented!() "))
        if self.mode == "vacuity" and not assumed:
            sp.insert(st[fp.body_open].end, ADD("E10", " proof { assert(false); } "))
        # contract insertion
        ctext = "".join(("/*@L %s*/%s/*@E*/" % (lab, t)) if lab else t for t, lab in pieces)
        if ctext:
            sp.insert(st[fp.body_open].start, ADD("E3", "\n" + ctext))
        text = sp.render()
        self.extracted.append((key, orig, text))
        # attributes requested by the spec (e.g. #[verifier::rlimit(50)])
        pre = "".join(c.text for c in cls if c.kind == "attr")
        if assumed:
            pre += "#[verifier::external_body] /* ASSUMED LEAF: contract not verified by Verus */\n"
        if imp is not None:
            hdr = src[st[imp.kw].start:st[imp.kw].end]
            k = imp.kw
            while st[k].text != "{": k += 1
            hdr = src[st[imp.kw].start:st[k].end]
            text = f"{hdr}\n{pre}{text}\n}}"
        else:
            text = pre + text
            # one module per function: Verus verifies modules in parallel threads
            mod = "m_" + re.sub(r"\W", "_", fid)
            text = f"pub mod {mod} {{\nuse super::*;\n{text}\n}}\npub use {mod}::*;\n"
        self._emit_labelled(text, fid)

    def _emit_verbatim(self, t: str):
        """verbatim spec text; lines of a `proof fn` are tagged lemma:<name> so that diagnostics can be attributed"""
        cur = None
        buf: List[str] = []
        def flush():
            nonlocal buf
            if buf:
                self.out.add("".join(buf), ("lemma:" + cur) if cur else None, None)
                buf = []
        for line in t.splitlines(keepends=True):
            m = re.match(r"\s*(?:#\[[^\]]*\]\s*)*(?:pub(?:\([a-z]+\))?\s+)?(?:open\s+|closed\s+|uninterp\s+|broadcast\s+)*(proof|spec|exec)?\s*fn\s+(\w+)", line)
            if m:
                flush()
                cur = m.group(2) if m.group(1) == "proof" else None
            elif re.match(r"\s*(pub\s+)?(struct|enum|impl|mod|type|const|broadcast\s+group)\b", line):
                flush(); cur = None
            buf.append(line)
        flush()

    def _emit_labelled(self, text: str, fid: str):
        """split on /*@L label*/ ... /*@E*/ sentinels so that lines inside carry the label"""
        pos = 0
        for m in re.finditer(r"/\*@L (\S+?)\*/(.*?)/\*@E\*/", text, re.S):
            before = text[pos:m.start()]
            if before:
                if not before.endswith("\n"): before += "\n"
                self.out.add(before, fid, None)
            body = m.group(2)
            if not body.startswith("\n") and False: pass
            self.out.add(body if body.endswith("\n") else body + "\n", fid, m.group(1))
            pos = m.end()
        rest = text[pos:]
        if rest.strip():
            self.out.add(rest, fid, None)

    # ---- driver
    def build(self) -> Tuple[str, list]:
        hdr = ("// GENERATED by tools/gen.py from %s and /repo -- do not edit\n" % os.path.relpath(self.spec_path, ROOT))
        hdr += "#![allow(unused, deprecated, non_snake_case, non_camel_case_types)]\n"
        self.out.add(hdr)
        for s in self.meta["shim"]:
            p = os.path.join(ROOT, "shim", s)
            self.out.add(f"// ---- shim/{s}\n" + open(p).read())
        self.out.add("verus! {\n")
        for d in self.dirs:
            if d.kind == "verbatim":
                t = d.text
                if self.mode == "vacuity":
                    # the probe build only checks that every function under contract is reachable:
                    # lemmas are not re-verified there
                    t = re.sub(r"(?m)^(\s*)((?:pub\s+)?(?:broadcast\s+)?proof\s+fn\s)", r"\1#[verifier::external_body] \2", t)
                self._emit_verbatim(t)
            elif d.kind == "const":
                self.emit_const(d)
            elif d.kind in ("struct", "enum"):
                self.emit_adt(d)
            elif d.kind in ("fn", "method"):
                self.emit_fn(d)
        self.out.add("} // verus!\nfn main() {}\n")
        return self.out.render()

    def roundtrip(self) -> List[str]:
        """undo every marked rewrite and compare significant tokens with the original item"""
        bad = []
        for key, orig, emitted in self.extracted:
            e2 = re.sub(r"/\*@L \S+?\*/|/\*@E\*/", "", emitted)
            back = undo_markers(e2)
            if sig_text(back) != sig_text(orig):
                bad.append(key)
        return bad


def _clause_text(t: str) -> str:
    t = t.rstrip()
    if not t.endswith(","): t += ","
    return t + "\n"


if __name__ == "__main__":
    import argparse
    ap = argparse.ArgumentParser()
    ap.add_argument("spec")
    ap.add_argument("-o", "--out", required=True)
    ap.add_argument("--mode", default="main")
    a = ap.parse_args()
    g = Gen(a.spec, a.mode)
    text, meta = g.build()
    bad = g.roundtrip()
    open(a.out, "w").write(text)
    json.dump({"lines": meta, "functions": g.functions, "items": g.items_sha}, open(a.out + ".map.json", "w"))
    if bad:
        print("ROUNDTRIP MISMATCH", bad); sys.exit(2)
    print(f"wrote {a.out}: {len(g.functions)} functions, {len(g.items_sha)} items")
