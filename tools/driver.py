"""check driver: decide one property by running Verus on every unit that serves it.

exit 0: every obligation serving the property discharged (known findings printed)
exit 1: an obligation that is discharged on the unchanged tree now fails -> VIOLATION line(s)
exit 2: undecided (lost anchor, unsupported construct, rlimit, vacuity probe passed, machinery error)
"""
from __future__ import annotations
import argparse, glob, hashlib, json, os, re, shutil, subprocess, sys, tempfile, time
from concurrent.futures import ThreadPoolExecutor
from typing import Dict, List, Optional, Tuple

HERE = os.path.dirname(os.path.abspath(__file__))
ROOT = os.path.dirname(HERE)
sys.path.insert(0, HERE)
import gen  # noqa
import rs   # noqa

REPO = gen.REPO
BUILD = os.environ.get("VERIF_BUILD_DIR") or os.path.join(ROOT, "build")
VERUS = shutil.which("verus") or "/opt/veriftools/verus/verus"

ENV_ASSUMPTIONS = [
    "A1 atomicity: a call returning Err or panicking leaves storage unchanged; failed ReplyOn::Never dispatch reverts the transaction; reply_on_error semantics as in cosmwasm",
    "A2 storage is empty at instantiate; only the contract's own entry points write its storage",
    "A3 block height and time never decrease; env.contract.address is the contract's own address",
    "A4 funds in info.funds were credited by the bank module; emitted Bank/cw20 transfers move exactly the stated amount or fail",
    "A5 raw/smart queries return the remote contract's current state",
    "A6 IBC: packet endpoints are the channel's true endpoints; one ack or timeout per sent packet; entry points not re-entrant",
    "A7 serialization of stored/sent values is total and injective; uninterpreted otherwise",
    "A8 success direction of dependencies (used only by the 'goes through / is never refused' clauses): Api::addr_validate accepts exactly a fixed set of strings; a smart query succeeds exactly when the remote contract answers and the answer decodes; a raw query of an existing contract fails only on an unparsable value; Item/Map load, may_load, update and cw-controllers Claims::claim_tokens fail only on an unparsable stored value or through the caller's own closure; to_json_binary never fails",
    "panic = abort: an operation that panics (overflow with [profile.release] overflow-checks = true, division by zero, Uint128 +,-,*) commits nothing; contracts of non-strict units are partial-correctness statements about the non-panicking runs, except for functions marked [no_panic]",
    "derived Clone/PartialEq/Default have their standard structural semantics (E1)",
    "rustc, Verus 0.2026.09.13 and Z3 are sound; machine integers are modelled exactly by Verus (no mathematical-integer idealisation in exec code)",
]

VERIF_MSGS = ("postcondition not satisfied", "precondition not satisfied", "assertion failed",
              "unable to prove post-condition of closure", "invariant not satisfied",
              "possible arithmetic underflow/overflow", "possible division by zero", "decreases not satisfied",
              "could not prove termination", "unable to prove", "failed", "possible bit shift", "not satisfied",
              "cannot show invariant holds", "recommendation not met", "loop invariant", "possible truncation")


def units_for(prop: str) -> List[str]:
    out = []
    for p in sorted(glob.glob(os.path.join(ROOT, "specs", "*.vs"))):
        meta, _ = gen.parse_spec(p)
        if prop in meta["properties"]:
            out.append(p)
    return out


def lemma_tags(spec_path: str) -> Dict[str, List[str]]:
    """proof fn name -> properties it serves (`// serves: C01 C02` comment before it); [] = all"""
    tags: Dict[str, List[str]] = {}
    cur: Optional[List[str]] = None
    def read_lines(pth, depth=0):
        out = []
        for raw in open(pth).readlines():
            m = re.match(r"\s*@include\s+(\S+)", raw)
            if m and depth < 5:
                out += read_lines(os.path.join(os.path.dirname(pth), m.group(1)), depth + 1)
            else:
                out.append(raw)
        return out
    for line in read_lines(spec_path):
        m = re.match(r"\s*//\s*serves:\s*(.*)$", line)
        if m:
            cur = m.group(1).split(); continue
        m = re.match(r"\s*(?:pub\s+)?(?:broadcast\s+)?proof\s+fn\s+(\w+)", line)
        if m:
            tags[m.group(1)] = cur or []
            cur = None
    return tags


def run_verus(path: str, extra: List[str], timeout: int = 900) -> Tuple[dict, List[dict], float, str]:
    t0 = time.time()
    env = dict(os.environ)
    env.setdefault("CARGO_PKG_VERSION", "2.0.0")
    cmd = [VERUS, os.path.basename(path), "--output-json", "--time", "--error-format=json"] + extra
    try:
        p = subprocess.run(cmd, cwd=os.path.dirname(path), env=env, capture_output=True, text=True, timeout=timeout)
        out, err = p.stdout, p.stderr
    except subprocess.TimeoutExpired as e:
        return {}, [], time.time() - t0, "timeout"
    dt = time.time() - t0
    try:
        res = json.loads(out) if out.strip() else {}
    except json.JSONDecodeError:
        res = {}
    diags = []
    for line in err.splitlines():
        line = line.strip()
        if line.startswith("{"):
            try:
                diags.append(json.loads(line))
            except json.JSONDecodeError:
                pass
    return res, diags, dt, err if not diags else ""


def breakdown(res: dict) -> Dict[str, dict]:
    fb = {}
    try:
        for m in res["times-ms"]["smt"]["smt-run-module-times"]:
            for f in m.get("function-breakdown", []):
                name = f["function"]
                d = fb.setdefault(name, {"time_us": 0, "rlimit": 0, "success": True})
                d["time_us"] += f.get("time-micros", 0)
                d["rlimit"] += f.get("rlimit", 0)
                d["success"] = d["success"] and f.get("success", True)
    except (KeyError, TypeError):
        pass
    return fb


class UnitResult:
    def __init__(self, unit: str):
        self.unit = unit
        self.status = "ok"          # ok | failed | undecided
        self.reason = ""
        self.functions: Dict[str, dict] = {}
        self.failed: List[dict] = []       # {oid, fid, label, message, excerpt, lines}
        self.infra_failed: List[dict] = []
        self.obligations: List[dict] = []  # {oid, kind, tags, discharged}
        self.verified = 0
        self.errors = 0
        self.wall = 0.0
        self.smt_ms = 0
        self.times: Dict[str, dict] = {}
        self.vacuity: Dict[str, bool] = {}
        self.trusted: List[str] = []
        self.items_sha: Dict[str, str] = {}
        self.build_file = ""
        self.checker_cmd = ""
        self.rewrites: List[dict] = []
        self.skipped: List[str] = []
        self.runtime_arith: List[dict] = []    # overflow / division obligations left to the runtime checks (relaxed units)
        self.opaque: List[dict] = []           # functions that gained a closure without contract and do not verify


def scan_trusted(text: str) -> List[str]:
    """mechanical scan of the generated file for every assumption-introducing construct"""
    out = []
    lines = text.splitlines()
    pat = re.compile(r"external_body|assume_specification|\baxiom\b|\bassume\s*\(|\badmit\s*\(|uninterp\s+spec|external_trait|external_type|\bexternal\b")
    for i, l in enumerate(lines):
        code = l.split("//")[0]
        if not pat.search(code): continue
        # name: next fn/struct ident on this or following lines
        ctx = " ".join(lines[i:i + 3])
        m = re.search(r"(?:fn|struct|assume_specification(?:<[^>]*>)?\s*\[)\s*([^\s(\]]+)", ctx)
        kind = pat.search(code).group(0).strip("( ")
        out.append(f"{kind}: {m.group(1) if m else ctx.strip()[:60]}")
    return sorted(set(out))


def forbidden_in_specs(spec_path: str) -> List[str]:
    bad = []
    paths = [spec_path] + [os.path.join(os.path.dirname(spec_path), m) for m in re.findall(r"(?m)^\s*@include\s+(\S+)", open(spec_path).read())]
    for i, l in enumerate([x for pp in paths for x in open(pp)], 1):
        code = l.split("//")[0]
        if re.search(r"\bassume\s*\(|\badmit\s*\(|external_body|assume_specification|\baxiom\b", code):
            bad.append(f"{os.path.basename(spec_path)}:{i}: {l.strip()}")
    return bad


def classify(diags: List[dict], lines_meta: list, build_name: str):
    """-> (failures [{fid,label,message,line,excerpt}], hard_errors [str], rlimit [str])"""
    failures, hard, rl = [], [], []
    for d in diags:
        if d.get("level") != "error": continue
        msg = d.get("message", "")
        if msg.startswith("aborting due to"): continue
        spans = d.get("spans", [])
        for c in d.get("children", []):
            spans = spans + c.get("spans", [])
        if "rlimit" in msg.lower() or "resource limit" in msg.lower():
            rl.append(msg); continue
        # a rustc diagnostic with an error code (error[E0277]: the trait bound .. is not satisfied) is a compile error of the
        # generated file, never a verification result, whatever words its message contains
        if d.get("code") or not any(v in msg for v in VERIF_MSGS):
            hard.append(d.get("rendered") or msg); continue
        fid = None; label = None; line = None
        # the call site (primary span) decides which function failed; a callee's `requires` line is only the reason
        spans = sorted(spans, key=lambda x: (not x.get("is_primary", False), (x.get("label") or "") == "failed precondition"))
        for sp in spans:
            if (sp.get("label") or "") == "failed precondition": continue
            if not sp.get("file_name", "").endswith(build_name): continue
            ln = sp.get("line_start", 0)
            if 1 <= ln <= len(lines_meta):
                f, lab = lines_meta[ln - 1]
                if f and fid is None: fid = f; line = ln
                if lab and label is None and (sp.get("label") or "").startswith(("failed", "at this", "")):
                    # prefer spans that point at a contract clause
                    if f: label = lab; fid = f; line = ln
        if line is None and spans:
            line = spans[0].get("line_start")
        failures.append({"fid": fid, "label": label or "body", "message": msg, "line": line,
                         "excerpt": (d.get("rendered") or "")[:3000]})
    return failures, hard, rl


def overflow_checks_on() -> bool:
    """[profile.release] overflow-checks = true in /repo/Cargo.toml: integer overflow of primitive arithmetic panics (= abort, nothing
    is committed) in the built contracts"""
    try:
        txt = open(os.path.join(gen.REPO, "Cargo.toml")).read()
    except OSError:
        return False
    m = re.search(r"^\[profile\.release\]\s*$(.*?)(?=^\[|\Z)", txt, re.M | re.S)
    return bool(m and re.search(r"^\s*overflow-checks\s*=\s*true\s*$", m.group(1), re.M))


ARITH_MSG = re.compile(r"possible arithmetic underflow/overflow|possible division by zero")


def fn_key_matches(bname: str, fid: str, crate: str) -> bool:
    # breakdown names: "<crate>::execute_transfer", "<crate>::TokenInfo::get_cap"
    return bname == f"{crate}::{fid}" or bname.endswith("::" + fid)


def run_unit(spec_path: str, tier: str, seed: int, kf_omit: set, do_vacuity: bool = True, rlimit: Optional[float] = None,
             tag: str = "", bdir: str = "") -> UnitResult:
    meta, _ = gen.parse_spec(spec_path)
    unit = meta["unit"]
    R = UnitResult(unit)
    bdir_abs = os.path.join(BUILD, bdir) if bdir else BUILD
    os.makedirs(bdir_abs, exist_ok=True)
    bad = forbidden_in_specs(spec_path)
    if bad:
        R.status = "undecided"; R.reason = "forbidden assumption in specs/: " + "; ".join(bad); return R
    try:
        gen.Source.cache.clear()
        g = gen.Gen(spec_path, "main", kf_omit=kf_omit)
        text, lines_meta = g.build()
        rt = g.roundtrip()
    except gen.AnchorLost as e:
        R.status = "undecided"; R.reason = f"anchor lost: {e}"; return R
    except (rs.LexError, AssertionError, IndexError, KeyError) as e:
        R.status = "undecided"; R.reason = f"extraction failed: {type(e).__name__}: {e}"; return R
    if rt:
        R.status = "undecided"; R.reason = f"round-trip mismatch for {rt}"; return R
    crate = f"{unit.replace('-', '_')}{tag}"
    path = os.path.join(bdir_abs, crate + ".rs")
    open(path, "w").write(text)
    R.build_file = path
    R.functions = g.functions
    R.rewrites = list(g.rewrites)
    R.param_names = dict(g.param_names)
    R.skipped = list(g.skipped_hints)
    R.items_sha = g.items_sha
    R.trusted = scan_trusted(text)
    extra = ["--multiple-errors", "50"]
    if rlimit: extra += ["--rlimit", str(rlimit)]
    if seed: extra += ["--smt-option", f"smt.random_seed={seed}"]
    R.checker_cmd = f"CARGO_PKG_VERSION=2.0.0 verus {os.path.relpath(path, ROOT)} --output-json --time --error-format=json " + " ".join(extra)
    res, diags, dt, raw = run_verus(path, extra)
    R.wall += dt
    vr = res.get("verification-results", {})
    if raw == "timeout":
        R.status = "undecided"; R.reason = "verus timeout"; return R
    failures, hard, rl = classify(diags, lines_meta, os.path.basename(path))
    # relaxed units model a panic (overflow with overflow-checks on, division by zero) as abort = nothing committed (DESIGN 4.3): E8
    # does that for the arithmetic of the pinned tree; arithmetic that a changed tree introduces gets the same treatment here. Verus
    # assumes the range condition after reporting it, so everything after the operation is checked for the non-panicking runs.
    if not meta.get("strict") and overflow_checks_on():
        keep = []
        for f in failures:
            # functions marked [no_panic] in specs/ (the property says they never abort) keep their range conditions as obligations
            if f["fid"] and not f["fid"].startswith("lemma:") and f["label"] == "body" and ARITH_MSG.search(f["message"]) \
                    and not g.functions.get(f["fid"], {}).get("no_panic"):
                R.runtime_arith.append({"function": f["fid"], "build_line": f["line"], "message": f["message"]})
            else:
                keep.append(f)
        failures = keep
    if (not vr or vr.get("encountered-vir-error") or hard or ("verified" not in vr)) and not gen.NO_E23 and any(x.get("rule") in ("E23", "E25") for x in g.rewrites):
        # an E23 closure contract (`res == <closure body>`) is not expressible in spec mode (e.g. a comparison of non-primitive
        # values): second attempt without E23; the closure then stays without contract
        if not gen.E25_RESULT and any(x.get("rule") == "E25" for x in g.rewrites):
            gen.E25_RESULT = True      # `map` / `and_then` on a Result
            try:
                return run_unit(spec_path, tier, seed, kf_omit, do_vacuity, rlimit, tag, bdir)
            finally:
                gen.E25_RESULT = False
        gen.NO_E23 = True
        was = gen.E25_RESULT; gen.E25_RESULT = False
        try:
            return run_unit(spec_path, tier, seed, kf_omit, do_vacuity, rlimit, tag, bdir)
        finally:
            gen.NO_E23 = False; gen.E25_RESULT = was
    if not vr or vr.get("encountered-vir-error") or hard or ("verified" not in vr):
        R.status = "undecided"
        R.reason = "unsupported construct / compile error: " + (hard[0][:1500] if hard else (raw[:1500] or json.dumps(vr)))
        return R
    R.verified = vr.get("verified", 0); R.errors = vr.get("errors", 0)
    try:
        R.smt_ms = res["times-ms"]["smt"]["total"]
    except (KeyError, TypeError):
        pass
    fb = breakdown(res)
    R.times = fb
    if rl:
        R.status = "undecided"; R.reason = "rlimit exceeded: " + "; ".join(rl[:3])
    # obligations
    ltags = lemma_tags(spec_path)
    failed_by_fn: Dict[str, List[dict]] = {}
    failed_lemmas: Dict[str, dict] = {}
    for f in failures:
        if f["fid"] is None:
            R.infra_failed.append(f)
        elif f["fid"].startswith("lemma:"):
            failed_lemmas.setdefault(f["fid"][6:], f)
        else:
            failed_by_fn.setdefault(f["fid"], []).append(f)
    for fid, info in g.functions.items():
        ff = failed_by_fn.get(fid, [])
        flabels = set(x["label"] for x in ff)
        # a function whose breakdown says success=false but has no diagnostic (e.g. rlimit) is undecided
        props_of_fn = set()
        for lab in info["labels"]:
            props_of_fn.add(lab.split(".")[0])
            props_of_fn |= set(info["tags"].get(lab, []))
        for lab in info["labels"]:
            tags = sorted(set([lab.split(".")[0]] + [t for t in info["tags"].get(lab, []) if re.match(r"C\d+$", t)]))
            if info.get("kinds", {}).get(lab) in ("closure", "loop"):
                # a closure postcondition / loop invariant is assumed by the enclosing function's proof:
                # it carries every property that function's contract serves
                tags = sorted(p for p in props_of_fn if re.match(r"C\d+$", p))
            R.obligations.append({"oid": f"{unit}/{fid}#{lab}", "kind": "clause", "tags": tags, "discharged": lab not in flabels, "fid": fid})
        R.obligations.append({"oid": f"{unit}/{fid}#body", "kind": "body", "tags": sorted(p for p in props_of_fn if re.match(r"C\d+$", p)),
                              "discharged": "body" not in flabels, "fid": fid})
        if ff and info.get("new_closures"):
            # the function gained a closure that has no contract: Verus knows nothing about such a closure's result, so a failing
            # obligation here may only mean "cannot see through the closure". Undecided, never a violation.
            R.opaque.append({"function": fid, "closure_lines": info["new_closures"], "failing": sorted(flabels)})
            R.status = "undecided"
            R.reason = (f"{fid}: a closure without contract appeared (line(s) {info['new_closures']} of {info['file']}); closures are opaque to the "
                        f"verifier, so the failing obligation(s) {sorted(flabels)} cannot be decided")
            continue
        for x in ff:
            x["oid"] = f"{unit}/{fid}#{x['label']}"
            R.failed.append(x)
    # lemmas (proof fns in the spec text): discharged iff no diagnostic points into them
    spec_lines = {}
    for name, tags in ltags.items():
        ok = name not in failed_lemmas
        R.obligations.append({"oid": f"{unit}/lemma:{name}", "kind": "lemma", "tags": tags, "discharged": ok, "fid": None})
        if not ok:
            fl = failed_lemmas[name]
            R.failed.append({"oid": f"{unit}/lemma:{name}", "fid": None, "label": f"lemma:{name}", "message": "lemma no longer proves: " + fl["message"],
                             "line": fl["line"], "excerpt": fl["excerpt"]})
    lemma_names = set(ltags)
    # infra failures that are not lemma failures: shim/E1 code does not verify -> machinery problem
    real_infra = []
    for x in R.infra_failed:
        real_infra.append(x)
    for nm, fl in failed_lemmas.items():
        if nm not in ltags:   # a proof fn of the shim
            R.infra_failed.append(fl)
    if R.infra_failed:
        R.status = "undecided"; R.reason = "a shim / generated helper no longer verifies: " + R.infra_failed[0]["message"] + " @" + str(R.infra_failed[0]["line"])
    # lemmas are spec-only proofs (they do not mention function bodies): a failing lemma is solver instability or a
    # machinery problem, never a violation. Retry once with another seed / rlimit, then report undecided.
    lemma_fail = [x for x in R.failed if x["label"].startswith("lemma:")]
    if lemma_fail and not tag.endswith("_retry"):
        R2 = run_unit(spec_path, tier, 7, kf_omit, do_vacuity, 30.0, tag + "_retry", bdir)
        R2.wall += R.wall
        return R2
    if lemma_fail:
        R.failed = [x for x in R.failed if not x["label"].startswith("lemma:")]
        R.status = "undecided"; R.reason = "lemma does not prove (after retry): " + ", ".join(x["oid"] for x in lemma_fail)
    if R.failed and R.status == "ok":
        R.status = "failed"
    # vacuity: every function under contract must FAIL when `assert(false)` is put first in its body
    if do_vacuity and R.status != "undecided":
        gen.Source.cache.clear()
        gv = gen.Gen(spec_path, "vacuity", kf_omit=kf_omit)
        vtext, vmeta = gv.build()
        vpath = os.path.join(bdir_abs, crate + "_vac.rs")
        open(vpath, "w").write(vtext)
        vres, vdiags, vdt, vraw = run_verus(vpath, ["--multiple-errors", "0"])
        R.wall += vdt
        vf, vhard, vrl = classify(vdiags, vmeta, os.path.basename(vpath))
        reached = set(x["fid"] for x in vf if x["fid"] and x["message"].startswith("assertion failed"))
        for fid, finfo in g.functions.items():
            if finfo.get("assumed"): continue
            R.vacuity[fid] = fid in reached
        missing = [f for f, ok in R.vacuity.items() if not ok]
        if vhard or not vres.get("verification-results"):
            R.status = "undecided"; R.reason = "vacuity build did not compile: " + (vhard[0][:800] if vhard else vraw[:800])
        elif missing:
            R.status = "undecided"; R.reason = f"vacuity probe passed (precondition unsatisfiable?) for {missing}"
    return R


def load_kf() -> List[dict]:
    p = os.path.join(ROOT, "known_findings.json")
    if not os.path.exists(p): return []
    return json.load(open(p)).get("findings", [])


def load_baseline() -> set:
    p = os.path.join(ROOT, "specs", "BASELINE_OBLIGATIONS.json")
    if not os.path.exists(p): return set()
    return set(json.load(open(p)))


def serves(o: dict, prop: str, unit_props: List[str]) -> bool:
    if o["kind"] == "lemma":
        return (not o["tags"]) or prop in o["tags"]
    return prop in o["tags"]


def check_property(prop: str, tier: str, seed: int, quiet: bool = False) -> int:
    t0 = time.time()
    specs = units_for(prop)
    ev_path = os.path.join(os.environ.get("VERIF_EVIDENCE_DIR") or os.path.join(ROOT, "evidence"), f"{prop}.json")
    os.makedirs(os.path.dirname(ev_path), exist_ok=True)
    if os.path.exists(ev_path): os.remove(ev_path)
    if not specs:
        print(f"{prop}: no unit serves this property (not claimed)")
        return 2
    kfs = load_kf()
    known = [k for k in kfs if k.get("status") == "known"]
    kf_omit = set(k["obligation"] for k in known)
    baseline = load_baseline()
    results: List[UnitResult] = []
    seeds = [0] if tier == "quick" else [0, seed or 1, (seed or 1) + 1]
    with ThreadPoolExecutor(max_workers=8) as ex:
        futs = []
        for sp in specs:
            futs.append(ex.submit(run_unit, sp, tier, 0, kf_omit, True, None, "", prop))
        results = [f.result() for f in futs]
    unstable = []
    if tier == "thorough":
        # stability: other solver seeds and doubled rlimit must give the same verdicts
        with ThreadPoolExecutor(max_workers=8) as ex:
            futs = []
            for sp in specs:
                for sd in seeds[1:]:
                    futs.append((sp, sd, ex.submit(run_unit, sp, tier, sd, kf_omit, False, 20.0, f"_s{sd}", prop)))
            for sp, sd, f in futs:
                r2 = f.result()
                base = next(r for r in results if r.unit == r2.unit)
                a = sorted(x["oid"] for x in base.failed); b = sorted(x["oid"] for x in r2.failed)
                if a != b or r2.status == "undecided":
                    unstable.append({"unit": r2.unit, "seed": sd, "baseline_failed": a, "seed_failed": b, "reason": r2.reason})
    # known-finding variants: the omitted clauses of this property are put back in ONE extra build per unit and are
    # expected to fail there (the main build above never sees them, so callers cannot rely on a false clause)
    kf_lines = []
    kf_results = []
    mine = [k for k in known if k["property"] == prop or prop in k.get("also", [])]
    by_unit: Dict[str, List[dict]] = {}
    for k in mine:
        by_unit.setdefault(k["obligation"].split("/")[0], []).append(k)
    for unit, ks in by_unit.items():
        sp = os.path.join(ROOT, "specs", unit + ".vs")
        if not os.path.exists(sp): continue
        omit = kf_omit - set(k["obligation"] for k in ks)
        r = run_unit(sp, tier, 0, omit, False, None, "_kf", prop)
        failed_oids = set(x["oid"] for x in r.failed)
        for k in ks:
            still = k["obligation"] in failed_oids
            kf_results.append({"obligation": k["obligation"], "still_fails": still, "status": r.status, "reason": r.reason})
            if still:
                kf_lines.append(f"KNOWN-FINDING: property={prop} {k['obligation']} -- {k['witness']}")
            elif r.status == "undecided":
                kf_lines.append(f"NOTE: known finding {k['obligation']} could not be re-checked: {r.reason[:200]}")
            else:
                kf_lines.append(f"NOTE: known finding {k['obligation']} no longer fails (clause now proves)")
        # any OTHER obligation failing in the variant build that is not failing in the main build is suspicious but is
        # caused by the put-back clauses only (same functions); it is not reported
    # collect
    undecided = [r for r in results if r.status == "undecided"]
    obligations = []; failed = []
    for r in results:
        meta, _ = gen.parse_spec(os.path.join(ROOT, "specs", r.unit + ".vs"))
        # attribution is per FUNCTION: verification is modular, callers assume every clause of a callee's contract, so a proof of
        # `prop` that goes through function F stands only if ALL obligations of F are discharged. A function belongs to the cone of
        # `prop` if one of its clauses is tagged with it.
        fn_tags = {}
        for o in r.obligations:
            if o.get("fid") and o["kind"] != "lemma":
                fn_tags.setdefault(o["fid"], set()).update(o["tags"] or [])
        for o in r.obligations:
            if serves(o, prop, meta["properties"]) or (o["kind"] != "lemma" and o.get("fid") and prop in fn_tags.get(o["fid"], ())):
                obligations.append(o)
        served = set(o["oid"] for o in obligations)
        for f in r.failed:
            if f["oid"] in served:
                failed.append((r, f))
    violations = []
    notbase = []
    seen_oid = set()
    for r, f in failed:
        if f["oid"] in seen_oid: continue
        seen_oid.add(f["oid"])
        if baseline and f["oid"] not in baseline:
            notbase.append(f["oid"]); continue
        violations.append((r, f))
    rc = 0
    out_lines = []
    if violations:
        rc = 1
        rdir = os.path.join(os.environ.get("VERIF_REPLAY_DIR") or os.path.join(ROOT, "replay"), prop)
        os.makedirs(rdir, exist_ok=True)
        for r, f in violations:
            fn = r.functions.get(f["fid"], {}) if f["fid"] else {}
            rp = os.path.join(rdir, re.sub(r"[^A-Za-z0-9_.#-]", "_", f["oid"]) + ".json")
            cex = None
            try:
                import kani_cex
                cex = kani_cex.try_counterexample(f["oid"], prop)
            except Exception as e:  # no paired harness / kani failure: no failing input
                cex = None
            json.dump({"property": prop, "obligation": f["oid"], "unit": r.unit,
                       "function": f["fid"], "repo_file": fn.get("file"), "repo_line": fn.get("line"),
                       "sha256_of_extracted_text": fn.get("sha256"),
                       "verus_message": f["message"], "verus_output": f["excerpt"],
                       "build_file": os.path.relpath(r.build_file, ROOT) if r.build_file else None, "build_line": f["line"],
                       "checker_cmd": r.checker_cmd, "counterexample": cex,
                       "proof_hints_skipped_because_their_anchor_statement_is_gone": fn.get("skipped_hints", []),
                       "note": "obligation is discharged on the unchanged tree (specs/BASELINE_OBLIGATIONS.json) and fails on this tree"},
                      open(rp, "w"), indent=1)
            tail = "" if cex else " no-failing-input-found"
            out_lines.append(f"VIOLATION property={prop} replay={rp}{tail}")
    # thorough tier: bounded Kani / CBMC stand-ins for the assumed leaves (never counted as proof)
    bounded = []
    if tier == "thorough":
        try:
            import kani_run
            kres = kani_run.run(prop)
        except Exception as e:
            kres = [{"name": "(kani)", "leaf": "", "kind": "bounded", "bound": "", "status": "undecided", "reason": f"kani driver error: {e}", "seconds": 0}]
        for k in kres:
            bounded.append({"function": k.get("leaf"), "harness": k["name"], "bound": k.get("bound"), "back_end": "kani 0.68 / cbmc 6.11 (bounded model checking of the compiled function on a scratch copy)",
                            "status": {"passed": "no counterexample within the bound", "failed": "COUNTEREXAMPLE", "undecided": "not completed: " + str(k.get("reason", ""))[:300]}[k["status"]],
                            "checks": k.get("checks"), "seconds": k.get("seconds")})
            if k["status"] == "failed":
                rc = 1
                rdir = os.path.join(os.environ.get("VERIF_REPLAY_DIR") or os.path.join(ROOT, "replay"), prop)
                os.makedirs(rdir, exist_ok=True)
                rp = os.path.join(rdir, "kani_" + k["name"] + ".json")
                rep = k.get("replay") or {}
                json.dump({"property": prop, "obligation": f"kani/{k['name']}", "function": k.get("leaf"), "bound": k.get("bound"),
                           "failed_checks": k.get("failed_checks"), "counterexample_test": k.get("counterexample_test"),
                           "replayed_against_real_code": rep, "kani_output": k.get("output_tail"),
                           "note": "bounded harness in kani/" + str(k.get("code")) + "; the concrete playback test above was executed with `cargo kani playback` on a scratch copy of /repo"},
                          open(rp, "w"), indent=1)
                tail = "" if rep.get("failed_on_real_code") else " no-failing-input-found"
                out_lines.append(f"VIOLATION property={prop} replay={rp}{tail}")
                violations.append((None, {"oid": f"kani/{k['name']}"}))
    if rc == 0 and (undecided or notbase or unstable):
        rc = 2
    n_obl = len(obligations)
    n_dis = sum(1 for o in obligations if o["discharged"])
    trusted = sorted(set(t for r in results for t in r.trusted))
    fuc = []
    for r in results:
        for fid, info in r.functions.items():
            if any(o["fid"] == fid for o in obligations):
                tm = next((d for bn, d in r.times.items() if bn.endswith("::" + fid)), None)
                fuc.append({"function": fid, "unit": r.unit, "file": info["file"], "line": info["line"], "sha256": info["sha256"],
                            "solver_time_us": tm["time_us"] if tm else None, "rlimit": tm["rlimit"] if tm else None,
                            "back_end": "verus/z3", "vacuity_probe_failed_as_required": r.vacuity.get(fid)})
    samples = [{"obligation": o["oid"], "kind": o["kind"], "discharged": o["discharged"]} for o in obligations[:12]]
    ev = {
        "property_id": prop, "tier": tier, "seed": seed, "level": "proof",
        "coverage": {
            "obligations": n_obl, "discharged": n_dis,
            "checker_cmd": "; ".join(r.checker_cmd for r in results if r.checker_cmd),
            "trusted_base": trusted + ENV_ASSUMPTIONS,
            "samples": samples,
            "functions_under_contract": fuc,
            "units": [{"unit": r.unit, "status": r.status, "reason": r.reason, "verus_verified": r.verified, "verus_errors": r.errors,
                       "wall_s": round(r.wall, 2), "smt_ms": r.smt_ms} for r in results],
            "back_end": "Verus 0.2026.09.13 (Z3), single-file, functions extracted from /repo on this run",
            "extraction_rewrites": "every item: E1 attributes dropped + derived impls generated, E2 use dropped, E3 named return + contract, E13 visibility widened; where present: E4 loop invariants, E5/E6 closure types + ensures / tuple-pattern parameters, E7 exec const, E10 proof hints; call-site rewrites are listed in call_site_rewrites (rules in DESIGN.md 0.2 / 3.2); round-trip check (strip markers, undo rewrites, compare with /repo text) passed for every item",
            "call_site_rewrites": [dict(x, unit=r.unit) for r in results for x in r.rewrites if any(o["fid"] == x.get("fn") for o in obligations)],
            "assumed_leaves": [{"function": fid, "unit": r.unit, "file": info["file"], "line": info["line"],
                                "note": ("E14: body not verified (outside Verus' subset); its contract is an ASSUMPTION used by callers" if info.get("labels")
                                         else "declaration only: body not verified here and NO contract is assumed about it (callers' contracts mention it only through call_ensures)")}
                               for r in results for fid, info in r.functions.items() if info.get("assumed")],
            "proof_hints_skipped": [x for r in results for x in r.skipped],
            "arithmetic_left_to_runtime_checks": [dict(x, unit=r.unit) for r in results for x in r.runtime_arith],
            "functions_undecided_because_of_a_new_closure_without_contract": [dict(x, unit=r.unit) for r in results for x in r.opaque],
            "machine_arithmetic": "u64/u128/usize are machine integers with overflow as a proof obligation (strict units) or as abort = revert (relaxed units: E8 partial operators for the arithmetic of the pinned tree, listed in call_site_rewrites; range / zero-divisor conditions of arithmetic that a changed tree adds are left to the runtime checks, [profile.release] overflow-checks = true, and listed in arithmetic_left_to_runtime_checks); spec-level sums are mathematical integers",
            "bounded": bounded, "bounded_note": ("bounded stand-ins listed above are NOT proof" if bounded else "the bounded Kani stand-ins for the assumed leaves (kani/harnesses.json) run in the thorough tier only"),
            "known_findings": kf_results, "unstable": unstable,
            "undecided": [{"unit": r.unit, "reason": r.reason} for r in undecided] + ([{"not_in_baseline": notbase}] if notbase else []),
            "failed_obligations": [f["oid"] for _, f in failed],
            "explanation": "every listed obligation is a Verus verification condition generated from the current text of the /repo functions under contract",
        },
        "assumptions": ENV_ASSUMPTIONS,
        "wall_s": round(time.time() - t0, 2),
        "violations": len(violations),
    }
    json.dump(ev, open(ev_path, "w"), indent=1)
    for l in kf_lines: print(l)
    for l in out_lines: print(l)
    if not quiet:
        print(f"{prop}: {n_dis}/{n_obl} obligations discharged over {len(results)} unit(s) "
              f"[{', '.join(r.unit + ':' + r.status for r in results)}] in {ev['wall_s']}s -> exit {rc}")
        for r in undecided:
            print(f"  UNDECIDED {r.unit}: {r.reason[:600]}")
        if notbase: print(f"  UNDECIDED failing obligations not in baseline: {notbase}")
        if unstable: print(f"  UNSTABLE: {unstable}")
    return rc


def update_baseline():
    allobs = set()
    allparams = {}
    for sp in sorted(glob.glob(os.path.join(ROOT, "specs", "*.vs"))):
        kf_omit = set(k["obligation"] for k in load_kf() if k.get("status") == "known")
        r = run_unit(sp, "quick", 0, kf_omit, False)
        print(r.unit, r.status, r.reason[:300], f"{sum(o['discharged'] for o in r.obligations)}/{len(r.obligations)}")
        for fid, info in r.functions.items():
            if info.get("skipped_hints"):
                print(f"  WARNING {r.unit}/{fid}: spec parts that found no anchor on this tree: {info['skipped_hints']}")
        for o in r.obligations:
            if o["discharged"]: allobs.add(o["oid"])
        allparams.update(getattr(r, "param_names", {}))
    json.dump(allparams, open(os.path.join(ROOT, "specs", "PARAMS.json"), "w"), indent=0, sort_keys=True)
    p = os.path.join(ROOT, "specs", "BASELINE_OBLIGATIONS.json")
    json.dump(sorted(allobs), open(p, "w"), indent=0)
    print(f"wrote {p}: {len(allobs)} obligations")


def replay(path: str) -> int:
    d = json.load(open(path))
    prop = d["property"]
    if str(d.get("obligation", "")).startswith("kani/"):
        import kani_run
        res = kani_run.run(None, d["obligation"].split("/", 1)[1])
        for k in res:
            print(f"replay: kani harness {k['name']}: {k['status']} in {k['seconds']} s")
            if k["status"] == "failed":
                print((k.get("counterexample_test") or "")[:2000])
                print(f"VIOLATION property={prop} replay={path}" + ("" if (k.get("replay") or {}).get("failed_on_real_code") else " no-failing-input-found"))
                return 1
        return 0 if all(k["status"] == "passed" for k in res) else 2
    unit = d["unit"]
    sp = os.path.join(ROOT, "specs", unit + ".vs")
    kf_omit = set(k["obligation"] for k in load_kf() if k.get("status") == "known")
    r = run_unit(sp, "quick", 0, kf_omit, False, None, "_replay")
    still = [f for f in r.failed if f["oid"] == d["obligation"]]
    if still:
        print(f"replay: obligation {d['obligation']} still fails on the current tree:\n{still[0]['excerpt']}")
        print(f"VIOLATION property={prop} replay={path}" + ("" if d.get("counterexample") else " no-failing-input-found"))
        return 1
    print(f"replay: obligation {d['obligation']} is discharged on the current tree ({r.status} {r.reason[:200]})")
    return 0 if r.status != "undecided" else 2


def main():
    ap = argparse.ArgumentParser()
    ap.add_argument("prop", nargs="?")
    ap.add_argument("--tier", default=os.environ.get("VERIF_TIER", "quick"))
    ap.add_argument("--replay")
    ap.add_argument("--update-baseline", action="store_true")
    ap.add_argument("--unit", help="development aid: verify one unit and list every failing baseline obligation, whatever property it serves")
    a = ap.parse_args()
    seed = int(os.environ.get("VERIF_SEED", "0") or 0)
    if a.update_baseline:
        update_baseline(); return 0
    if a.replay:
        return replay(a.replay)
    if a.unit:
        kf_omit = set(k["obligation"] for k in load_kf() if k.get("status") == "known")
        r = run_unit(os.path.join(ROOT, "specs", a.unit + ".vs"), "quick", 0, kf_omit, False, None, "_unit")
        base = load_baseline()
        bad = sorted(set(f["oid"] for f in r.failed if f["oid"] in base))
        for o in bad: print("FAILS", o)
        print(f"{a.unit}: {r.status} {r.reason[:300]} failing baseline obligations: {len(bad)}; skipped spec parts: {r.skipped}")
        return 1 if bad else (2 if r.status == "undecided" else 0)
    if not a.prop:
        ap.error("property id required")
    return check_property(a.prop, a.tier if a.tier in ("quick", "thorough") else "quick", seed)


if __name__ == "__main__":
    sys.exit(main())
