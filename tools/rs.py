"""Rust-aware tokenizer and item locator used by the extractor.

No regex over code: a hand-written lexer that understands line/nested block comments,
string / raw string / byte string / char literals vs. lifetimes, and bracket matching.
All positions are byte offsets into the (utf-8 decoded) source string, so that item text
can be copied *verbatim* from /repo.
"""
from __future__ import annotations
from dataclasses import dataclass
from typing import List, Optional, Tuple

IDENT_START = set("abcdefghijklmnopqrstuvwxyzABCDEFGHIJKLMNOPQRSTUVWXYZ_")
IDENT_CONT = IDENT_START | set("0123456789")

# multi-char punctuation we keep as one token (never `>>`/`<<`: generics)
PUNCT3 = ["..=", "...", "<<=", ">>="]
PUNCT2 = ["->", "=>", "::", "||", "&&", "==", "!=", "<=", ">=", "+=", "-=", "*=", "/=",
          "%=", "^=", "&=", "|=", ".."]


@dataclass
class Tok:
    kind: str   # ident | lit | punct | lifetime | comment | ws
    text: str
    start: int
    end: int

    def __repr__(self):
        return f"{self.kind}:{self.text!r}@{self.start}"


class LexError(Exception):
    pass


def tokenize(src: str) -> List[Tok]:
    toks: List[Tok] = []
    i, n = 0, len(src)
    while i < n:
        c = src[i]
        # whitespace
        if c.isspace():
            j = i
            while j < n and src[j].isspace():
                j += 1
            toks.append(Tok("ws", src[i:j], i, j)); i = j; continue
        # comments
        if src.startswith("//", i):
            j = src.find("\n", i)
            if j < 0: j = n
            toks.append(Tok("comment", src[i:j], i, j)); i = j; continue
        if src.startswith("/*", i):
            depth, j = 1, i + 2
            while j < n and depth:
                if src.startswith("/*", j): depth += 1; j += 2
                elif src.startswith("*/", j): depth -= 1; j += 2
                else: j += 1
            if depth: raise LexError("unterminated block comment")
            toks.append(Tok("comment", src[i:j], i, j)); i = j; continue
        # raw strings r"..", r#".."#, br#".."#
        if c in "rb":
            j = i
            if src.startswith("br", j): j += 2
            elif c == "r": j += 1
            else: j = -1
            if j > 0:
                k = j
                while k < n and src[k] == "#": k += 1
                if k < n and src[k] == '"' and (k > j or src[j] == '"'):
                    hashes = k - j
                    close = '"' + "#" * hashes
                    e = src.find(close, k + 1)
                    if e < 0: raise LexError("unterminated raw string")
                    e += len(close)
                    toks.append(Tok("lit", src[i:e], i, e)); i = e; continue
        # byte string / byte char
        if c == "b" and i + 1 < n and src[i + 1] in "\"'":
            q = src[i + 1]
            j = i + 2
            while j < n and src[j] != q:
                j += 2 if src[j] == "\\" else 1
            j += 1
            toks.append(Tok("lit", src[i:j], i, j)); i = j; continue
        # strings
        if c == '"':
            j = i + 1
            while j < n and src[j] != '"':
                j += 2 if src[j] == "\\" else 1
            if j >= n: raise LexError("unterminated string")
            j += 1
            toks.append(Tok("lit", src[i:j], i, j)); i = j; continue
        # char literal vs lifetime
        if c == "'":
            # char: 'x' or '\..'
            if i + 1 < n and src[i + 1] == "\\":
                j = i + 2
                while j < n and src[j] != "'": j += 1
                j += 1
                toks.append(Tok("lit", src[i:j], i, j)); i = j; continue
            if i + 2 < n and src[i + 2] == "'":
                toks.append(Tok("lit", src[i:i + 3], i, i + 3)); i += 3; continue
            j = i + 1
            while j < n and src[j] in IDENT_CONT: j += 1
            toks.append(Tok("lifetime", src[i:j], i, j)); i = j; continue
        # identifiers / keywords (incl. raw idents)
        if c in IDENT_START:
            j = i
            if src.startswith("r#", i): j = i + 2
            while j < n and src[j] in IDENT_CONT: j += 1
            toks.append(Tok("ident", src[i:j], i, j)); i = j; continue
        # numbers
        if c.isdigit():
            j = i
            while j < n and (src[j] in IDENT_CONT or (src[j] == "." and j + 1 < n and src[j + 1].isdigit())):
                j += 1
            toks.append(Tok("lit", src[i:j], i, j)); i = j; continue
        # punctuation
        for p in PUNCT3:
            if src.startswith(p, i):
                toks.append(Tok("punct", p, i, i + 3)); i += 3; break
        else:
            for p in PUNCT2:
                if src.startswith(p, i):
                    toks.append(Tok("punct", p, i, i + 2)); i += 2; break
            else:
                toks.append(Tok("punct", c, i, i + 1)); i += 1
    return toks


def sig(toks: List[Tok]) -> List[Tok]:
    """significant tokens (no whitespace / comments)"""
    return [t for t in toks if t.kind not in ("ws", "comment")]


OPEN = {"(": ")", "[": "]", "{": "}"}
CLOSE = {")": "(", "]": "[", "}": "{"}


def match_close(st: List[Tok], i: int) -> int:
    """st[i] is an opening bracket; return index of its matching closer."""
    assert st[i].text in OPEN, st[i]
    depth = 0
    for j in range(i, len(st)):
        t = st[j]
        if t.kind == "punct":
            if t.text in OPEN: depth += 1
            elif t.text in CLOSE:
                depth -= 1
                if depth == 0: return j
    raise LexError(f"unbalanced bracket at {st[i]}")


ITEM_KW = {"fn", "struct", "enum", "impl", "mod", "use", "const", "static", "type", "trait",
           "macro_rules", "union", "extern"}
BLOCK_KINDS = {"fn", "struct", "enum", "impl", "mod", "trait", "macro_rules", "union"}


@dataclass
class Item:
    kind: str
    name: str            # for impl: normalised header, e.g. "TokenInfo" or "Trait for Type"
    attrs: List[str]     # attribute texts
    start: int           # offset of first attribute / visibility / keyword
    kw: int              # index in `st` of the keyword token
    end: int             # offset one past the item
    st_lo: int           # index range in the significant token list
    st_hi: int           # inclusive
    cfg_test: bool

    def text(self, src: str) -> str:
        return src[self.start:self.end]


def _skip_generics(st: List[Tok], i: int) -> int:
    """st[i] is '<'; return index just past the matching '>' (angle counting, `->` is one token)."""
    depth = 0
    j = i
    while j < len(st):
        t = st[j]
        if t.kind == "punct":
            if t.text == "<": depth += 1
            elif t.text == ">":
                depth -= 1
                if depth == 0: return j + 1
            elif t.text in OPEN:
                j = match_close(st, j)
        j += 1
    raise LexError("unbalanced generics")


def find_items(st: List[Tok], lo: int, hi: int) -> List[Item]:
    """Items among significant tokens st[lo:hi] at nesting depth 0."""
    items: List[Item] = []
    i = lo
    while i < hi:
        first = i
        attrs: List[str] = []
        # attributes
        while i < hi and st[i].text == "#" and i + 1 < hi and st[i + 1].text in ("[", "!"):
            j = i + 1
            if st[j].text == "!": j += 1
            e = match_close(st, j)
            attrs.append("".join(t.text for t in st[i:e + 1]))
            i = e + 1
        # visibility and qualifiers
        while i < hi and st[i].kind == "ident" and st[i].text in ("pub", "async", "unsafe", "default"):
            i += 1
            if st[i - 1].text == "pub" and i < hi and st[i].text == "(":
                i = match_close(st, i) + 1
        if i >= hi: break
        t = st[i]
        if t.kind != "ident" or t.text not in ITEM_KW:
            # stray token (e.g. `;`), skip
            i += 1
            continue
        kind = t.text
        kw = i
        if kind == "const" and i + 1 < hi and st[i + 1].text in ("fn", "unsafe"):
            i += 1
            while st[i].text != "fn": i += 1
            kind = "fn"; kw = i
        if kind == "extern":
            # extern "C" fn / extern crate
            j = i + 1
            if st[j].kind == "lit": j += 1
            if st[j].text == "fn": kind = "fn"; kw = j; i = j
            else: kind = "use"
        # name
        name = ""
        if kind == "impl":
            j = kw + 1
            if st[j].text == "<": j = _skip_generics(st, j)
            k = j
            while st[k].text != "{" and st[k].text != "where": k += 1
            name = " ".join(tk.text for tk in st[j:k])
        elif kind == "macro_rules":
            name = st[kw + 2].text
        elif kind != "use":
            name = st[kw + 1].text
        # end
        j = kw + 1
        end_idx = None
        while j < hi:
            tt = st[j]
            if tt.kind == "punct":
                if tt.text == ";" :
                    end_idx = j; break
                if tt.text in OPEN:
                    e = match_close(st, j)
                    if tt.text == "{" and kind in BLOCK_KINDS:
                        end_idx = e; break
                    if tt.text == "(" and kind == "macro_rules":
                        end_idx = e
                        if e + 1 < hi and st[e + 1].text == ";": end_idx = e + 1
                        break
                    j = e
            j += 1
        if end_idx is None:
            raise LexError(f"no end for item {kind} {name}")
        # tuple struct `struct X(..);`
        cfg_test = any("cfg(test)" in a.replace(" ", "") for a in attrs)
        items.append(Item(kind, name, attrs, st[first].start, kw, st[end_idx].end, first, end_idx, cfg_test))
        i = end_idx + 1
    return items


@dataclass
class FnParts:
    item: Item
    name: str
    params_open: int     # st index of '('
    params_close: int    # st index of ')'
    arrow: Optional[int]  # st index of '->' or None
    ret: Optional[Tuple[int, int]]  # st index range [lo, hi) of return type tokens
    where: Optional[Tuple[int, int]]  # st index range of where clause incl. `where`
    body_open: int       # st index of '{'
    body_close: int


def parse_fn(st: List[Tok], it: Item) -> FnParts:
    i = it.kw + 1
    name = st[i].text
    i += 1
    if st[i].text == "<": i = _skip_generics(st, i)
    assert st[i].text == "(", (name, st[i])
    po = i
    pc = match_close(st, i)
    i = pc + 1
    arrow = None; ret = None; where = None
    if st[i].text == "->":
        arrow = i
        j = i + 1
        while not (st[j].text == "{" or (st[j].kind == "ident" and st[j].text == "where")):
            if st[j].text in ("(", "["): j = match_close(st, j)
            j += 1
        ret = (i + 1, j)
        i = j
    if st[i].kind == "ident" and st[i].text == "where":
        j = i + 1
        while st[j].text != "{":
            if st[j].text in ("(", "["): j = match_close(st, j)
            j += 1
        where = (i, j)
        i = j
    assert st[i].text == "{", (name, st[i])
    bo = i
    bc = match_close(st, i)
    return FnParts(it, name, po, pc, arrow, ret, where, bo, bc)


@dataclass
class Closure:
    bar: int            # st index of first '|' (or '||')
    params_end: int     # st index of closing '|' (== bar for '||')
    arrow: Optional[int]
    ret: Optional[Tuple[int, int]]
    body_lo: int        # st index of first body token
    body_hi: int        # st index of last body token (inclusive)
    is_block: bool


CLOSURE_PREV = {"(", ",", "=", "{", ";", "[", "=>", "return", "move", "&&", "||", "!", "&", ":"}


def find_closures(st: List[Tok], lo: int, hi: int) -> List[Closure]:
    """closures within st[lo:hi] (pre-order by start)."""
    out: List[Closure] = []
    i = lo
    while i < hi:
        t = st[i]
        if t.kind == "punct" and t.text in ("|", "||") and i > 0:
            p = st[i - 1]
            prev_ok = (p.kind == "punct" and p.text in CLOSURE_PREV) or (p.kind == "ident" and p.text in ("return", "move", "else", "in"))
            # `||` after an expression is logical-or; `|` after an expression is bit-or / pattern alt
            if prev_ok and not (p.kind == "punct" and p.text in ("||", "&&") and t.text == "||" and False):
                if t.text == "||":
                    pe = i
                else:
                    pe = i + 1
                    while not (st[pe].kind == "punct" and st[pe].text == "|"):
                        if st[pe].text in OPEN: pe = match_close(st, pe)
                        pe += 1
                j = pe + 1
                arrow = None; ret = None
                if st[j].text == "->":
                    arrow = j
                    k = j + 1
                    while st[k].text != "{":
                        if st[k].text in ("(", "["): k = match_close(st, k)
                        k += 1
                    ret = (j + 1, k)
                    j = k
                if st[j].text == "{":
                    e = match_close(st, j)
                    out.append(Closure(i, pe, arrow, ret, j, e, True))
                else:
                    k = j
                    while k < hi:
                        tk = st[k]
                        if tk.kind == "punct":
                            if tk.text in OPEN:
                                k = match_close(st, k)
                            elif tk.text in (",", ";") or tk.text in CLOSE:
                                break
                        k += 1
                    out.append(Closure(i, pe, arrow, ret, j, k - 1, False))
                i = pe + 1
                continue
        i += 1
    return out


@dataclass
class Loop:
    kw: int          # st index of for/while/loop
    kind: str
    in_kw: Optional[int]   # st index of `in` for `for` loops
    body_open: int
    body_close: int


def find_loops(st: List[Tok], lo: int, hi: int) -> List[Loop]:
    out: List[Loop] = []
    i = lo
    while i < hi:
        t = st[i]
        if t.kind == "ident" and t.text in ("for", "while", "loop"):
            # `for<'a>` HRTB / `impl X for Y` do not occur inside bodies we handle; guard anyway
            if t.text == "for" and st[i + 1].text == "<":
                i += 1; continue
            j = i + 1
            in_kw = None
            while st[j].text != "{":
                if st[j].text in ("(", "["):
                    j = match_close(st, j)
                elif st[j].kind == "ident" and st[j].text == "in" and in_kw is None and t.text == "for":
                    in_kw = j
                j += 1
            out.append(Loop(i, t.text, in_kw, j, match_close(st, j)))
        i += 1
    return out


def enclosing_open(st: List[Tok], i: int, lo: int) -> Optional[int]:
    """index of the opening bracket that encloses token i (searching back to lo), or None"""
    depth = 0
    j = i - 1
    while j >= lo:
        t = st[j]
        if t.kind == "punct":
            if t.text in CLOSE: depth += 1
            elif t.text in OPEN:
                if depth == 0: return j
                depth -= 1
        j -= 1
    return None


def _if_of_block(st: List[Tok], o: int, lo: int) -> Optional[int]:
    """st[o] is `{`: if it is the then-block of an `if`, the index of that `if` keyword, else None"""
    depth = 0
    j = o - 1
    while j >= lo:
        t = st[j]
        if t.kind == "punct" and t.text in CLOSE: depth += 1
        elif t.kind == "punct" and t.text in OPEN:
            if depth == 0: return None
            depth -= 1
        elif depth == 0:
            if t.kind == "punct" and t.text == ";": return None
            if t.kind == "ident" and t.text == "if": return j
            if t.kind == "ident" and t.text in ("match", "for", "while", "loop", "else", "let") and t.text != "let": return None
            if t.kind == "punct" and t.text == "=>": return None
        j -= 1
    return None


def _chain_end(st: List[Tok], close: int) -> int:
    """close is the `}` of a then-block: index of the last `}` of the whole if / else-if / else chain"""
    e = close
    while st[e + 1].kind == "ident" and st[e + 1].text == "else":
        k = e + 2
        while st[k].text != "{":
            if st[k].text in ("(", "["): k = match_close(st, k)
            k += 1
        e = match_close(st, k)
    return e


@dataclass
class ContinueSite:
    kw: int            # st index of `continue`
    end: int           # st index of the last token of the statement (`;` or the keyword itself)
    if_close: int      # `}` of the guarding `if` block (which has no else and ends with the continue)
    block_close: int   # `}` of the block holding that `if` (the rest of this block becomes the else branch)


def find_for_continues(st: List[Tok], loops: List[Loop], lo: int, hi: int):
    """E21: `continue` statements of `for` loops (Verus: "for-loops do not yet support continue") that have the shape
         if COND { S; continue; } REST        (no else; the if is a statement of block B)
    where B is the loop body, or is in tail position of it (B is a match-arm body or an if/else branch whose match / if-chain is
    the last statement of a block that is itself the loop body or in tail position). For these, `continue` is equivalent to
    skipping REST:   if COND { S; } else { REST }.  Returns (sites, unsupported_count)."""
    sites, bad = [], 0
    for i in range(lo, hi):
        t = st[i]
        if not (t.kind == "ident" and t.text == "continue"): continue
        inner = [l for l in loops if l.body_open < i < l.body_close]
        if not inner: continue
        L = max(inner, key=lambda l: l.body_open)
        if L.kind != "for": continue
        ok = False
        try:
            end = i
            if st[i + 1].text == ";": end = i + 1
            elif st[i + 1].text != "}": raise ValueError("labelled continue")
            o = enclosing_open(st, i, lo)
            if o is None or st[o].text != "{": raise ValueError("no block")
            c = match_close(st, o)
            if end + 1 != c: raise ValueError("continue is not the last statement of its block")
            iff = _if_of_block(st, o, lo)
            if iff is None: raise ValueError("not guarded by an if")
            if st[iff - 1].kind == "ident" and st[iff - 1].text == "else": raise ValueError("else-if guard")
            if st[c + 1].kind == "ident" and st[c + 1].text == "else": raise ValueError("guard has an else")
            B = enclosing_open(st, iff, lo)
            if B is None or st[B].text != "{": raise ValueError("no enclosing block")
            cur = B
            while cur != L.body_open:
                if cur < L.body_open: raise ValueError("left the loop")
                prev = st[cur - 1]
                if prev.kind == "punct" and prev.text == "=>":
                    M = enclosing_open(st, cur, lo)
                    last = match_close(st, M)
                elif (prev.kind == "ident" and prev.text == "else") or _if_of_block(st, cur, lo) is not None:
                    first = cur
                    # go to the first then-block of the chain
                    last = _chain_end(st, match_close(st, cur))
                    M = cur
                else:
                    raise ValueError("block is neither a match arm nor an if/else branch")
                nxt = last + 1
                if st[nxt].text == ";": nxt += 1
                P = enclosing_open(st, M, lo)
                if P is None or st[P].text != "{" or match_close(st, P) != nxt: raise ValueError("not in tail position")
                cur = P
            sites.append(ContinueSite(i, end, c, match_close(st, B)))
            ok = True
        except (ValueError, LexError, IndexError):
            pass
        if not ok: bad += 1
    return sites, bad


def stmt_start(st: List[Tok], i: int, lo: int) -> Optional[int]:
    """index of the first token of the statement that contains token i (the statement of the innermost block around i), or
    None if i is not inside a block statement (e.g. a brace-less match arm)"""
    depth = 0
    j = i - 1
    while j >= lo:
        t = st[j]
        if t.kind == "punct":
            if t.text in CLOSE:
                if depth == 0 and t.text == "}":
                    nx = st[j + 1]
                    cont = (nx.kind == "punct" and nx.text in (".", "?", ")", ",", "]", "==", "!=", "&&", "||", "+", "-", "*", "/", "as")) or \
                           (nx.kind == "ident" and nx.text in ("else", "as"))
                    if not cont: return j + 1
                depth += 1
            elif t.text in OPEN:
                if depth == 0:
                    if t.text == "{": return j + 1
                    # inside (..) or [..]: keep walking outwards
                else:
                    depth -= 1
            elif depth == 0 and t.text == ";":
                return j + 1
            elif depth == 0 and t.text == "=>":
                return None
        j -= 1
    return None


def postfix_start(st: List[Tok], dot: int, lo: int) -> Optional[int]:
    """st[dot] is the `.` of a method call: index of the first token of the receiver expression (a postfix chain of paths, fields,
    calls, indexings, `?`), or None if the receiver is not of that simple shape"""
    pos = dot - 1
    while pos >= lo:
        t = st[pos]
        if t.kind == "punct" and t.text == "?":
            pos -= 1; continue
        if t.kind == "punct" and t.text in (")", "]"):
            depth = 0; o = pos
            while o >= lo:
                x = st[o]
                if x.kind == "punct" and x.text in CLOSE: depth += 1
                elif x.kind == "punct" and x.text in OPEN:
                    depth -= 1
                    if depth == 0: break
                o -= 1
            if o < lo: return None
            prev = st[o - 1]
            if st[o].text == "(" and not (prev.kind == "ident" and prev.text not in ("if", "match", "while", "return", "in", "let", "else")):
                if prev.kind == "punct" and prev.text == ">": return None     # turbofish call
                return o                                                       # parenthesised primary expression
            if st[o].text == "[" and not (prev.kind == "ident" or (prev.kind == "punct" and prev.text in (")", "]"))):
                return None
            pos = o - 1
            continue
        if t.kind in ("ident", "lit"):
            if t.kind == "ident" and t.text in ("if", "match", "while", "return", "in", "let", "else", "mut", "move", "as"): return None
            p = st[pos - 1]
            if p.kind == "punct" and p.text in (".", "::"):
                pos -= 2; continue
            return pos
        return None
    return None


def param_names(st: List[Tok], fp: "FnParts") -> List[Optional[str]]:
    """names of the parameters of a fn (None for self / non-identifier patterns), in order"""
    out: List[Optional[str]] = []
    i = fp.params_open + 1
    while i < fp.params_close:
        # one parameter: tokens up to the next depth-0 comma
        j = i; depth = 0
        while j < fp.params_close and not (st[j].text == "," and depth == 0):
            if st[j].text in ("(", "[", "{", "<"): depth += 1
            elif st[j].text in (")", "]", "}", ">"): depth -= 1
            j += 1
        toks = st[i:j]
        k = 0
        while k < len(toks) and toks[k].text in ("mut", "&", "ref"): k += 1
        if k + 1 < len(toks) and toks[k].kind == "ident" and toks[k + 1].text == ":" and toks[k].text != "self":
            out.append(toks[k].text)
        elif toks:
            out.append(None)
        i = j + 1
    return out


def rename_idents(text: str, ren: dict) -> str:
    """token-level identifier substitution in spec text (not after `.` or `::`, i.e. never a field or path segment)"""
    toks = tokenize(text)
    sig_ = [t for t in toks if t.kind not in ("ws", "comment")]
    out = []; pos = 0
    for n, t in enumerate(sig_):
        if t.kind == "ident" and t.text in ren and not (n > 0 and sig_[n - 1].text in (".", "::")) and not (n + 1 < len(sig_) and sig_[n + 1].text == "::"):
            out.append(text[pos:t.start]); out.append(ren[t.text]); pos = t.end
    out.append(text[pos:])
    return "".join(out)
