#!/usr/bin/env python3
"""setup_cmd: nothing to build (python + verus only); checks the tools are present."""
import shutil, subprocess, sys, os
ok = True
for t in ("verus", "python3"):
    if not shutil.which(t):
        print("missing tool:", t); ok = False
root = os.path.dirname(os.path.dirname(os.path.abspath(__file__)))
os.makedirs(os.path.join(root, "build"), exist_ok=True)
os.makedirs(os.path.join(root, "evidence"), exist_ok=True)
print("setup ok" if ok else "setup FAILED")
sys.exit(0 if ok else 1)
