#!/bin/sh
# run every claimed check (quick tier) in /verif against /repo and leave the evidence files in evidence/
cd "$(dirname "$0")/.."
TIER="${1:-quick}"
python3 - "$TIER" <<'PY'
import json, subprocess, sys, concurrent.futures as cf
tier = sys.argv[1]
props = [c["property_id"] for c in json.load(open("MANIFEST.json"))["checks"]]
def run(p):
    r = subprocess.run(["./check", p, "--tier", tier], capture_output=True, text=True)
    return p, r.returncode, r.stdout.strip().splitlines()[-1] if r.stdout.strip() else r.stderr[-300:]
with cf.ThreadPoolExecutor(max_workers=4) as ex:
    for p, rc, last in ex.map(run, props):
        print(rc, last)
PY
