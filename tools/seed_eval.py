#!/usr/bin/env python3
"""run the registered checks against the seeded property-breaking changes kept under /verif/seeded/<prop>/<k>/.
Each change is applied to /repo TEMPORARILY (git apply), the check of its property is run (evidence and replay files go to a
scratch directory so that the committed evidence is not overwritten), and the change is undone (git checkout -- .).
usage: tools/seed_eval.py [--jobs N] [Cxx[/k]] ...      (default: everything under seeded/)
writes seeded/<prop>/<k>/result.json and prints one line per change.
--jobs N (N > 1): the same evaluation in N scratch git worktrees of /repo's HEAD under /tmp (VERIF_REPO / VERIF_BUILD_DIR point the
check at the worktree; /repo itself is not touched; the worktrees are removed afterwards). /repo must be clean (HEAD == working tree)."""
import json, os, subprocess, sys, tempfile, shutil, time, concurrent.futures as cf
ROOT = os.path.dirname(os.path.dirname(os.path.abspath(__file__)))
REPO = "/repo"


def sh(cmd, **kw):
    return subprocess.run(cmd, capture_output=True, text=True, **kw)


def eval_one(repo, scratch, prop, k, d, extra_env):
    meta = json.load(open(os.path.join(d, "meta.json"))) if os.path.exists(os.path.join(d, "meta.json")) else {}
    props = meta.get("check_properties") or [prop]
    a = sh(["git", "-C", repo, "apply", os.path.join(d, "patch.diff")])
    if a.returncode != 0:
        return (prop, k, "noapply", f"{prop}/{k}: patch does not apply: {a.stderr.strip()[:200]}")
    res = {}
    try:
        for p in props:
            t0 = time.time()
            r = sh([os.path.join(ROOT, "check"), p, "--tier", "quick"],
                   env=dict(os.environ, VERIF_EVIDENCE_DIR=os.path.join(scratch, "ev"), VERIF_REPLAY_DIR=os.path.join(scratch, "replay"), **extra_env))
            viol = [l for l in r.stdout.splitlines() if l.startswith("VIOLATION")]
            und = [l.strip() for l in r.stdout.splitlines() if "UNDECIDED" in l]
            res[p] = {"exit": r.returncode, "violations": [v.split("replay=")[1].split("/")[-1] for v in viol], "undecided": und[:3],
                      "seconds": round(time.time() - t0, 1)}
            # which violations rest on a function some of whose proof hints could not be placed on the changed tree
            wsk = []
            for v in viol:
                try:
                    rj = json.load(open(v.split("replay=")[1].split(" ")[0]))
                    if rj.get("proof_hints_skipped_because_their_anchor_statement_is_gone"): wsk.append(rj["obligation"])
                except Exception:
                    pass
            if wsk: res[p]["violations_in_functions_with_skipped_hints"] = wsk
    finally:
        sh(["git", "-C", repo, "checkout", "--", "."])
    caught = any(v["exit"] == 1 for v in res.values())
    json.dump({"caught": caught, "checks": res}, open(os.path.join(d, "result.json"), "w"), indent=1)
    return (prop, k, caught, ("CAUGHT " if caught else "MISSED ") + f"{prop}/{k} {meta.get('title', '')!r} " +
            " ".join(f"{p}:exit{v['exit']}:{','.join(v['violations'])[:160]}" for p, v in res.items()))


def parallel(todo, jobs):
    top = tempfile.mkdtemp(prefix="seedeval_")
    wts = []
    try:
        for i in range(jobs):
            wt = os.path.join(top, f"wt{i}")
            a = sh(["git", "-C", REPO, "worktree", "add", "--detach", wt, "HEAD"])
            if a.returncode != 0: print(a.stderr); return []
            wts.append(wt)
        def work(i):
            out = []
            for prop, k, d in todo[i::jobs]:
                sc = os.path.join(top, f"sc{i}")
                r = eval_one(wts[i], sc, prop, k, d, {"VERIF_REPO": wts[i], "VERIF_BUILD_DIR": os.path.join(top, f"build{i}")})
                print(r[3], flush=True); out.append(r)
            return out
        rows = []
        with cf.ThreadPoolExecutor(max_workers=jobs) as ex:
            for r in ex.map(work, range(jobs)): rows += r
        return rows
    finally:
        for wt in wts: sh(["git", "-C", REPO, "worktree", "remove", "--force", wt])
        sh(["git", "-C", REPO, "worktree", "prune"])
        shutil.rmtree(top, ignore_errors=True)


def main():
    sel = sys.argv[1:]
    jobs = 1
    if sel and sel[0] == "--jobs":
        jobs = int(sel[1]); sel = sel[2:]
    base = os.path.join(ROOT, "seeded")
    todo = []
    for prop in sorted(os.listdir(base)):
        pd = os.path.join(base, prop)
        if not os.path.isdir(pd): continue
        for k in sorted(os.listdir(pd)):
            d = os.path.join(pd, k)
            if not os.path.isfile(os.path.join(d, "patch.diff")): continue
            if sel and not any(s == prop or s == f"{prop}/{k}" for s in sel): continue
            todo.append((prop, k, d))
    if sh(["git", "-C", REPO, "status", "--porcelain", "--untracked-files=no"]).stdout.strip():
        print("refusing: /repo has local modifications"); return 2
    if jobs > 1:
        rows = parallel(todo, jobs)
        print(f"{sum(1 for r in rows if r[2] is True)}/{len(rows)} caught")
        return 0
    scratch = tempfile.mkdtemp(prefix="seedeval_")
    rows = []
    try:
        for prop, k, d in todo:
            meta = json.load(open(os.path.join(d, "meta.json"))) if os.path.exists(os.path.join(d, "meta.json")) else {}
            props = meta.get("check_properties") or [prop]
            a = sh(["git", "-C", REPO, "apply", os.path.join(d, "patch.diff")])
            if a.returncode != 0:
                print(f"{prop}/{k}: patch does not apply: {a.stderr.strip()[:200]}"); rows.append((prop, k, "noapply")); continue
            res = {}
            try:
                for p in props:
                    t0 = time.time()
                    r = sh([os.path.join(ROOT, "check"), p, "--tier", "quick"],
                           env=dict(os.environ, VERIF_EVIDENCE_DIR=os.path.join(scratch, "ev"), VERIF_REPLAY_DIR=os.path.join(scratch, "replay")))
                    viol = [l for l in r.stdout.splitlines() if l.startswith("VIOLATION")]
                    und = [l.strip() for l in r.stdout.splitlines() if "UNDECIDED" in l]
                    res[p] = {"exit": r.returncode, "violations": [v.split("replay=")[1].split("/")[-1] for v in viol], "undecided": und[:3],
                              "seconds": round(time.time() - t0, 1)}
            finally:
                sh(["git", "-C", REPO, "checkout", "--", "."])
            caught = any(v["exit"] == 1 for v in res.values())
            json.dump({"caught": caught, "checks": res}, open(os.path.join(d, "result.json"), "w"), indent=1)
            print(("CAUGHT " if caught else "MISSED ") + f"{prop}/{k} {meta.get('title', '')!r} " +
                  " ".join(f"{p}:exit{v['exit']}:{','.join(v['violations'])[:160]}" for p, v in res.items()))
            rows.append((prop, k, caught))
    finally:
        sh(["git", "-C", REPO, "checkout", "--", "."])
        shutil.rmtree(scratch, ignore_errors=True)
    n = sum(1 for r in rows if r[2] is True)
    print(f"{n}/{len(rows)} caught")
    return 0


if __name__ == "__main__":
    sys.exit(main())
