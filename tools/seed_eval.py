#!/usr/bin/env python3
"""run the registered checks against the seeded property-breaking changes kept under /verif/seeded/<prop>/<k>/.
Each change is applied to /repo TEMPORARILY (git apply), the check of its property is run (evidence and replay files go to a
scratch directory so that the committed evidence is not overwritten), and the change is undone (git checkout -- .).
usage: tools/seed_eval.py [Cxx[/k]] ...      (default: everything under seeded/)
writes seeded/<prop>/<k>/result.json and prints one line per change."""
import json, os, subprocess, sys, tempfile, shutil, time
ROOT = os.path.dirname(os.path.dirname(os.path.abspath(__file__)))
REPO = "/repo"


def sh(cmd, **kw):
    return subprocess.run(cmd, capture_output=True, text=True, **kw)


def main():
    sel = sys.argv[1:]
    base = os.path.join(ROOT, "seeded")
    todo = []
    for prop in sorted(os.listdir(base)):
        pd = os.path.join(base, prop)
        if not os.path.isdir(pd): continue
        for k in sorted(os.listdir(pd)):
            d = os.path.join(pd, k)
            if not os.path.isfile(os.path.join(d, "patch.diff")): continue
            if sel and not any(s == prop or s == f"{prop}/{k}" for s in sel): continue
            todo.append((prop, k, d))
    if sh(["git", "-C", REPO, "status", "--porcelain", "--untracked-files=no"]).stdout.strip():
        print("refusing: /repo has local modifications"); return 2
    scratch = tempfile.mkdtemp(prefix="seedeval_")
    rows = []
    try:
        for prop, k, d in todo:
            meta = json.load(open(os.path.join(d, "meta.json"))) if os.path.exists(os.path.join(d, "meta.json")) else {}
            props = meta.get("check_properties") or [prop]
            a = sh(["git", "-C", REPO, "apply", os.path.join(d, "patch.diff")])
            if a.returncode != 0:
                print(f"{prop}/{k}: patch does not apply: {a.stderr.strip()[:200]}"); rows.append((prop, k, "noapply")); continue
            res = {}
            try:
                for p in props:
                    t0 = time.time()
                    r = sh([os.path.join(ROOT, "check"), p, "--tier", "quick"],
                           env=dict(os.environ, VERIF_EVIDENCE_DIR=os.path.join(scratch, "ev"), VERIF_REPLAY_DIR=os.path.join(scratch, "replay")))
                    viol = [l for l in r.stdout.splitlines() if l.startswith("VIOLATION")]
                    und = [l.strip() for l in r.stdout.splitlines() if "UNDECIDED" in l]
                    res[p] = {"exit": r.returncode, "violations": [v.split("replay=")[1].split("/")[-1] for v in viol], "undecided": und[:3],
                              "seconds": round(time.time() - t0, 1)}
            finally:
                sh(["git", "-C", REPO, "checkout", "--", "."])
            caught = any(v["exit"] == 1 for v in res.values())
            json.dump({"caught": caught, "checks": res}, open(os.path.join(d, "result.json"), "w"), indent=1)
            print(("CAUGHT " if caught else "MISSED ") + f"{prop}/{k} {meta.get('title', '')!r} " +
                  " ".join(f"{p}:exit{v['exit']}:{','.join(v['violations'])[:160]}" for p, v in res.items()))
            rows.append((prop, k, caught))
    finally:
        sh(["git", "-C", REPO, "checkout", "--", "."])
        shutil.rmtree(scratch, ignore_errors=True)
    n = sum(1 for r in rows if r[2] is True)
    print(f"{n}/{len(rows)} caught")
    return 0


if __name__ == "__main__":
    sys.exit(main())
