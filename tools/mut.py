#!/usr/bin/env python3
"""sensitivity check: apply each seeded semantic edit from specs/mutants/<unit>.json to a scratch copy of /repo's
sources and run the property checks against it; each edit must make a named obligation fail (exit 1).
usage: tools/mut.py <unit> [name-substring]"""
import json, os, shutil, subprocess, sys, tempfile
ROOT = os.path.dirname(os.path.dirname(os.path.abspath(__file__)))


def main():
    unit = sys.argv[1]
    flt = sys.argv[2] if len(sys.argv) > 2 else ""
    muts = json.load(open(os.path.join(ROOT, "specs", "mutants", unit + ".json")))
    tmp = tempfile.mkdtemp(prefix="cwmut_")
    try:
        subprocess.run(["rsync", "-a", "--exclude", "target", "--exclude", ".git", "/repo/", tmp + "/"], check=True)
        res = []
        for m in muts:
            if flt and flt not in m["name"]: continue
            p = os.path.join(tmp, m["file"])
            orig = open(p).read()
            if orig.count(m["old"]) < 1:
                print(f"{m['name']}: anchor text not found"); res.append((m["name"], "anchor")); continue
            open(p, "w").write(orig.replace(m["old"], m["new"], 1))
            out = []
            for prop in m["props"]:
                r = subprocess.run([os.path.join(ROOT, "check"), prop], env=dict(os.environ, VERIF_REPO=tmp, VERIF_EVIDENCE_DIR=os.path.join(tmp, "_ev"), VERIF_REPLAY_DIR=os.path.join(tmp, "_replay"), VERIF_BUILD_DIR=os.path.join(tmp, "_build")),
                                   capture_output=True, text=True)
                viol = [l for l in r.stdout.splitlines() if l.startswith("VIOLATION")]
                out.append((prop, r.returncode, [v.split("replay=")[1].split("/")[-1] for v in viol]))
                if r.returncode == 2:
                    print(r.stdout[-600:])
            open(p, "w").write(orig)
            caught = all(rc == 1 for _, rc, _ in out)
            print(("CAUGHT " if caught else "MISSED ") + m["name"], out)
            res.append((m["name"], caught))
        n = sum(1 for _, c in res if c is True)
        print(f"{n}/{len(res)} caught")
    finally:
        shutil.rmtree(tmp, ignore_errors=True)


if __name__ == "__main__":
    main()
