#!/usr/bin/env python3
"""false-alarm test: apply each behaviour-preserving edit kept under /verif/benign/<area>/<k>/patch.diff to /repo TEMPORARILY,
verify every unit that extracts something from a touched file (./check --unit), undo. Expected: exit 0 (or 2 = undecided), never 1.
usage: tools/benign_eval.py [area[/k]] ..."""
import glob, json, os, re, subprocess, sys
ROOT = os.path.dirname(os.path.dirname(os.path.abspath(__file__)))
REPO = "/repo"


def sh(cmd, **kw): return subprocess.run(cmd, capture_output=True, text=True, **kw)


def units_of(files):
    out = []
    for sp in sorted(glob.glob(os.path.join(ROOT, "specs", "*.vs"))):
        txt = open(sp).read()
        for inc in re.findall(r"^@include (\S+)", txt, re.M):
            txt += open(os.path.join(ROOT, "specs", inc)).read()
        if any(re.search(r"^@(fn|method|struct|enum|const) " + re.escape(f) + r" ", txt, re.M) for f in files):
            out.append(os.path.basename(sp)[:-3])
    return out


def main():
    sel = sys.argv[1:]
    if sh(["git", "-C", REPO, "status", "--porcelain", "--untracked-files=no"]).stdout.strip():
        print("refusing: /repo has local modifications"); return 2
    rows = []
    for d in sorted(glob.glob(os.path.join(ROOT, "benign", "*", "*", ""))):
        area, k = d.rstrip("/").split("/")[-2:]
        if sel and not any(s == area or s == f"{area}/{k}" for s in sel): continue
        meta = json.load(open(d + "meta.json")) if os.path.exists(d + "meta.json") else {}
        a = sh(["git", "-C", REPO, "apply", d + "patch.diff"])
        if a.returncode != 0:
            print(f"{area}/{k}: patch does not apply"); continue
        try:
            files = sh(["git", "-C", REPO, "diff", "--name-only"]).stdout.split()
            res = {}
            for u in units_of(files):
                r = sh([os.path.join(ROOT, "check"), "--unit", u])
                res[u] = {"exit": r.returncode, "fails": [l[6:] for l in r.stdout.splitlines() if l.startswith("FAILS ")], "last": r.stdout.strip().splitlines()[-1][:300] if r.stdout.strip() else ""}
        finally:
            sh(["git", "-C", REPO, "checkout", "--", "."])
        worst = max([v["exit"] for v in res.values()] or [0])
        verdict = {0: "QUIET", 2: "UNDECIDED", 1: "FALSE-ALARM"}[worst if worst in (0, 1, 2) else 2] if not any(v["exit"] == 1 for v in res.values()) else "FALSE-ALARM"
        json.dump({"verdict": verdict, "units": res}, open(d + "result.json", "w"), indent=1)
        print(f"{verdict} {area}/{k} {meta.get('title', '')[:90]!r} " + " ".join(f"{u}:{v['exit']}" + (":" + ",".join(v['fails'])[:200] if v['fails'] else (":" + v['last'][:160] if v['exit'] == 2 else "")) for u, v in res.items()))
        rows.append(verdict)
    print({v: rows.count(v) for v in set(rows)})


if __name__ == "__main__":
    sys.exit(main())
