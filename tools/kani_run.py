#!/usr/bin/env python3
"""bounded stand-ins for the assumed leaves (thorough tier): Kani / CBMC harnesses in /verif/kani/ are appended, inside a
`#[cfg(kani)] mod verif_kani`, to a SCRATCH COPY of /repo (rsync to a temp dir outside /repo and /verif, removed afterwards), and
`cargo kani` runs them on the really compiled functions. Every harness is BOUNDED (bound stated in kani/harnesses.json and in the
evidence); a pass is never counted as proof. A failing harness is a real counterexample: Kani's concrete playback test is generated
and executed (`cargo kani playback`) against the scratch copy, i.e. against the real function.
usage: tools/kani_run.py [--prop Cxx] [--harness name] [--json out.json]"""
import argparse, json, os, re, shutil, subprocess, sys, tempfile, time, concurrent.futures as cf
ROOT = os.path.dirname(os.path.dirname(os.path.abspath(__file__)))
REPO = os.environ.get("VERIF_REPO", "/repo")
CACHE = os.path.join(ROOT, ".cache", "kani-target")


def load():
    return json.load(open(os.path.join(ROOT, "kani", "harnesses.json")))


def make_copy(hs):
    tmp = tempfile.mkdtemp(prefix="cwkani_")
    subprocess.run(["rsync", "-a", "--exclude", "target", "--exclude", ".git", REPO + "/", tmp + "/"], check=True)
    os.makedirs(os.path.join(tmp, ".cargo"), exist_ok=True)
    with open(os.path.join(tmp, ".cargo", "config.toml"), "a") as f:
        f.write("\n[net]\noffline = true\n")
    by_file = {}
    for h in hs:
        by_file.setdefault(h["append_to"], []).append(h)
    for rel, lst in by_file.items():
        p = os.path.join(tmp, rel)
        if not os.path.exists(p):
            for h in lst: h["_lost"] = f"{rel} not found"
            continue
        body = "".join(open(os.path.join(ROOT, "kani", h["code"])).read() + "\n" for h in lst)
        with open(p, "a") as f:
            f.write("\n#[cfg(kani)]\nmod verif_kani {\n    #![allow(unused)]\n    use super::*;\n" + body + "}\n")
    return tmp


def run_one(tmp, h, idx):
    if h.get("_lost"):
        return dict(h, status="undecided", reason=h["_lost"], seconds=0)
    env = dict(os.environ, CARGO_NET_OFFLINE="true", CARGO_TARGET_DIR=os.path.join(CACHE, h["package"]))
    t0 = time.time()
    cmd = ["cargo", "kani", "-p", h["package"], "--harness", h["name"]]
    # two checks (e.g. C11 and C12, thorough tier) may ask for harnesses of the same package at the same time: they share that
    # package's cached target directory, so they take turns
    import fcntl
    os.makedirs(CACHE, exist_ok=True)
    lock = open(os.path.join(CACHE, h["package"] + ".lock"), "w")
    fcntl.flock(lock, fcntl.LOCK_EX)
    try:
        r = subprocess.run(cmd, cwd=tmp, env=env, capture_output=True, text=True, timeout=h.get("timeout_s", 1800))
        out = r.stdout + r.stderr
    except subprocess.TimeoutExpired as e:
        return dict(h, status="undecided", reason=f"timeout after {h.get('timeout_s', 1800)} s", seconds=round(time.time() - t0, 1))
    finally:
        fcntl.flock(lock, fcntl.LOCK_UN); lock.close()
    secs = round(time.time() - t0, 1)
    if "VERIFICATION:- SUCCESSFUL" in out:
        m = re.search(r"\*\* 0 of (\d+) failed", out)
        return dict(h, status="passed", checks=int(m.group(1)) if m else None, seconds=secs)
    if "VERIFICATION:- FAILED" in out:
        failed = re.findall(r"Failed Checks: (.*)", out)
        if failed and all("unwinding assertion" in x for x in failed):
            # the unwinding bound is too small for this input space: nothing was decided (never a violation)
            return dict(h, status="undecided", reason="unwinding assertion failed: the harness bound must be raised", seconds=secs)
        # counterexample: concrete playback test, then executed against the scratch copy (= the real function)
        cex = None; replayed = None
        try:
            r2 = subprocess.run(cmd + ["-Z", "concrete-playback", "--concrete-playback=print"], cwd=tmp, env=env, capture_output=True, text=True, timeout=h.get("timeout_s", 1800))
            o2 = r2.stdout + r2.stderr
            m = re.search(r"```\n(.*?)```", o2, re.S)
            cex = m.group(1) if m else None
            if cex:
                r3 = subprocess.run(cmd + ["-Z", "concrete-playback", "--concrete-playback=inplace"], cwd=tmp, env=env, capture_output=True, text=True, timeout=h.get("timeout_s", 1800))
                tn = re.search(r"fn (kani_concrete_playback_\w+)", cex)
                if tn:
                    r4 = subprocess.run(["cargo", "kani", "playback", "-Z", "concrete-playback", "-p", h["package"], "--", tn.group(1)], cwd=tmp, env=env, capture_output=True, text=True, timeout=1800)
                    o4 = r4.stdout + r4.stderr
                    replayed = {"test": tn.group(1), "failed_on_real_code": ("FAILED" in o4 or "panicked" in o4), "tail": o4[-1500:]}
        except Exception as e:
            replayed = {"error": str(e)}
        return dict(h, status="failed", failed_checks=failed[:10], seconds=secs, counterexample_test=cex, replay=replayed, output_tail=out[-3000:])
    return dict(h, status="undecided", reason="kani did not finish: " + out[-600:], seconds=secs)


def run(prop=None, only=None, jobs=4):
    hs = [h for h in load() if (prop is None or prop in h["properties"]) and (only is None or h["name"] == only)]
    if not hs: return []
    tmp = make_copy(hs)
    try:
        # one cargo-kani per package at a time (they share that package's target dir); different packages run in parallel
        by_pkg = {}
        for h in hs: by_pkg.setdefault(h["package"], []).append(h)
        def pk(lst): return [run_one(tmp, h, i) for i, h in enumerate(lst)]
        res = []
        with cf.ThreadPoolExecutor(max_workers=jobs) as ex:
            for r in ex.map(pk, by_pkg.values()): res += r
        for r in res:
            r.pop("_lost", None)
        return res
    finally:
        shutil.rmtree(tmp, ignore_errors=True)


def main():
    ap = argparse.ArgumentParser()
    ap.add_argument("--prop"); ap.add_argument("--harness"); ap.add_argument("--json")
    a = ap.parse_args()
    res = run(a.prop, a.harness)
    for r in res:
        print(f"{r['name']}: {r['status']} in {r['seconds']} s [{r['kind']}: {r['bound']}]" + (f" -- {r.get('reason', '')}" if r["status"] == "undecided" else ""))
        if r["status"] == "failed":
            print("  failed checks:", r.get("failed_checks")); print("  replay:", json.dumps(r.get("replay"))[:600])
    if a.json: json.dump(res, open(a.json, "w"), indent=1)
    return 1 if any(r["status"] == "failed" for r in res) else (2 if any(r["status"] == "undecided" for r in res) else 0)


if __name__ == "__main__":
    sys.exit(main())
