#!/usr/bin/env python3
"""regenerates the per-seed table of DESIGN.md §12 from seeded/<prop>/<k>/{meta,result}.json (between the table header line and
the first following non-table line) and prints the totals. usage: tools/seed_table.py [--write]"""
import json, os, re, sys
ROOT = os.path.dirname(os.path.dirname(os.path.abspath(__file__)))
HEAD = "| seed | change | file | registered check on the changed tree |"


def key(k):
    m = re.match(r"r(\d+)_(\d+)$", k)
    return (int(m.group(1)), int(m.group(2))) if m else (1, int(k))


def rows():
    out = []; tot = {"caught": 0, "undecided": 0, "accepted": 0}; per_round = {}
    for prop in sorted(os.listdir(os.path.join(ROOT, "seeded"))):
        d = os.path.join(ROOT, "seeded", prop)
        for k in sorted(os.listdir(d), key=key):
            try:
                meta = json.load(open(os.path.join(d, k, "meta.json"))); res = json.load(open(os.path.join(d, k, "result.json")))
            except Exception:
                continue
            files = ", ".join(re.sub(r"^(contracts|packages)/", "", f).replace("/src/", "/") for f in meta.get("files", []))
            cells = []
            st = "accepted"
            for p, c in res["checks"].items():
                if c["exit"] == 1:
                    obl = ", ".join("`" + re.sub(r"^[a-z0-9]+_", "", v.split(".json")[0], 1) + "`" for v in c["violations"][:2])
                    cells.append(f"{p}: **caught** — {obl}"); st = "caught"
                elif c["exit"] == 2:
                    why = (c["undecided"] or ["?"])[0]
                    why = re.sub(r"^UNDECIDED \w+: ", "", why)[:110]
                    cells.append(f"{p}: undecided (exit 2) — {why}")
                    if st != "caught": st = "undecided"
                else:
                    cells.append(f"{p}: **not caught** (exit 0)")
            tot[st] += 1
            r = key(k)[0]; per_round.setdefault(r, {"caught": 0, "undecided": 0, "accepted": 0})[st] += 1
            title = meta.get("title", "").replace("|", "/")[:170]
            out.append(f"| {prop}/{k} | {title} | {files} | {'; '.join(cells)} |")
    return out, tot, per_round


def main():
    out, tot, per_round = rows()
    print("total", sum(tot.values()), tot); [print("round", r, v) for r, v in sorted(per_round.items())]
    if "--write" in sys.argv:
        p = os.path.join(ROOT, "DESIGN.md"); L = open(p).read().split("\n")
        i = L.index(HEAD); j = i + 2
        while j < len(L) and L[j].startswith("|"): j += 1
        L[i + 2:j] = out
        open(p, "w").write("\n".join(L))
        print("table rewritten:", len(out), "rows")


if __name__ == "__main__":
    main()
