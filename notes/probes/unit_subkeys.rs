include!("shim_core.rs");
macro_rules! ensure {
    ($cond:expr, $e:expr) => {
        if !($cond) {
            return Err(core::convert::From::from($e));
        }
    };
}
verus! {
pub trait JsonSchema {}
pub struct Empty {}
impl JsonSchema for Empty {}
pub struct Coin { pub denom: String, pub amount: Uint128 }
impl Clone for Coin { #[verifier::external_body] fn clone(&self) -> (r: Self) ensures r == *self { unimplemented!() } }
pub enum BankMsg { Send { to_address: String, amount: Vec<Coin> }, Burn { amount: Vec<Coin> } }
pub enum StakingMsg { Delegate { validator: String, amount: Coin }, Undelegate { validator: String, amount: Coin }, Redelegate { src_validator: String, dst_validator: String, amount: Coin }, Other }
pub enum DistributionMsg { SetWithdrawAddress { address: String }, WithdrawDelegatorReward { validator: String }, Other }
pub enum CosmosMsg<T> { Bank(BankMsg), Custom(T), Staking(StakingMsg), Distribution(DistributionMsg), Other }
#[derive(Clone, Copy)]
pub struct Permissions { pub delegate: bool, pub redelegate: bool, pub undelegate: bool, pub withdraw: bool }
pub enum Expiration { AtHeight(u64), Never {} }
impl Expiration {
    pub open spec fn expired(self, b: &BlockInfo) -> bool { match self { Expiration::AtHeight(h) => b.height >= h, Expiration::Never{} => false } }
    pub fn is_expired(&self, b: &BlockInfo) -> (r: bool) ensures r == self.expired(b) { match self { Expiration::AtHeight(h) => b.height >= *h, Expiration::Never{} => false } }
}
pub struct NativeBalance(pub Vec<Coin>);
impl NativeBalance {
    pub uninterp spec fn sub_spec(self, c: Seq<Coin>) -> Option<NativeBalance>;
    #[verifier::external_body]
    pub fn sub(self, amount: Vec<Coin>) -> (r: StdResult<NativeBalance>)
        ensures match r { Ok(b) => self.sub_spec(amount@) == Some(b), Err(_) => self.sub_spec(amount@) is None }
    { unimplemented!() }
}
pub struct Allowance { pub balance: NativeBalance, pub expires: Expiration }
pub struct AdminList { pub admins: Vec<Addr>, pub mutable: bool }
impl AdminList {
    pub uninterp spec fn is_admin_spec(&self, a: Seq<char>) -> bool;
    #[verifier::external_body]
    pub fn is_admin(&self, addr: &str) -> (r: bool) ensures r == self.is_admin_spec(addr@) { unimplemented!() }
}
impl AsRef<str> for Addr { #[verifier::external_body] fn as_ref(&self) -> (r: &str) ensures r@ == self@ { unimplemented!() } }

pub enum CErr { Std(StdError), NotAllowed {}, NoAllowance {}, MessageTypeRejected {}, DelegatePerm {}, UnDelegatePerm {}, ReDelegatePerm {}, UnsupportedMessage {}, WithdrawAddrPerm {}, WithdrawPerm {} }
impl FromSpecImpl<StdError> for CErr { open spec fn obeys_from_spec() -> bool { true } open spec fn from_spec(e: StdError) -> Self { CErr::Std(e) } }
impl From<StdError> for CErr { fn from(e: StdError) -> (r: CErr) { CErr::Std(e) } }

impl SerT for Allowance { uninterp spec fn ser(self) -> Seq<u8>; uninterp spec fn de(b: Seq<u8>) -> Option<Self>; }
impl SerT for Permissions { uninterp spec fn ser(self) -> Seq<u8>; uninterp spec fn de(b: Seq<u8>) -> Option<Self>; }
impl SerT for AdminList { uninterp spec fn ser(self) -> Seq<u8>; uninterp spec fn de(b: Seq<u8>) -> Option<Self>; }
impl<K: KeyT, V: SerT> CwMap<K, V> {
    #[verifier::external_body]
    pub fn may_load(&self, store: &dyn Storage, k: K) -> (r: StdResult<Option<V>>)
        ensures r is Ok ==> r->Ok_0 == self.get(store.view(), k)
    { unimplemented!() }
}
pub struct CwItem<V> { pub ns: &'static str, pub _v: PhantomData<V> }
impl<V: SerT> CwItem<V> {
    pub const fn new(ns: &'static str) -> (r: Self) ensures r.ns@ == ns@ { CwItem{ ns, _v: PhantomData } }
    #[verifier::external_body]
    pub fn load(&self, store: &dyn Storage) -> (r: StdResult<V>) { unimplemented!() }
}
pub exec const PERMISSIONS: CwMap<&'static Addr, Permissions> ensures PERMISSIONS.ns@ == "permissions"@ { CwMap::new("permissions") }
pub exec const ALLOWANCES: CwMap<&'static Addr, Allowance> ensures ALLOWANCES.ns@ == "allowances"@ { CwMap::new("allowances") }
pub exec const ADMIN_LIST: CwItem<AdminList> ensures ADMIN_LIST.ns@ == "admin_list"@ { CwItem::new("admin_list") }

pub struct SubMsg<T> { pub msg: CosmosMsg<T> }
pub struct Resp<T> { pub messages: Vec<SubMsg<T>> }
impl<T> Resp<T> {
    pub fn new() -> (r: Self) ensures r.messages@ == Seq::<SubMsg<T>>::empty() { Resp { messages: Vec::new() } }
    #[verifier::external_body]
    pub fn add_messages(self, msgs: Vec<CosmosMsg<T>>) -> (r: Self)
        ensures r.messages@.map_values(|m: SubMsg<T>| m.msg) == self.messages@.map_values(|m: SubMsg<T>| m.msg) + msgs@
    { unimplemented!() }
    #[verifier::external_body]
    pub fn add_attribute(self, key: impl Into<String>, value: impl Into<String>) -> (r: Self) ensures r == self { self }
}

pub fn check_staking_permissions(
    staking_msg: &StakingMsg,
    permissions: Permissions,
) -> (r: Result<(), CErr>)
    ensures r is Ok <==> (match staking_msg { StakingMsg::Delegate{..} => permissions.delegate, StakingMsg::Undelegate{..} => permissions.undelegate, StakingMsg::Redelegate{..} => permissions.redelegate, _ => false })
{
    match staking_msg {
        StakingMsg::Delegate { .. } => {
            ensure!(permissions.delegate, CErr::DelegatePerm {});
        }
        StakingMsg::Undelegate { .. } => {
            ensure!(permissions.undelegate, CErr::UnDelegatePerm {});
        }
        StakingMsg::Redelegate { .. } => {
            ensure!(permissions.redelegate, CErr::ReDelegatePerm {});
        }
        _ => return Err(CErr::UnsupportedMessage {}),
    }
    Ok(())
}

pub fn execute_execute<T>(
    deps: DepsMut,
    env: Env,
    info: MessageInfo,
    msgs: Vec<CosmosMsg<T>>,
) -> (r: Result<Resp<T>, CErr>)
where
    T: Clone + core::fmt::Debug + PartialEq + JsonSchema,
    ensures r is Ok ==> r->Ok_0.messages@.map_values(|m: SubMsg<T>| m.msg) == msgs@
{
    let cfg = ADMIN_LIST.load(deps.storage)?;

    // Not an admin - need to check for permissions
    if !cfg.is_admin(info.sender.as_ref()) {
        for msg in it: &msgs {
            match msg {
                CosmosMsg::Staking(staking_msg) => {
                    let perm = PERMISSIONS.may_load(deps.storage, &info.sender)?;
                    let perm = perm.ok_or(CErr::NotAllowed {})?;
                    check_staking_permissions(staking_msg, perm)?;
                }
                CosmosMsg::Bank(BankMsg::Send {
                    to_address: _,
                    amount,
                }) => {
                    ALLOWANCES.update::<_, CErr>(deps.storage, &info.sender, |allow| {
                        let mut allowance = allow.ok_or(CErr::NoAllowance {})?;
                        ensure!(
                            !allowance.expires.is_expired(&env.block),
                            CErr::NoAllowance {}
                        );

                        // Decrease allowance
                        allowance.balance = allowance.balance.sub(amount.clone())?;
                        Ok(allowance)
                    })?;
                }
                _ => {
                    return Err(CErr::MessageTypeRejected {});
                }
            }
        }
    }
    // Relay messages
    let res = Resp::new()
        .add_messages(msgs)
        .add_attribute("action", "execute")
        .add_attribute("owner", info.sender);
    Ok(res)
}
} // verus!
fn main() {}
