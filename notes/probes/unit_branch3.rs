include!("shim_core.rs");
verus! {
impl<'a> DepsMut<'a> {
    #[verifier::external_body]
    pub fn branch(&mut self) -> (r: DepsMut<'_>)
        ensures r.storage.view() == old(self).storage.view(),
                final(self).storage.view() == final(r.storage).view(),
                final(final(self).storage).view() == final(old(self).storage).view(),
                final(self).api == old(self).api,
    { DepsMut { storage: self.storage, api: self.api } }
}
impl<K: KeyT, V: SerT> CwMap<K, V> {
    #[verifier::external_body]
    pub fn save(&self, store: &mut dyn Storage, k: K, data: &V) -> (r: StdResult<()>)
        ensures r is Ok ==> final(store).view() == old(store).view().insert(self.rawkey(k), data.ser()),
                r is Err ==> final(store).view() == old(store).view(),
    { unimplemented!() }
}
pub exec const BALANCES: CwMap<&'static Addr, Uint128> ensures BALANCES.ns@ == "balance"@ { CwMap::new("balance") }

fn inner(deps: DepsMut, a: &Addr, v: Uint128) -> (r: StdResult<()>)
    ensures r is Ok ==> final(deps.storage).view() == old(deps.storage).view().insert(path("balance"@, addr_kb(a@)), v.ser())
{
    BALANCES.save(deps.storage, a, &v)
}
fn outer(mut deps: DepsMut, a: &Addr, b: &Addr, v: Uint128) -> (r: StdResult<()>)
    ensures r is Ok ==> final(deps.storage).view() == old(deps.storage).view().insert(path("balance"@, addr_kb(a@)), v.ser()).insert(path("balance"@, addr_kb(b@)), v.ser())
{
    let ghost s0 = deps.storage.view();
    inner(deps.branch(), a, v)?;
    assert(deps.storage.view() == s0.insert(path("balance"@, addr_kb(a@)), v.ser()));
    BALANCES.save(deps.storage, b, &v)?;
    Ok(())
}
} // verus!
fn main() {}
