include!("shim_core.rs");
verus! {
pub exec const BALANCES: CwMap<&'static Addr, Uint128> ensures BALANCES.ns@ == "balance"@ { CwMap::new("balance") }

pub open spec fn bal(s: Raw, a: Seq<char>) -> nat {
    let k = path("balance"@, addr_kb(a));
    if s.contains_key(k) { match u128_de(s[k]) { Some(x) => x as nat, None => 0 } } else { 0 }
}

pub fn execute_transfer(
    deps: DepsMut,
    _env: Env,
    info: MessageInfo,
    recipient: String,
    amount: Uint128,
) -> (r: Result<Response, ContractError>)
    requires old(deps.storage).view().dom().finite(),
    ensures
        r is Ok ==> sum_ns(final(deps.storage).view(), "balance"@) == sum_ns(old(deps.storage).view(), "balance"@),
        r is Ok ==> bal(old(deps.storage).view(), info.sender@) >= amount@,
        r is Ok ==> (recipient@ != info.sender@ ==> bal(final(deps.storage).view(), info.sender@) == bal(old(deps.storage).view(), info.sender@) - amount@ && bal(final(deps.storage).view(), recipient@) == bal(old(deps.storage).view(), recipient@) + amount@),
        r is Ok ==> (recipient@ == info.sender@ ==> bal(final(deps.storage).view(), info.sender@) == bal(old(deps.storage).view(), info.sender@)),
        r is Ok ==> final(deps.storage).view() == old(deps.storage).view().insert(path("balance"@, addr_kb(info.sender@)), u128_ser((bal(old(deps.storage).view(), info.sender@) - amount@) as u128)).insert(path("balance"@, addr_kb(recipient@)), u128_ser(bal(final(deps.storage).view(), recipient@) as u128)),

{
    broadcast use ax_path, ax_addr_kb, ax_u128_ser, lemma_sum_insert;
    let rcpt_addr = deps.api.addr_validate(&recipient)?;

    BALANCES.update(
        deps.storage,
        &info.sender,
        |balance: Option<Uint128>| -> (res: StdResult<Uint128>)
            ensures res is Ok ==> balance.unwrap_or(Uint128(0)).0 >= amount.0 && res->Ok_0.0 == balance.unwrap_or(Uint128(0)).0 - amount.0
        {
            Ok(balance.unwrap_or_default().checked_sub(amount)?)
        },
    )?;
    let ghost mid = deps.storage.view();
    BALANCES.update(
        deps.storage,
        &rcpt_addr,
        |balance: Option<Uint128>| -> (res: StdResult<Uint128>)
            ensures res is Ok ==> balance.unwrap_or(Uint128(0)).0 + amount.0 <= u128::MAX && res->Ok_0.0 == balance.unwrap_or(Uint128(0)).0 + amount.0
        { Ok(balance.unwrap_or_default() + amount + amount) },
    )?;

    let res = Response::new()
        .add_attribute("action", "transfer")
        .add_attribute("from", info.sender)
        .add_attribute("to", recipient)
        .add_attribute("amount", amount);
    Ok(res)
}
} // verus!
fn main() {}
