use vstd::prelude::*;
verus! {
// model of cw-storage-plus SnapshotMap (Strategy::EveryBlock) for ONE key
pub struct Snap { pub cur: Option<u64>, pub log: Map<u64, Option<u64>> }

pub open spec fn is_first_ge(log: Map<u64, Option<u64>>, h: u64, x: u64) -> bool {
    log.contains_key(x) && x >= h && forall|y: u64| log.contains_key(y) && y >= h ==> x <= y
}
pub open spec fn has_ge(log: Map<u64, Option<u64>>, h: u64) -> bool { exists|x: u64| log.contains_key(x) && x >= h }
// may_load_at_height
pub open spec fn at(s: Snap, h: u64) -> Option<u64> {
    if exists|x: u64| is_first_ge(s.log, h, x) { s.log[choose|x: u64| is_first_ge(s.log, h, x)] } else { s.cur }
}
// save / remove at height h (v = None for remove)
pub open spec fn write(s: Snap, h: u64, v: Option<u64>) -> Snap {
    Snap { cur: v, log: if s.log.contains_key(h) { s.log } else { s.log.insert(h, s.cur) } }
}
// ground truth: history of writes (height, value) in call order; value at the START of block h
pub open spec fn truth(w: Seq<(u64, Option<u64>)>, h: u64) -> Option<u64>
    decreases w.len()
{
    if w.len() == 0 { None } else if w.last().0 < h { w.last().1 } else { truth(w.drop_last(), h) }
}
pub open spec fn nondecreasing(w: Seq<(u64, Option<u64>)>) -> bool { forall|i: int, j: int| 0 <= i <= j < w.len() ==> w[i].0 <= w[j].0 }
pub open spec fn replay(w: Seq<(u64, Option<u64>)>) -> Snap
    decreases w.len()
{
    if w.len() == 0 { Snap { cur: None, log: Map::empty() } } else { write(replay(w.drop_last()), w.last().0, w.last().1) }
}

proof fn lemma_first_ge_exists(log: Map<u64, Option<u64>>, h: u64, x: u64)
    requires log.contains_key(x), x >= h
    ensures exists|m: u64| is_first_ge(log, h, m)
    decreases x - h
{
    if forall|y: u64| log.contains_key(y) && y >= h ==> x <= y { assert(is_first_ge(log, h, x)); }
    else { let y = choose|y: u64| log.contains_key(y) && y >= h && !(x <= y); lemma_first_ge_exists(log, h, y); }
}

pub proof fn lemma_snapshot(w: Seq<(u64, Option<u64>)>, h: u64)
    requires nondecreasing(w)
    ensures
        at(replay(w), h) == truth(w, h),
        forall|x: u64| replay(w).log.contains_key(x) ==> w.len() > 0 && x <= w.last().0,
        truth(w, u64::MAX) == replay(w).cur || (w.len() > 0 && w.last().0 == u64::MAX),
        w.len() > 0 ==> (forall|hh: u64| hh > w.last().0 ==> truth(w, hh) == replay(w).cur),
        w.len() == 0 ==> replay(w).cur is None,
    decreases w.len()
{
    if w.len() == 0 {
        assert(!exists|x: u64| is_first_ge(replay(w).log, h, x));
    } else {
        let p = w.drop_last();
        let (hn, v) = w.last();
        assert(nondecreasing(p));
        lemma_snapshot(p, h);
        let s0 = replay(p); let s1 = replay(w);
        assert(s1 == write(s0, hn, v));
        assert forall|x: u64| s1.log.contains_key(x) implies x <= hn by {
            if s0.log.contains_key(x) { assert(p.len() > 0 && x <= p.last().0); assert(p.last() == w[w.len() - 2]); }
        }
        if h > hn {
            // no entry >= h
            assert(!exists|x: u64| is_first_ge(s1.log, h, x));
        } else {
            // h <= hn
            if exists|x: u64| is_first_ge(s0.log, h, x) {
                let m = choose|x: u64| is_first_ge(s0.log, h, x);
                // m <= last height of p <= hn, so inserting hn (if new) keeps m first
                assert(p.len() > 0 && m <= p.last().0);
                assert(p.last() == w[w.len() - 2]);
                assert(is_first_ge(s1.log, h, m));
                let m1 = choose|x: u64| is_first_ge(s1.log, h, x);
                assert(m1 == m);
                assert(s1.log[m] == s0.log[m]);
            } else {
                // before: at = cur. no entry >= h in s0.log
                if s0.log.contains_key(hn) { lemma_first_ge_exists(s0.log, h, hn); assert(false); }
                assert forall|y: u64| s0.log.contains_key(y) implies y < h by {
                    if y >= h { lemma_first_ge_exists(s0.log, h, y); }
                }
                assert(is_first_ge(s1.log, h, hn));
                let m1 = choose|x: u64| is_first_ge(s1.log, h, x);
                assert(m1 == hn);
                // truth(p,h) == s0.cur must hold here
                if p.len() > 0 {
                    if h > p.last().0 { } else {
                        // h <= last height of p, and no log entry >= h: impossible since every write logs its height
                        lemma_logged(p);
                        assert(s0.log.contains_key(p.last().0));
                        assert(false);
                    }
                }
            }
        }
    }
}
proof fn lemma_logged(w: Seq<(u64, Option<u64>)>)
    requires w.len() > 0
    ensures replay(w).log.contains_key(w.last().0)
{ }
} // verus!
fn main() {}
