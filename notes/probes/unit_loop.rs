include!("shim_core.rs");
verus! {
pub struct Cw20Coin { pub address: String, pub amount: Uint128 }
impl<K: KeyT, V: SerT> CwMap<K, V> {
    #[verifier::external_body]
    pub fn save(&self, store: &mut dyn Storage, k: K, data: &V) -> (r: StdResult<()>)
        ensures r is Ok ==> final(store).view() == old(store).view().insert(self.rawkey(k), data.ser()),
                r is Err ==> final(store).view() == old(store).view(),
    { unimplemented!() }
}
pub exec const BALANCES: CwMap<&'static Addr, Uint128> ensures BALANCES.ns@ == "balance"@ { CwMap::new("balance") }

pub fn create_accounts(
    deps: &mut DepsMut,
    accounts: &[Cw20Coin],
) -> (r: Result<Uint128, ContractError>)
    requires old(deps).storage.view().dom().finite(), sum_ns(old(deps).storage.view(), "balance"@) == 0,
{
    let mut total_supply = Uint128(0);
    for row in it: accounts
        invariant deps.storage.view().dom().finite(),
    {
        let address = deps.api.addr_validate(&row.address)?;
        BALANCES.save(deps.storage, &address, &row.amount)?;
        total_supply = total_supply + row.amount;
    }

    Ok(total_supply)
}
} // verus!
fn main() {}
