use vstd::prelude::*;
verus! {
// abstract cw20 minter state
pub struct St { pub supply: nat, pub minter: Option<int>, pub cap: Option<nat> }
pub open spec fn inv(s: St) -> bool { s.minter is Some && s.cap is Some ==> s.supply <= s.cap->Some_0 }
pub open spec fn step_mint(a: St, b: St, sender: int, amt: nat) -> bool {
    a.minter == Some(sender) && b.supply == a.supply + amt && b.minter == a.minter && b.cap == a.cap && (a.cap is Some ==> b.supply <= a.cap->Some_0)
}
pub open spec fn step_burn(a: St, b: St, amt: nat) -> bool { a.supply >= amt && b.supply == a.supply - amt && b.minter == a.minter && b.cap == a.cap }
pub open spec fn step_update_minter(a: St, b: St, sender: int, new: Option<int>) -> bool {
    a.minter == Some(sender) && b.supply == a.supply && b.minter == new && (new is Some ==> b.cap == a.cap)
}
pub open spec fn step(a: St, b: St) -> bool {
    ||| a == b
    ||| exists|s: int, amt: nat| step_mint(a, b, s, amt)
    ||| exists|amt: nat| step_burn(a, b, amt)
    ||| exists|s: int, n: Option<int>| step_update_minter(a, b, s, n)
}
pub open spec fn step_at(t: Seq<St>, i: int) -> bool { step(t[i], t[i+1]) }
pub open spec fn trace(t: Seq<St>) -> bool { t.len() > 0 && inv(t[0]) && forall|i: int| 0 <= i < t.len() - 1 ==> #[trigger] step_at(t, i) }

pub proof fn lemma_history(t: Seq<St>, i: int)
    requires trace(t), 0 <= i < t.len()
    ensures inv(t[i]),
        // renounced minter is absorbing
        forall|j: int| 0 <= j <= i && t[j].minter is None ==> t[i].minter is None,
        // cap fixed while a minter exists
        t[i].minter is Some ==> (t[0].minter is Some && t[i].cap == t[0].cap),
    decreases i
{
    if i > 0 {
        lemma_history(t, i - 1);
        assert(step_at(t, i - 1));
    }
}
} // verus!
fn main() {}
