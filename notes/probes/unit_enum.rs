include!("shim_core.rs");
verus! {
pub enum Order { Ascending, Descending }
pub enum Bound<K> { Inclusive(K), Exclusive(K), InclusiveRaw(Vec<u8>), ExclusiveRaw(Vec<u8>) }
pub struct Deps<'a> { pub storage: &'a dyn Storage, pub api: &'a dyn Api }
pub struct Expiration { pub h: u64 }
pub struct AllowanceResponse { pub allowance: Uint128, pub expires: Expiration }
pub struct AllowanceInfo { pub spender: String, pub allowance: Uint128, pub expires: Expiration }
pub struct AllAllowancesResponse { pub allowances: Vec<AllowanceInfo> }
impl SerT for AllowanceResponse { uninterp spec fn ser(self) -> Seq<u8>; uninterp spec fn de(b: Seq<u8>) -> Option<Self>; }

pub struct CwIter<T> { pub items: Vec<T> }
pub trait FromCwIter<T>: Sized {
    spec fn built_from(self, s: Seq<T>) -> bool;
    fn build(v: Vec<T>) -> (r: Self) ensures r.built_from(v@);
}
impl<T> FromCwIter<StdResult<T>> for StdResult<Vec<T>> {
    open spec fn built_from(self, s: Seq<StdResult<T>>) -> bool {
        match self {
            Ok(v) => v@.len() == s.len() && forall|i:int| 0<=i<s.len() ==> s[i] == Ok::<T,StdError>(v@[i]),
            Err(_) => exists|i:int| 0<=i<s.len() && s[i] is Err,
        }
    }
    #[verifier::external_body]
    fn build(v: Vec<StdResult<T>>) -> (r: Self) { unimplemented!() }
}
impl<T> CwIter<T> {
    #[verifier::external_body]
    pub fn take(self, n: usize) -> (r: CwIter<T>)
        ensures r.items@ == self.items@.take(if n as int <= self.items@.len() { n as int } else { self.items@.len() as int })
    { unimplemented!() }
    #[verifier::external_body]
    pub fn map<U, F: Fn(T) -> U>(self, f: F) -> (r: CwIter<U>)
        requires forall|i:int| 0<=i<self.items@.len() ==> f.requires((self.items@[i],))
        ensures r.items@.len() == self.items@.len(), forall|i:int| 0<=i<self.items@.len() ==> f.ensures((self.items@[i],), r.items@[i])
    { unimplemented!() }
    pub fn collect<B: FromCwIter<T>>(self) -> (r: B) ensures r.built_from(self.items@) { B::build(self.items) }
}
pub struct Prefix<K, V> { pub ns: &'static str, pub pre: Ghost<Seq<u8>>, pub _k: PhantomData<K>, pub _v: PhantomData<V> }
// ordered listing of a prefix: uninterpreted but fixed function of (raw storage, ns, prefix)
pub uninterp spec fn listing<V>(s: Raw, ns: Seq<char>, pre: Seq<u8>) -> Seq<(Seq<u8>, V)>;
pub uninterp spec fn after<V>(l: Seq<(Seq<u8>, V)>, start: Option<Seq<u8>>) -> Seq<(Seq<u8>, V)>;
impl<V: SerT> Prefix<Addr, V> {
    #[verifier::external_body]
    pub fn range(&self, store: &dyn Storage, min: Option<Bound<&Addr>>, max: Option<Bound<&Addr>>, order: Order) -> (r: CwIter<StdResult<(Addr, V)>>)
        requires max is None, order is Ascending, min is Some ==> min->Some_0 is ExclusiveRaw
        ensures ({
            let l = after(listing::<V>(store.view(), self.ns@, self.pre@), match min { Some(Bound::ExclusiveRaw(b)) => Some(b@), _ => None });
            r.items@.len() == l.len() && forall|i:int| 0<=i<l.len() ==> (#[trigger] r.items@[i]) is Ok && addr_kb(r.items@[i]->Ok_0.0@) == l[i].0 && r.items@[i]->Ok_0.1 == l[i].1
        })
    { unimplemented!() }
}
impl<V: SerT> CwMap<(&'static Addr, &'static Addr), V> {
    #[verifier::external_body]
    pub fn prefix(&self, p: &Addr) -> (r: Prefix<Addr, V>) ensures r.ns@ == self.ns@, r.pre@ == addr_kb(p@) { unimplemented!() }
}
impl<'a> KeyT for (&'a Addr, &'a Addr) { uninterp spec fn kb(self) -> Seq<u8>; }
pub exec const ALLOWANCES: CwMap<(&'static Addr, &'static Addr), AllowanceResponse> ensures ALLOWANCES.ns@ == "allowance"@ { CwMap::new("allowance") }

pub assume_specification [ String::into_bytes ] (s: String) -> (r: Vec<u8>);

const MAX_LIMIT: u32 = 30;
const DEFAULT_LIMIT: u32 = 10;

pub fn query_owner_allowances(
    deps: Deps,
    owner: String,
    start_after: Option<String>,
    limit: Option<u32>,
) -> (r: StdResult<AllAllowancesResponse>)
    ensures r is Ok ==> r->Ok_0.allowances@.len() <= 30 && (limit is Some ==> r->Ok_0.allowances@.len() <= limit->Some_0) && (limit is None ==> r->Ok_0.allowances@.len() <= 10)
{
    let owner_addr = deps.api.addr_validate(&owner)?;
    let limit = limit.unwrap_or(DEFAULT_LIMIT).min(MAX_LIMIT) as usize;
    let start = start_after.map(|s| Bound::ExclusiveRaw(s.into_bytes()));

    let allowances = ALLOWANCES
        .prefix(&owner_addr)
        .range(deps.storage, start, None, Order::Ascending)
        .take(limit)
        .map(|item| {
            item.map(|__p| { let (addr, allow) = __p; AllowanceInfo {
                spender: addr.into(),
                allowance: allow.allowance,
                expires: allow.expires,
            }})
        })
        .collect::<StdResult<_>>()?;
    Ok(AllAllowancesResponse { allowances })
}
} // verus!
fn main() {}
