include!("shim_core.rs");
verus! {
#[derive(Clone, Copy)]
pub struct Uint64(pub u64);
impl Uint64 {
    pub fn checked_add(self, o: Uint64) -> (r: StdResult<Uint64>) ensures self.0 + o.0 <= u64::MAX ==> r is Ok && r->Ok_0.0 == self.0 + o.0, self.0 + o.0 > u64::MAX ==> r is Err
    { if self.0 <= u64::MAX - o.0 { Ok(Uint64(self.0 + o.0)) } else { Err(StdError{kind:2}) } }
    pub fn checked_sub(self, o: Uint64) -> (r: StdResult<Uint64>) ensures self.0 >= o.0 ==> r is Ok && r->Ok_0.0 == self.0 - o.0, self.0 < o.0 ==> r is Err
    { if self.0 >= o.0 { Ok(Uint64(self.0 - o.0)) } else { Err(StdError{kind:1}) } }
    pub fn u64(&self) -> (r: u64) ensures r == self.0 { self.0 }
}
impl From<u64> for Uint64 { fn from(v: u64) -> (r: Uint64) ensures r.0 == v { Uint64(v) } }
pub struct Member { pub addr: String, pub weight: u64 }
pub struct MemberDiff { pub key: String, pub old: Option<u64>, pub new: Option<u64> }
impl MemberDiff {
    #[verifier::external_body]
    pub fn new<T: Into<String>>(addr: T, old_weight: Option<u64>, new_weight: Option<u64>) -> (r: Self) ensures r.old == old_weight, r.new == new_weight { unimplemented!() }
}
pub struct MemberChangedHookMsg { pub diffs: Vec<MemberDiff> }
pub enum CErr { Std(StdError), Unauthorized {} }
impl FromSpecImpl<StdError> for CErr { open spec fn obeys_from_spec() -> bool { true } open spec fn from_spec(e: StdError) -> Self { CErr::Std(e) } }
impl From<StdError> for CErr { fn from(e: StdError) -> (r: CErr) { CErr::Std(e) } }

// abstract snapshot map over u64 weights keyed by address; model: current + changelog (only `current` used here)
pub struct SnapMap { pub ns: &'static str }
pub uninterp spec fn cur(s: Raw, a: Seq<char>) -> Option<u64>;
pub uninterp spec fn wsum(s: Raw) -> nat;   // Σ current weights
impl SnapMap {
    #[verifier::external_body]
    pub fn may_load(&self, store: &dyn Storage, k: &Addr) -> (r: StdResult<Option<u64>>) ensures r is Ok ==> r->Ok_0 == cur(store.view(), k@) { unimplemented!() }
    #[verifier::external_body]
    pub fn save(&self, store: &mut dyn Storage, k: &Addr, data: &u64, height: u64) -> (r: StdResult<()>)
        ensures r is Ok ==> cur(final(store).view(), k@) == Some(*data)
            && (forall|a: Seq<char>| a != k@ ==> cur(final(store).view(), a) == cur(old(store).view(), a))
            && wsum(final(store).view()) + (match cur(old(store).view(), k@) { Some(w) => w as nat, None => 0 }) == wsum(old(store).view()) + *data
    { unimplemented!() }
}
pub exec const MEMBERS: SnapMap ensures true { SnapMap { ns: "members" } }

pub fn update_members_part(
    deps: DepsMut,
    height: u64,
    to_add: Vec<Member>,
    total0: u64,
) -> (r: Result<u64, CErr>)
    requires total0 as nat == wsum(old(deps.storage).view())
    ensures r is Ok ==> r->Ok_0 as nat == wsum(final(deps.storage).view())
{
    let mut total = Uint64::from(total0);
    let mut diffs: Vec<MemberDiff> = vec![];

    // add all new members and update total
    for add in it: to_add.into_iter()
        invariant total.0 as nat == wsum(deps.storage.view())
    {
        let add_addr = deps.api.addr_validate(&add.addr)?;
        /* E9: SnapshotMap::update inlined */
        let old = MEMBERS.may_load(deps.storage, &add_addr)?;
        total = total.checked_sub(Uint64::from(old.unwrap_or_default()))?;
        total = total.checked_add(Uint64::from(add.weight))?;
        diffs.push(MemberDiff::new(add.addr, old, Some(add.weight)));
        let __out = add.weight;
        MEMBERS.save(deps.storage, &add_addr, &__out, height)?;
    }
    Ok(total.u64())
}
} // verus!
fn main() {}
