include!("shim_core.rs");
verus! {
pub struct Binary { pub b: Vec<u8> }
pub enum WasmMsg { Execute { contract_addr: String, msg: Binary, funds: Vec<u64> } }
pub enum CosmosMsg { Wasm(WasmMsg), Other }
impl From<WasmMsg> for CosmosMsg { fn from(w: WasmMsg) -> (r: CosmosMsg) { CosmosMsg::Wasm(w) } }
impl FromSpecImpl<WasmMsg> for CosmosMsg { open spec fn obeys_from_spec() -> bool { true } open spec fn from_spec(w: WasmMsg) -> Self { CosmosMsg::Wasm(w) } }
pub struct SubMsg { pub msg: CosmosMsg, pub id: u64 }
impl SubMsg { pub fn new(msg: impl Into<CosmosMsg>) -> (r: SubMsg) { SubMsg { msg: msg.into(), id: 0 } } }
pub struct MemberDiff { pub key: String, pub old: Option<u64>, pub new: Option<u64> }
pub struct MemberChangedHookMsg { pub diffs: Vec<MemberDiff> }
impl Clone for MemberChangedHookMsg { #[verifier::external_body] fn clone(&self) -> (r: Self) ensures r == *self { unimplemented!() } }
pub uninterp spec fn ser_hook(m: MemberChangedHookMsg) -> Seq<u8>;
impl MemberChangedHookMsg {
    #[verifier::external_body]
    pub fn into_json_binary(self) -> (r: StdResult<Binary>) ensures r is Ok ==> r->Ok_0.b@ == ser_hook(self) { unimplemented!() }
    /// creates a cosmos_msg sending this struct to the named contract
    pub fn into_cosmos_msg<T: Into<String>>(self, contract_addr: T) -> (r: StdResult<CosmosMsg>)
        ensures r is Ok ==> r->Ok_0 is Wasm
    {
        let msg = self.into_json_binary()?;
        let execute = WasmMsg::Execute {
            contract_addr: contract_addr.into(),
            msg,
            funds: vec![],
        };
        Ok(execute.into())
    }
}
pub struct Hooks { pub ns: &'static str }
pub uninterp spec fn hooks_of(s: Raw) -> Seq<Addr>;
impl Hooks {
    #[verifier::external_body]
    pub fn prepare_hooks<F: Fn(Addr) -> StdResult<SubMsg>>(&self, storage: &dyn Storage, prep: F) -> (r: StdResult<Vec<SubMsg>>)
        requires forall|a: Addr| prep.requires((a,))
        ensures r is Ok ==> r->Ok_0@.len() == hooks_of(storage.view()).len()
            && forall|i: int| 0 <= i < r->Ok_0@.len() ==> prep.ensures((hooks_of(storage.view())[i],), Ok(#[trigger] r->Ok_0@[i]))
    { unimplemented!() }
}
pub exec const HOOKS: Hooks ensures true { Hooks { ns: "cw4-hooks" } }

fn notify(deps: DepsMut, diff: MemberChangedHookMsg) -> (r: StdResult<Vec<SubMsg>>)
    ensures r is Ok ==> r->Ok_0@.len() == hooks_of(old(deps.storage).view()).len()
{
    let messages = HOOKS.prepare_hooks(deps.storage, |h| {
        diff.clone().into_cosmos_msg(h).map(SubMsg::new)
    })?;
    Ok(messages)
}
} // verus!
fn main() {}
