use vstd::prelude::*;
verus! {
pub type Raw = Map<Seq<u8>, Seq<u8>>;
pub open spec fn sum_w(s: Raw, w: spec_fn(Seq<u8>, Seq<u8>) -> nat) -> nat
    decreases s.dom().len() when s.dom().finite()
{
    if s.dom().len() == 0 { 0 } else {
        let k = s.dom().choose();
        w(k, s[k]) + sum_w(s.remove(k), w)
    }
}
pub proof fn lemma_sum_remove(s: Raw, w: spec_fn(Seq<u8>, Seq<u8>) -> nat, k: Seq<u8>)
    requires s.dom().finite(), s.contains_key(k)
    ensures sum_w(s, w) == w(k, s[k]) + sum_w(s.remove(k), w)
    decreases s.dom().len()
{
    let c = s.dom().choose();
    if c == k { } else {
        lemma_sum_remove(s.remove(c), w, k);
        assert(s.remove(c).remove(k) =~= s.remove(k).remove(c));
        lemma_sum_remove(s.remove(k), w, c);
    }
}
pub broadcast proof fn lemma_sum_insert(s: Raw, w: spec_fn(Seq<u8>, Seq<u8>) -> nat, k: Seq<u8>, v: Seq<u8>)
    requires s.dom().finite()
    ensures #[trigger] sum_w(s.insert(k, v), w) + (if s.contains_key(k) { w(k, s[k]) } else { 0 }) == sum_w(s, w) + w(k, v)
{
    let s2 = s.insert(k, v);
    lemma_sum_remove(s2, w, k);
    assert(s2.remove(k) =~= s.remove(k));
    if s.contains_key(k) { lemma_sum_remove(s, w, k); } else { assert(s.remove(k) =~= s); }
}
// pointwise-dominated weights => dominated sums (for "ballots never outweigh the total")
pub proof fn lemma_sum_le(s: Raw, w1: spec_fn(Seq<u8>, Seq<u8>) -> nat, w2: spec_fn(Seq<u8>, Seq<u8>) -> nat)
    requires s.dom().finite(), forall|k: Seq<u8>| s.contains_key(k) ==> #[trigger] w1(k, s[k]) <= w2(k, s[k])
    ensures sum_w(s, w1) <= sum_w(s, w2)
    decreases s.dom().len()
{
    if s.dom().len() != 0 {
        let c = s.dom().choose();
        lemma_sum_le(s.remove(c), w1, w2);
    }
}
} // verus!
fn main() {}
