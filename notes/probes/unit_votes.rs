use vstd::prelude::*;
use vstd::arithmetic::div_mod::*;
use vstd::arithmetic::mul::*;
verus! {
#[derive(Clone, Copy)]
pub struct Uint128(pub u128);
#[derive(Clone, Copy)]
pub struct Decimal(pub u128); // atomics, 18 decimals
pub open spec fn D18() -> int { 1_000_000_000_000_000_000 }
pub open spec fn P9() -> int { 1_000_000_000 }
impl Uint128 {
    pub fn new(v: u128) -> (r: Self) ensures r.0 == v { Uint128(v) }
    pub fn u128(&self) -> (r: u128) ensures r == self.0 { self.0 }
    /// cosmwasm_std: floor(self * numerator / denominator) through Uint256; panics if result > u128::MAX
    #[verifier::external_body]
    pub fn mul_floor(self, rhs: Decimal) -> (r: Uint128)
        ensures r.0 as int == (self.0 as int * rhs.0 as int) / D18()
    { unimplemented!() }
}
const PRECISION_FACTOR: u128 = 1_000_000_000;

pub open spec fn vn(w: int, a: int) -> int { (((P9() * w) * a) / D18() + P9() - 1) / P9() }

fn votes_needed(weight: u64, percentage: Decimal) -> (r: u64)
    requires percentage.0 <= D18()
    ensures r as int == vn(weight as int, percentage.0 as int)
{
    proof {
        assert(PRECISION_FACTOR * (weight as u128) <= 1_000_000_000 * 0xFFFF_FFFF_FFFF_FFFF) by (nonlinear_arith) requires PRECISION_FACTOR == 1_000_000_000, weight <= 0xFFFF_FFFF_FFFF_FFFF;
    }
    let applied = Uint128::new(PRECISION_FACTOR * weight as u128).mul_floor(percentage);
    proof {
        let x = (P9() * weight as int);
        let a = percentage.0 as int;
        assert(x * a <= x * D18()) by (nonlinear_arith) requires a <= D18(), x >= 0;
        lemma_div_is_ordered(x * a, x * D18(), D18());
        lemma_div_by_multiple(x, D18());
        assert((x * D18()) / D18() == x) by { lemma_mul_is_commutative(x, D18()); }
        assert(applied.0 as int <= x);
        assert((x + P9() - 1) / P9() <= weight as int) by (nonlinear_arith) requires x == P9() * weight as int, P9() == 1_000_000_000;
        lemma_div_is_ordered(applied.0 as int + P9() - 1, x + P9() - 1, P9());
    }
    // Divide by PRECISION_FACTOR, rounding up to the nearest integer
    ((applied.u128() + PRECISION_FACTOR - 1) / PRECISION_FACTOR) as u64
}
} // verus!
fn main() {}
