use vstd::prelude::*;
use vstd::std_specs::ops::*;
use vstd::std_specs::cmp::*;
use vstd::std_specs::convert::*;
use core::marker::PhantomData;
verus! {

// ================= errors =================
pub struct StdError { pub kind: u8 }
pub type StdResult<T> = Result<T, StdError>;

// ================= Uint128 =================
#[derive(Clone, Copy)]
pub struct Uint128(pub u128);
impl View for Uint128 { type V = nat; open spec fn view(&self) -> nat { self.0 as nat } }
impl PartialEqSpecImpl for Uint128 {
    open spec fn obeys_eq_spec() -> bool { true }
    open spec fn eq_spec(&self, o: &Uint128) -> bool { self.0 == o.0 }
}
impl PartialEq for Uint128 { fn eq(&self, o: &Uint128) -> (r: bool) { self.0 == o.0 } }
impl Eq for Uint128 {}
impl core::default::Default for Uint128 { fn default() -> (r: Self) ensures r.0 == 0 { Uint128(0) } }
impl Uint128 {
    pub fn checked_sub(self, o: Uint128) -> (r: StdResult<Uint128>)
        ensures self.0 >= o.0 ==> r is Ok && r->Ok_0.0 == self.0 - o.0,
                self.0 < o.0 ==> r is Err
    { if self.0 >= o.0 { Ok(Uint128(self.0 - o.0)) } else { Err(StdError{kind:1}) } }
}
// `+` panics on overflow in cosmwasm_std: partial-correctness contract (returns => no overflow)
impl AddSpecImpl<Uint128> for Uint128 {
    open spec fn obeys_add_spec() -> bool { true }
    open spec fn add_req(self, rhs: Uint128) -> bool { true }
    open spec fn add_spec(self, rhs: Uint128) -> Uint128 { Uint128((self.0 + rhs.0) as u128) }
}
impl core::ops::Add<Uint128> for Uint128 {
    type Output = Uint128;
    #[verifier::external_body]
    fn add(self, rhs: Uint128) -> (r: Uint128) ensures self.0 + rhs.0 <= u128::MAX { Uint128(self.0 + rhs.0) }
}

// ================= Addr =================
#[verifier::external_body]
pub struct Addr(String);
impl View for Addr { type V = Seq<char>; uninterp spec fn view(&self) -> Seq<char>; }
pub broadcast axiom fn addr_ext(a: Addr, b: Addr) ensures #![trigger a.view(), b.view()] a.view() == b.view() ==> a == b;
impl PartialEqSpecImpl for Addr {
    open spec fn obeys_eq_spec() -> bool { true }
    open spec fn eq_spec(&self, other: &Addr) -> bool { self.view() == other.view() }
}
impl PartialEq for Addr { #[verifier::external_body] fn eq(&self, other: &Addr) -> (r: bool) { self.0 == other.0 } }
impl Eq for Addr {}
impl Clone for Addr { #[verifier::external_body] fn clone(&self) -> (r: Self) ensures r == *self { Addr(self.0.clone()) } }
impl From<Addr> for String { #[verifier::external_body] fn from(a: Addr) -> (r: String) ensures r@ == a@ { a.0 } }
impl<'a> From<&'a Addr> for String { #[verifier::external_body] fn from(a: &'a Addr) -> (r: String) ensures r@ == a@ { a.0.clone() } }
impl From<Uint128> for String { #[verifier::external_body] fn from(a: Uint128) -> String { unimplemented!() } }

// ================= storage =================
pub type Raw = Map<Seq<u8>, Seq<u8>>;
pub trait Storage { spec fn view(&self) -> Raw; }
pub trait Api {
    fn addr_validate(&self, human: &str) -> (r: StdResult<Addr>) ensures r is Ok ==> r->Ok_0@ == human@;
}
pub struct DepsMut<'a> { pub storage: &'a mut dyn Storage, pub api: &'a dyn Api }
pub struct BlockInfo { pub height: u64 }
pub struct Env { pub block: BlockInfo }
pub struct MessageInfo { pub sender: Addr }

pub trait KeyT: Sized { spec fn kb(self) -> Seq<u8>; }
pub trait SerT: Sized { spec fn ser(self) -> Seq<u8>; spec fn de(b: Seq<u8>) -> Option<Self>; }
pub uninterp spec fn path(ns: Seq<char>, k: Seq<u8>) -> Seq<u8>;
pub uninterp spec fn unpath(p: Seq<u8>) -> (Seq<char>, Seq<u8>);
pub broadcast axiom fn ax_path(ns: Seq<char>, k: Seq<u8>) ensures unpath(#[trigger] path(ns, k)) == (ns, k);

pub uninterp spec fn addr_kb(a: Seq<char>) -> Seq<u8>;
pub uninterp spec fn addr_unkb(b: Seq<u8>) -> Seq<char>;
pub broadcast axiom fn ax_addr_kb(a: Seq<char>) ensures addr_unkb(#[trigger] addr_kb(a)) == a;
impl<'a> KeyT for &'a Addr { open spec fn kb(self) -> Seq<u8> { addr_kb(self@) } }

pub uninterp spec fn u128_ser(v: u128) -> Seq<u8>;
pub uninterp spec fn u128_de(b: Seq<u8>) -> Option<u128>;
pub broadcast axiom fn ax_u128_ser(v: u128) ensures u128_de(#[trigger] u128_ser(v)) == Some(v);
impl SerT for Uint128 {
    open spec fn ser(self) -> Seq<u8> { u128_ser(self.0) }
    open spec fn de(b: Seq<u8>) -> Option<Self> { match u128_de(b) { Some(v) => Some(Uint128(v)), None => None } }
}

pub struct CwMap<K, V> { pub ns: &'static str, pub _k: PhantomData<K>, pub _v: PhantomData<V> }
impl<K: KeyT, V: SerT> CwMap<K, V> {
    pub const fn new(ns: &'static str) -> (r: Self) ensures r.ns@ == ns@ { CwMap{ ns, _k: PhantomData, _v: PhantomData } }
    pub open spec fn rawkey(&self, k: K) -> Seq<u8> { path(self.ns@, k.kb()) }
    pub open spec fn get(&self, s: Raw, k: K) -> Option<V> {
        if s.contains_key(self.rawkey(k)) { V::de(s[self.rawkey(k)]) } else { None }
    }
    /// cw-storage-plus Map::update: may_load, apply, save. (parse errors -> Err, state unchanged)
    #[verifier::external_body]
    pub fn update<F: FnOnce(Option<V>) -> Result<V, E>, E>(&self, store: &mut dyn Storage, k: K, f: F) -> (r: Result<V, E>)
        requires f.requires((self.get(old(store).view(), k),)),
        ensures
            r is Ok ==> f.ensures((self.get(old(store).view(), k),), r)
                    && final(store).view() == old(store).view().insert(self.rawkey(k), r->Ok_0.ser()),
            r is Err ==> final(store).view() == old(store).view(),
    { unimplemented!() }
}

// ================= sums over raw storage =================
pub open spec fn bal_w(ns: Seq<char>, k: Seq<u8>, v: Seq<u8>) -> nat {
    if unpath(k).0 == ns { match u128_de(v) { Some(x) => x as nat, None => 0 } } else { 0 }
}
pub open spec fn sum_ns(s: Raw, ns: Seq<char>) -> nat
    decreases s.dom().len() when s.dom().finite()
{
    if s.dom().len() == 0 { 0 } else {
        let k = s.dom().choose();
        bal_w(ns, k, s[k]) + sum_ns(s.remove(k), ns)
    }
}
pub proof fn lemma_sum_remove(s: Raw, ns: Seq<char>, k: Seq<u8>)
    requires s.dom().finite(), s.contains_key(k)
    ensures sum_ns(s, ns) == bal_w(ns, k, s[k]) + sum_ns(s.remove(k), ns)
    decreases s.dom().len()
{
    let c = s.dom().choose();
    if c == k { } else {
        lemma_sum_remove(s.remove(c), ns, k);
        assert(s.remove(c).remove(k) =~= s.remove(k).remove(c));
        lemma_sum_remove(s.remove(k), ns, c);
    }
}
pub broadcast proof fn lemma_sum_insert(s: Raw, ns: Seq<char>, k: Seq<u8>, v: Seq<u8>)
    requires s.dom().finite()
    ensures #[trigger] sum_ns(s.insert(k, v), ns) + (if s.contains_key(k) { bal_w(ns, k, s[k]) } else { 0 }) == sum_ns(s, ns) + bal_w(ns, k, v)
{
    let s2 = s.insert(k, v);
    lemma_sum_remove(s2, ns, k);
    assert(s2.remove(k) =~= s.remove(k));
    if s.contains_key(k) { lemma_sum_remove(s, ns, k); } else { assert(s.remove(k) =~= s); }
}

pub struct Response { pub n: u64 }
impl Response {
    pub fn new() -> Response { Response{n:0} }
    #[verifier::external_body]
    pub fn add_attribute(self, key: impl Into<String>, value: impl Into<String>) -> (r: Self) ensures r == self { self }
}
pub enum ContractError { Std(StdError), Unauthorized {}, }
impl FromSpecImpl<StdError> for ContractError {
    open spec fn obeys_from_spec() -> bool { true }
    open spec fn from_spec(e: StdError) -> Self { ContractError::Std(e) }
}
impl From<StdError> for ContractError { fn from(e: StdError) -> (r: ContractError) { ContractError::Std(e) } }

} // verus!
