include!("shim_core.rs");
verus! {
pub struct Binary { pub b: Vec<u8> }
pub trait CustomQuery {}
pub struct Empty {}
impl CustomQuery for Empty {}
pub enum WasmQuery { Smart { contract_addr: String, msg: Binary }, Raw { contract_addr: String, key: Binary } }
pub enum QueryRequest<Q> { Wasm(WasmQuery), Custom(Q) }
impl<Q> From<WasmQuery> for QueryRequest<Q> { fn from(w: WasmQuery) -> (r: QueryRequest<Q>) { QueryRequest::Wasm(w) } }
impl<Q> FromSpecImpl<WasmQuery> for QueryRequest<Q> { open spec fn obeys_from_spec() -> bool { true } open spec fn from_spec(w: WasmQuery) -> Self { QueryRequest::Wasm(w) } }
pub trait DeT: Sized { spec fn dej(b: Seq<u8>) -> Option<Self>; }
pub struct QuerierWrapper<'a, Q = Empty> { pub q: &'a Ghost<int>, pub _p: PhantomData<Q> }
// environment: what a smart query to `contract` with payload `msg` answers (A5)
pub uninterp spec fn smart_answer(env: int, contract: Seq<char>, msg: Seq<u8>) -> Option<Seq<u8>>;
pub uninterp spec fn remote_raw(env: int, contract: Seq<char>) -> Raw;
impl<'a, Q: CustomQuery> QuerierWrapper<'a, Q> {
    pub open spec fn env(&self) -> int { self.q@ }
    #[verifier::external_body]
    pub fn query<U: DeT>(&self, request: &QueryRequest<Q>) -> (r: StdResult<U>)
        ensures r is Ok ==> match request { QueryRequest::Wasm(WasmQuery::Smart{contract_addr, msg}) =>
            smart_answer(self.env(), contract_addr@, msg.b@) is Some && U::dej(smart_answer(self.env(), contract_addr@, msg.b@)->Some_0) == Some(r->Ok_0), _ => true }
    { unimplemented!() }
}
pub enum Cw4QueryMsg { Admin {}, TotalWeight { at_height: Option<u64> }, Member { addr: String, at_height: Option<u64> }, Hooks {} }
pub uninterp spec fn ser_q(m: Cw4QueryMsg) -> Seq<u8>;
#[verifier::external_body]
pub fn to_json_binary_q(m: &Cw4QueryMsg) -> (r: StdResult<Binary>) ensures r is Ok && r->Ok_0.b@ == ser_q(*m) { unimplemented!() }
pub struct MemberResponse { pub weight: Option<u64> }
impl DeT for MemberResponse { uninterp spec fn dej(b: Seq<u8>) -> Option<Self>; }

impl SerT for u64 { uninterp spec fn ser(self) -> Seq<u8>; uninterp spec fn de(b: Seq<u8>) -> Option<Self>; }
pub struct CwItem<V> { pub ns: &'static str, pub _v: PhantomData<V> }
impl<V: SerT> CwItem<V> {
    pub const fn new(ns: &'static str) -> (r: Self) ensures r.ns@ == ns@ { CwItem{ ns, _v: PhantomData } }
    #[verifier::external_body]
    pub fn query<Q: CustomQuery>(&self, querier: &QuerierWrapper<Q>, remote_contract: Addr) -> (r: StdResult<V>)
        ensures r is Ok ==> remote_raw(querier.env(), remote_contract@).contains_key(path(self.ns@, seq![]))
            && V::de(remote_raw(querier.env(), remote_contract@)[path(self.ns@, seq![])]) == Some(r->Ok_0)
    { unimplemented!() }
}
impl<K: KeyT, V: SerT> CwMap<K, V> {
    #[verifier::external_body]
    pub fn query<Q: CustomQuery>(&self, querier: &QuerierWrapper<Q>, remote_contract: Addr, k: K) -> (r: StdResult<Option<V>>)
        ensures r is Ok ==> r->Ok_0 == self.get(remote_raw(querier.env(), remote_contract@), k)
    { unimplemented!() }
}
pub const TOTAL_KEY: &'static str = "total";
pub const MEMBERS_KEY: &'static str = "members";

impl Addr { #[verifier::external_body] pub fn to_string(&self) -> (r: String) ensures r@ == self@ { unimplemented!() } }
pub struct Cw4Contract(pub Addr);

// group oracle, defined from the environment functions
pub open spec fn grp_member_at(env: int, g: Seq<char>, a: Seq<char>, h: Option<u64>) -> Option<Option<u64>> {
    match smart_answer(env, g, ser_q(Cw4QueryMsg::Member { addr: str_of(a), at_height: h })) {
        Some(b) => match MemberResponse::dej(b) { Some(m) => Some(m.weight), None => None }, None => None }
}
pub uninterp spec fn str_of(a: Seq<char>) -> String;
pub broadcast axiom fn ax_str_of(s: String) ensures #[trigger] str_of(s@) == s;

impl Cw4Contract {
    pub fn addr(&self) -> (r: Addr) ensures r == self.0 {
        self.0.clone()
    }

    fn encode_smart_query<Q: CustomQuery>(&self, msg: Cw4QueryMsg) -> (r: StdResult<QueryRequest<Q>>)
        ensures r is Ok ==> r->Ok_0 == QueryRequest::<Q>::Wasm(WasmQuery::Smart { contract_addr: r->Ok_0->Wasm_0->Smart_contract_addr, msg: r->Ok_0->Wasm_0->Smart_msg })
            && r->Ok_0->Wasm_0->Smart_contract_addr@ == self.0@ && r->Ok_0->Wasm_0->Smart_msg.b@ == ser_q(msg)
    {
        Ok(WasmQuery::Smart {
            contract_addr: self.addr().into(),
            msg: to_json_binary_q(&msg)?,
        }
        .into())
    }

    /// Read the total weight
    pub fn total_weight(&self, querier: &QuerierWrapper) -> (r: StdResult<u64>)
        ensures r is Ok ==> u64::de(remote_raw(querier.env(), self.0@)[path("total"@, seq![])]) == Some(r->Ok_0)
    {
        CwItem::new(TOTAL_KEY).query(querier, self.addr())
    }

    /// Return the member's weight at the given snapshot - requires a smart query
    pub fn member_at_height(
        &self,
        querier: &QuerierWrapper,
        member: impl Into<String>,
        at_height: Option<u64>,
    ) -> (r: StdResult<Option<u64>>)
    {
        let query = self.encode_smart_query(Cw4QueryMsg::Member {
            addr: member.into(),
            at_height,
        })?;
        let res: MemberResponse = querier.query(&query)?;
        Ok(res.weight)
    }

    /// Check if this address is a member, and if its weight is >= 1
    /// Returns member's weight in positive case
    pub fn is_voting_member(
        &self,
        querier: &QuerierWrapper,
        member: &Addr,
        height: impl Into<Option<u64>>,
    ) -> (r: StdResult<Option<u64>>)
        ensures r is Ok ==> (r->Ok_0 is Some ==> r->Ok_0->Some_0 >= 1)
    {
        if let Some(weight) = self.member_at_height(querier, member.to_string(), height.into())? {
            if weight >= 1 {
                return Ok(Some(weight));
            }
        }
        Ok(None)
    }
}
} // verus!
fn main() {}
