// shim/cw_controllers.rs -- cw-controllers 2.0.0 Admin / Hooks (ASSUMED contracts; sources admin.rs, hooks.rs)
verus! {

impl SerT for Option<Addr> { uninterp spec fn ser(self) -> Seq<u8>; uninterp spec fn de(b: Seq<u8>) -> Option<Self>; }
impl SerT for Vec<Addr> { uninterp spec fn ser(self) -> Seq<u8>; uninterp spec fn de(b: Seq<u8>) -> Option<Self>; }
pub enum AdminError { Std(StdError), NotAdmin {} }
pub enum HookError { Std(StdError), Admin(AdminError), HookAlreadyRegistered {}, HookNotRegistered {} }
pub struct AdminResponse { pub admin: Option<String> }
pub struct HooksResponse { pub hooks: Vec<String> }

/// the stored admin: None = item missing, Some(None) = no admin (frozen), Some(Some(a)) = admin a
pub open spec fn admin_of(s: Raw, ns: Seq<char>) -> Option<Option<Addr>> { raw_get::<Option<Addr>>(s, item_key(ns)) }
pub open spec fn is_admin_addr(s: Raw, ns: Seq<char>, a: Seq<char>) -> bool {
    admin_of(s, ns) is Some && admin_of(s, ns)->Some_0 is Some && admin_of(s, ns)->Some_0->Some_0@ == a
}
pub open spec fn hooks_of(s: Raw, ns: Seq<char>) -> Seq<Addr> {
    match raw_get::<Vec<Addr>>(s, item_key(ns)) { Some(v) => v@, None => Seq::<Addr>::empty() }
}
pub open spec fn same_but(s: Raw, t: Raw, k: Seq<u8>) -> bool { forall|k2: Seq<u8>| k2 != k ==> #[trigger] kv(s, k2) == kv(t, k2) }
pub open spec fn kv(s: Raw, k: Seq<u8>) -> Option<Seq<u8>> { if s.contains_key(k) { Some(s[k]) } else { None } }

pub struct Admin { pub ns: &'static str }
impl Admin {
    pub const fn new(ns: &'static str) -> (r: Self) ensures r.ns@ == ns@ { Admin { ns } }
    #[verifier::external_body]
    pub fn set(&self, deps: DepsMut, admin: Option<Addr>) -> (r: StdResult<()>)
        ensures r is Ok, final(deps.storage).view() == old(deps.storage).view().insert(item_key(self.ns@), admin.ser()),
    { unimplemented!() }
    #[verifier::external_body]
    pub fn get(&self, deps: Deps) -> (r: StdResult<Option<Addr>>)
        ensures r is Ok ==> Some(r->Ok_0) == admin_of(deps.storage.view(), self.ns@),
    { unimplemented!() }
    #[verifier::external_body]
    pub fn is_admin(&self, deps: Deps, caller: &Addr) -> (r: StdResult<bool>)
        ensures r is Ok ==> r->Ok_0 == is_admin_addr(deps.storage.view(), self.ns@, caller@),
    { unimplemented!() }
    #[verifier::external_body]
    pub fn assert_admin(&self, deps: Deps, caller: &Addr) -> (r: Result<(), AdminError>)
        ensures r is Ok <==> is_admin_addr(deps.storage.view(), self.ns@, caller@),
    { unimplemented!() }
    #[verifier::external_body]
    pub fn execute_update_admin<C>(&self, deps: DepsMut, info: MessageInfo, new_admin: Option<Addr>) -> (r: Result<Response<C>, AdminError>)
        ensures r is Ok ==> is_admin_addr(old(deps.storage).view(), self.ns@, info.sender@)
                && final(deps.storage).view() == old(deps.storage).view().insert(item_key(self.ns@), new_admin.ser())
                && r->Ok_0.messages@.len() == 0,
            r is Err ==> final(deps.storage).view() == old(deps.storage).view(),
    { unimplemented!() }
    #[verifier::external_body]
    pub fn query_admin(&self, deps: Deps) -> (r: StdResult<AdminResponse>)
        ensures r is Ok ==> admin_answer(deps.storage.view(), self.ns@, r->Ok_0),
    { unimplemented!() }
}

pub struct Hooks { pub ns: &'static str }
impl Hooks {
    pub const fn new(ns: &'static str) -> (r: Self) ensures r.ns@ == ns@ { Hooks { ns } }
    #[verifier::external_body]
    pub fn execute_add_hook<C>(&self, admin: &Admin, deps: DepsMut, info: MessageInfo, addr: Addr) -> (r: Result<Response<C>, HookError>)
        ensures r is Ok ==> is_admin_addr(old(deps.storage).view(), admin.ns@, info.sender@)
                && !old_has_hook(old(deps.storage).view(), self.ns@, addr@)
                && hooks_of(final(deps.storage).view(), self.ns@) == hooks_of(old(deps.storage).view(), self.ns@).push(addr)
                && same_but(old(deps.storage).view(), final(deps.storage).view(), item_key(self.ns@))
                && r->Ok_0.messages@.len() == 0,
            r is Err ==> final(deps.storage).view() == old(deps.storage).view(),
    { unimplemented!() }
    #[verifier::external_body]
    pub fn execute_remove_hook<C>(&self, admin: &Admin, deps: DepsMut, info: MessageInfo, addr: Addr) -> (r: Result<Response<C>, HookError>)
        ensures r is Ok ==> is_admin_addr(old(deps.storage).view(), admin.ns@, info.sender@)
                && old_has_hook(old(deps.storage).view(), self.ns@, addr@)
                && (exists|i: int| 0 <= i < hooks_of(old(deps.storage).view(), self.ns@).len() && #[trigger] hooks_of(old(deps.storage).view(), self.ns@)[i]@ == addr@
                    && hooks_of(final(deps.storage).view(), self.ns@) == hooks_of(old(deps.storage).view(), self.ns@).remove(i)
                    && forall|j: int| 0 <= j < i ==> hooks_of(old(deps.storage).view(), self.ns@)[j]@ != addr@)
                && same_but(old(deps.storage).view(), final(deps.storage).view(), item_key(self.ns@))
                && r->Ok_0.messages@.len() == 0,
            r is Err ==> final(deps.storage).view() == old(deps.storage).view(),
    { unimplemented!() }
    /// one prepared message per registered hook, in registration order
    #[verifier::external_body]
    pub fn prepare_hooks<F: Fn(Addr) -> StdResult<SubMsg>>(&self, storage: &dyn Storage, prep: F) -> (r: StdResult<Vec<SubMsg>>)
        requires forall|a: Addr| prep.requires((a,))
        ensures r is Ok ==> r->Ok_0@.len() == hooks_of(storage.view(), self.ns@).len()
            && forall|i: int| 0 <= i < r->Ok_0@.len() ==> prep.ensures((hooks_of(storage.view(), self.ns@)[i],), Ok(#[trigger] r->Ok_0@[i]))
    { unimplemented!() }
    #[verifier::external_body]
    pub fn query_hooks(&self, deps: Deps) -> (r: StdResult<HooksResponse>)
        ensures r is Ok ==> hooks_answer(deps.storage.view(), self.ns@, r->Ok_0)
    { unimplemented!() }
}
/// what the Admin / Hooks queries of cw-controllers answer
pub open spec fn admin_answer(s: Raw, ns: Seq<char>, x: AdminResponse) -> bool {
    admin_of(s, ns) is Some && (x.admin is Some <==> admin_of(s, ns)->Some_0 is Some)
    && (x.admin is Some ==> x.admin->Some_0@ == admin_of(s, ns)->Some_0->Some_0@)
}
pub open spec fn hooks_answer(s: Raw, ns: Seq<char>, x: HooksResponse) -> bool {
    x.hooks@.len() == hooks_of(s, ns).len() && forall|i: int| 0 <= i < x.hooks@.len() ==> (#[trigger] x.hooks@[i])@ == hooks_of(s, ns)[i]@
}
pub open spec fn old_has_hook(s: Raw, ns: Seq<char>, a: Seq<char>) -> bool {
    exists|i: int| 0 <= i < hooks_of(s, ns).len() && #[trigger] hooks_of(s, ns)[i]@ == a
}


// ---- claim.rs (ASSUMED contracts; source cw-controllers-2.0.0/src/claim.rs)
pub struct Claim { pub amount: Uint128, pub release_at: Expiration }
pub struct ClaimsResponse { pub claims: Vec<Claim> }
pub uninterp spec fn ser_claims(c: Seq<Claim>) -> Seq<u8>;
pub uninterp spec fn de_claims(b: Seq<u8>) -> Option<Seq<Claim>>;
pub broadcast axiom fn ax_ser_claims(c: Seq<Claim>) ensures de_claims(#[trigger] ser_claims(c)) == Some(c);
pub open spec fn claims_key(ns: Seq<char>, a: Seq<char>) -> Seq<u8> { path(ns, utf8(a)) }
pub open spec fn claims_of(s: Raw, ns: Seq<char>, a: Seq<char>) -> Seq<Claim> {
    if s.contains_key(claims_key(ns, a)) { match de_claims(s[claims_key(ns, a)]) { Some(c) => c, None => Seq::<Claim>::empty() } } else { Seq::<Claim>::empty() }
}
pub open spec fn claims_readable(s: Raw, ns: Seq<char>, a: Seq<char>) -> bool {
    !s.contains_key(claims_key(ns, a)) || de_claims(s[claims_key(ns, a)]) is Some
}
pub open spec fn claims_total(c: Seq<Claim>) -> nat decreases c.len() {
    if c.len() == 0 { 0 } else { claims_total(c.drop_last()) + c.last().amount@ }
}
/// amount of the claims that have matured at block b / the claims that have not
pub open spec fn matured_total(c: Seq<Claim>, b: &BlockInfo) -> nat decreases c.len() {
    if c.len() == 0 { 0 } else { matured_total(c.drop_last(), b) + (if c.last().release_at.expired(b) { c.last().amount@ } else { 0 }) }
}
pub open spec fn waiting(c: Seq<Claim>, b: &BlockInfo) -> Seq<Claim> decreases c.len() {
    if c.len() == 0 { Seq::<Claim>::empty() } else if c.last().release_at.expired(b) { waiting(c.drop_last(), b) } else { waiting(c.drop_last(), b).push(c.last()) }
}
pub struct Claims { pub ns: &'static str }
impl Claims {
    pub const fn new(ns: &'static str) -> (r: Self) ensures r.ns@ == ns@ { Claims { ns } }
    #[verifier::external_body]
    pub fn create_claim(&self, storage: &mut dyn Storage, addr: &Addr, amount: Uint128, release_at: Expiration) -> (r: StdResult<()>)
        ensures r is Ok ==> final(storage).view() == old(storage).view().insert(claims_key(self.ns@, addr@),
            ser_claims(claims_of(old(storage).view(), self.ns@, addr@).push(Claim { amount, release_at }))),
    { unimplemented!() }
    /// releases every matured claim of `addr` (cap == None); `to_send += amount` panics on overflow (partial)
    #[verifier::external_body]
    pub fn claim_tokens(&self, storage: &mut dyn Storage, addr: &Addr, block: &BlockInfo, cap: Option<Uint128>) -> (r: StdResult<Uint128>)
        requires cap is None
        ensures r is Ok ==> r->Ok_0@ == matured_total(claims_of(old(storage).view(), self.ns@, addr@), block)
            && final(storage).view() == old(storage).view().insert(claims_key(self.ns@, addr@),
                ser_claims(waiting(claims_of(old(storage).view(), self.ns@, addr@), block))),
            // `Map::update` with an infallible action: only a stored value that does not parse makes it fail
            claims_readable(old(storage).view(), self.ns@, addr@) ==> r is Ok,
    { unimplemented!() }
    #[verifier::external_body]
    pub fn query_claims(&self, deps: Deps, address: &Addr) -> (r: StdResult<ClaimsResponse>)
        ensures r is Ok ==> r->Ok_0.claims@ == claims_of(deps.storage.view(), self.ns@, address@)
    { unimplemented!() }
}

} // verus!
