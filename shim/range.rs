// shim/range.rs -- cw-storage-plus 2.0.0 range / prefix / keys / Bound (ASSUMED model, DESIGN 4.2 and 7 C20):
// `listing(s, ns, pre)` is the sequence of (sub-key bytes, value bytes) of all entries of namespace `ns` whose key starts with the
// composite prefix `pre` (empty = whole map), in ascending byte order of the sub-key. It is uninterpreted; only the axioms below are
// known (it lists exactly the stored entries, strictly sorted by the uninterpreted total order `bytes_lt`). The iterator is modelled
// eagerly as the vector of its items.
verus! {

pub enum Order { Ascending, Descending }
pub use self::Order::Ascending;
pub enum Bound<K> { Inclusive(K), Exclusive(K), InclusiveRaw(Vec<u8>), ExclusiveRaw(Vec<u8>) }
impl<K: KeyT> Bound<K> {
    pub fn exclusive(k: K) -> (r: Self) ensures r == Bound::Exclusive(k) { Bound::Exclusive(k) }
    pub fn inclusive(k: K) -> (r: Self) ensures r == Bound::Inclusive(k) { Bound::Inclusive(k) }
    /// (bytes, inclusive?)
    pub open spec fn raw(self) -> (Seq<u8>, bool) {
        match self {
            Bound::Inclusive(k) => (k.kb(), true), Bound::Exclusive(k) => (k.kb(), false),
            Bound::InclusiveRaw(b) => (b@, true), Bound::ExclusiveRaw(b) => (b@, false),
        }
    }
}
pub open spec fn bound_raw<K: KeyT>(b: Option<Bound<K>>) -> Option<(Seq<u8>, bool)> { match b { Some(x) => Some(x.raw()), None => None } }

/// strict total order on key bytes (lexicographic order of the real implementation; uninterpreted here)
pub uninterp spec fn bytes_lt(a: Seq<u8>, b: Seq<u8>) -> bool;
pub broadcast axiom fn ax_bytes_lt_irrefl(a: Seq<u8>) ensures !(#[trigger] bytes_lt(a, a));
pub broadcast axiom fn ax_bytes_lt_trans(a: Seq<u8>, b: Seq<u8>, c: Seq<u8>) ensures #[trigger] bytes_lt(a, b) && #[trigger] bytes_lt(b, c) ==> bytes_lt(a, c);
pub broadcast axiom fn ax_bytes_lt_total(a: Seq<u8>, b: Seq<u8>) ensures #![trigger bytes_lt(a, b)] a == b || bytes_lt(a, b) || bytes_lt(b, a);
/// u64 keys are big-endian: byte order is numeric order
pub broadcast axiom fn ax_u64_kb_order(a: u64, b: u64) ensures #[trigger] bytes_lt(u64_kb(a), u64_kb(b)) == (a < b);

pub type Entry = (Seq<u8>, Seq<u8>);
pub open spec fn full_key(pre: Seq<u8>, sub: Seq<u8>, has_pre: bool) -> Seq<u8> { if has_pre { pair_kb(pre, sub) } else { sub } }
pub uninterp spec fn listing(s: Raw, ns: Seq<char>, pre: Seq<u8>, has_pre: bool) -> Seq<Entry>;
pub open spec fn sorted_strict(l: Seq<Entry>) -> bool { forall|i: int, j: int| 0 <= i < j < l.len() ==> bytes_lt(#[trigger] l[i].0, #[trigger] l[j].0) }
pub broadcast axiom fn ax_listing(s: Raw, ns: Seq<char>, pre: Seq<u8>, has_pre: bool)
    ensures sorted_strict(#[trigger] listing(s, ns, pre, has_pre)),
        // sound: every listed entry is stored under the corresponding key with that value
        forall|i: int| 0 <= i < listing(s, ns, pre, has_pre).len() ==>
            s.contains_key(path(ns, full_key(pre, (#[trigger] listing(s, ns, pre, has_pre)[i]).0, has_pre)))
            && s[path(ns, full_key(pre, listing(s, ns, pre, has_pre)[i].0, has_pre))] == listing(s, ns, pre, has_pre)[i].1,
        // complete: every stored entry of the namespace / prefix is listed
        forall|sub: Seq<u8>| s.contains_key(#[trigger] path(ns, full_key(pre, sub, has_pre))) ==>
            exists|i: int| 0 <= i < listing(s, ns, pre, has_pre).len() && listing(s, ns, pre, has_pre)[i].0 == sub;

pub open spec fn within(k: Seq<u8>, min: Option<(Seq<u8>, bool)>, max: Option<(Seq<u8>, bool)>) -> bool {
    (match min { Some((b, incl)) => bytes_lt(b, k) || (incl && b == k), None => true })
    && (match max { Some((b, incl)) => bytes_lt(k, b) || (incl && b == k), None => true })
}
/// order-preserving sub-sequence of the elements satisfying `p`
pub open spec fn keep<T>(l: Seq<T>, p: spec_fn(T) -> bool) -> Seq<T> decreases l.len() {
    if l.len() == 0 { Seq::<T>::empty() } else if p(l.last()) { keep(l.drop_last(), p).push(l.last()) } else { keep(l.drop_last(), p) }
}
/// the entries a range scan visits, in visiting order
pub open spec fn scan(l: Seq<Entry>, min: Option<(Seq<u8>, bool)>, max: Option<(Seq<u8>, bool)>, order: Order) -> Seq<Entry> {
    let f = keep(l, |e: Entry| within(e.0, min, max));
    match order { Order::Ascending => f, Order::Descending => f.reverse() }
}

/// owned form of a key as returned by iteration
pub trait KeyOut: KeyT { type Out; spec fn out_kb(o: Self::Out) -> Seq<u8>; }
impl<'a> KeyOut for &'a Addr { type Out = Addr; open spec fn out_kb(o: Addr) -> Seq<u8> { utf8(o@) } }
impl<'a> KeyOut for &'a str { type Out = String; open spec fn out_kb(o: String) -> Seq<u8> { utf8(o@) } }
impl KeyOut for u64 { type Out = u64; open spec fn out_kb(o: u64) -> Seq<u8> { u64_kb(o) } }
impl<A: KeyOut, B: KeyOut> KeyOut for (A, B) { type Out = (A::Out, B::Out); open spec fn out_kb(o: (A::Out, B::Out)) -> Seq<u8> { pair_kb(A::out_kb(o.0), B::out_kb(o.1)) } }

pub struct CwIter<T> { pub items: Vec<T> }
pub uninterp spec fn filter_pred<T, F>(f: F) -> spec_fn(T) -> bool;
pub trait FromCwIter<T>: Sized {
    spec fn built_from(self, s: Seq<T>) -> bool;
    fn build(v: Vec<T>) -> (r: Self) ensures r.built_from(v@);
}
impl<T> FromCwIter<StdResult<T>> for StdResult<Vec<T>> {
    open spec fn built_from(self, s: Seq<StdResult<T>>) -> bool {
        match self {
            Ok(v) => v@.len() == s.len() && forall|i: int| 0 <= i < s.len() ==> s[i] == Ok::<T, StdError>(#[trigger] v@[i]),
            Err(_) => exists|i: int| 0 <= i < s.len() && s[i] is Err,
        }
    }
    #[verifier::external_body]
    fn build(v: Vec<StdResult<T>>) -> (r: Self) { unimplemented!() }
}
impl<T> CwIter<T> {
    #[verifier::external_body]
    pub fn take(self, n: usize) -> (r: CwIter<T>)
        ensures r.items@ == self.items@.take(if n as int <= self.items@.len() { n as int } else { self.items@.len() as int })
    { unimplemented!() }
    #[verifier::external_body]
    pub fn map<U, F: Fn(T) -> U>(self, f: F) -> (r: CwIter<U>)
        requires forall|i: int| 0 <= i < self.items@.len() ==> f.requires((self.items@[i],))
        ensures r.items@.len() == self.items@.len(), forall|i: int| 0 <= i < self.items@.len() ==> f.ensures((self.items@[i],), #[trigger] r.items@[i])
    { unimplemented!() }
    /// the predicate handed to `filter` is called once per item; its result is modelled as a function `filter_pred(f)` of the item
    /// value (ASSUMED: an `Fn(&T) -> bool` closure without interior mutability is deterministic); all that is known about that
    /// function is that each result satisfies the closure's own postcondition
    #[verifier::external_body]
    pub fn filter<F: Fn(&T) -> bool>(self, f: F) -> (r: CwIter<T>)
        requires forall|i: int| 0 <= i < self.items@.len() ==> f.requires((&self.items@[i],))
        ensures r.items@ == keep(self.items@, filter_pred::<T, F>(f)),
            forall|i: int| 0 <= i < self.items@.len() ==> f.ensures((&self.items@[i],), #[trigger] filter_pred::<T, F>(f)(self.items@[i]))
    { unimplemented!() }
    pub fn collect<B: FromCwIter<T>>(self) -> (r: B) ensures r.built_from(self.items@) { B::build(self.items) }
}

/// items of a typed scan: decoded key and value, or Err where the stored bytes do not parse
pub open spec fn typed_items<KO, V: SerT>(items: Seq<StdResult<(KO, V)>>, sel: Seq<Entry>, kb: spec_fn(KO) -> Seq<u8>) -> bool {
    items.len() == sel.len() && forall|i: int| 0 <= i < sel.len() ==> match #[trigger] items[i] {
        Ok((k, v)) => kb(k) == sel[i].0 && V::de(sel[i].1) == Some(v),
        // an item is an error only when the stored value or the stored key does not parse
        Err(_) => V::de(sel[i].1) is None || forall|k: KO| #[trigger] kb(k) != sel[i].0,
    }
}
pub open spec fn typed_keys<KO>(items: Seq<StdResult<KO>>, sel: Seq<Entry>, kb: spec_fn(KO) -> Seq<u8>) -> bool {
    items.len() == sel.len() && forall|i: int| 0 <= i < sel.len() ==> match #[trigger] items[i] { Ok(k) => kb(k) == sel[i].0, Err(_) => false }
}

impl<K: KeyOut, V: SerT> Map<K, V> {
    #[verifier::external_body]
    pub fn range(&self, store: &dyn Storage, min: Option<Bound<K>>, max: Option<Bound<K>>, order: Order) -> (r: CwIter<StdResult<(K::Out, V)>>)
        ensures typed_items(r.items@, scan(listing(store.view(), self.ns@, Seq::<u8>::empty(), false), bound_raw(min), bound_raw(max), order), |o: K::Out| K::out_kb(o))
    { unimplemented!() }
    #[verifier::external_body]
    pub fn keys(&self, store: &dyn Storage, min: Option<Bound<K>>, max: Option<Bound<K>>, order: Order) -> (r: CwIter<StdResult<K::Out>>)
        ensures typed_keys(r.items@, scan(listing(store.view(), self.ns@, Seq::<u8>::empty(), false), bound_raw(min), bound_raw(max), order), |o: K::Out| K::out_kb(o))
    { unimplemented!() }
}
pub struct Prefix<S, V> { pub ns: &'static str, pub pre: Ghost<Seq<u8>>, pub _s: PhantomData<S>, pub _v: PhantomData<V> }
impl<S: KeyOut, V: SerT> Prefix<S, V> {
    #[verifier::external_body]
    pub fn range(&self, store: &dyn Storage, min: Option<Bound<S>>, max: Option<Bound<S>>, order: Order) -> (r: CwIter<StdResult<(S::Out, V)>>)
        ensures typed_items(r.items@, scan(listing(store.view(), self.ns@, self.pre@, true), bound_raw(min), bound_raw(max), order), |o: S::Out| S::out_kb(o))
    { unimplemented!() }
}
impl<P: KeyT, S: KeyOut, V: SerT> Map<(P, S), V> {
    #[verifier::external_body]
    pub fn prefix(&self, p: P) -> (r: Prefix<S, V>) ensures r.ns@ == self.ns@, r.pre@ == p.kb() { unimplemented!() }
}

} // verus!
