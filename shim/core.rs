// shim/core.rs -- ASSUMED contracts for cosmwasm-std 2.0.2 / cw-storage-plus 2.0.0 basics.
// Everything marked external_body / axiom / assume_specification here is an assumption,
// not proof (DESIGN.md section 4). See shim/CONFORMANCE.md for the source each abstracts.
use vstd::prelude::*;
use vstd::std_specs::ops::*;
use vstd::std_specs::cmp::*;
use vstd::std_specs::convert::*;
use core::marker::PhantomData;
use core::ops::Sub;

macro_rules! ensure {
    ($cond:expr, $e:expr) => {
        if !($cond) {
            return Err(core::convert::From::from($e));
        }
    };
}
macro_rules! ensure_eq {
    ($a:expr, $b:expr, $e:expr) => {
        if !($a == $b) {
            return Err(core::convert::From::from($e));
        }
    };
}
macro_rules! ensure_ne {
    ($a:expr, $b:expr, $e:expr) => {
        if !($a != $b) {
            return Err(core::convert::From::from($e));
        }
    };
}

// attribute-only string formatting: the result is opaque (no property speaks about attributes)
macro_rules! format { ($($t:tt)*) => { fmt_opaque() } }

verus! {

#[verifier::external_body]
pub fn fmt_opaque() -> String { String::new() }

pub use core::cmp::Ordering;
pub use core::fmt;
// E2: qualified paths into dependency crates resolve against the flat namespace of this file
pub mod cosmwasm_std { pub use super::*; }
pub mod cw_utils { pub use super::*; }
pub mod cw_storage_plus { pub use super::*; }
pub mod cw2 { pub use super::*; }
pub mod cw3 { pub use super::*; }
pub mod cw_controllers { pub use super::*; }
// ... and so do `crate::<module>::Name` paths into the extracting crate's own modules
pub mod state { pub use super::*; }
pub mod msg { pub use super::*; }
pub mod error { pub use super::*; }
pub mod contract { pub use super::*; }
pub mod helpers { pub use super::*; }
pub type SMap<K, V> = vstd::map::Map<K, V>;
pub type Raw = vstd::map::Map<Seq<u8>, Seq<u8>>;

// ============================================================ errors
// StdError is opaque: only Err-ness is ever used by the contracts under proof.
pub struct OverflowError { pub k: u8 }
pub struct DivideByZeroError { pub k: u8 }
pub struct ConversionOverflowError { pub k: u8 }
pub enum StdError { GenericErr { k: u8 }, NotFound { k: u8 }, Overflow { source: OverflowError }, DivideByZero { k: u8 }, ParseErr { k: u8 }, Other { k: u8 } }
pub type StdResult<T> = Result<T, StdError>;
impl core::fmt::Debug for StdError { #[verifier::external_body] fn fmt(&self, f: &mut core::fmt::Formatter<'_>) -> core::fmt::Result { unimplemented!() } }
impl core::fmt::Display for StdError { #[verifier::external_body] fn fmt(&self, f: &mut core::fmt::Formatter<'_>) -> core::fmt::Result { unimplemented!() } }
impl StdError {
    #[verifier::external_body]
    pub fn generic_err(msg: impl Into<String>) -> (r: StdError) ensures r is GenericErr { unimplemented!() }
    #[verifier::external_body]
    pub fn not_found(kind: impl Into<String>) -> (r: StdError) ensures r is NotFound { unimplemented!() }
    pub fn overflow(source: OverflowError) -> (r: StdError) ensures r is Overflow { StdError::Overflow { source } }
}
impl FromSpecImpl<OverflowError> for StdError {
    open spec fn obeys_from_spec() -> bool { true }
    open spec fn from_spec(e: OverflowError) -> Self { StdError::Overflow { source: e } }
}
impl From<OverflowError> for StdError { fn from(e: OverflowError) -> (r: StdError) { StdError::Overflow { source: e } } }
impl FromSpecImpl<DivideByZeroError> for StdError {
    open spec fn obeys_from_spec() -> bool { true }
    open spec fn from_spec(e: DivideByZeroError) -> Self { StdError::DivideByZero { k: e.k } }
}
impl From<DivideByZeroError> for StdError { fn from(e: DivideByZeroError) -> (r: StdError) { StdError::DivideByZero { k: e.k } } }

// ============================================================ std adapters not in vstd
pub assume_specification<T: PartialEq> [ <[T]>::contains ] (s: &[T], x: &T) -> (r: bool)
    ensures r == exists|i: int| 0 <= i < s@.len() && s@[i] == *x;

pub assume_specification<T, E> [ Option::<Result<T, E>>::transpose ] (o: Option<Result<T, E>>) -> (r: Result<Option<T>, E>)
    ensures r == (match o { None => Ok::<Option<T>, E>(None), Some(Ok(x)) => Ok(Some(x)), Some(Err(e)) => Err(e) });

pub assume_specification<T, P: FnOnce(&T) -> bool> [ Option::<T>::filter ] (o: Option<T>, p: P) -> (r: Option<T>)
    requires o is Some ==> p.requires((&o->Some_0,))
    ensures r == (match o { Some(x) => if p.ensures((&x,), true) { Some(x) } else { None::<T> }, None => None::<T> }),
        o is Some ==> p.ensures((&o->Some_0,), true) || p.ensures((&o->Some_0,), false);

/// E17: `String == &str` (std `impl PartialEq<&str> for String`, which Verus cannot give a specification)
#[verifier::external_body]
pub fn string_eq_str(a: &String, b: &str) -> (r: bool) ensures r == (a@ == b@) { a == b }
pub assume_specification [ <String as PartialEq<str>>::eq ] (a: &String, b: &str) -> (r: bool)
    ensures r == (a@ == b@);

pub assume_specification<T: Ord + core::marker::Destruct> [ core::cmp::max ] (a: T, b: T) -> (r: T)
    ensures T::obeys_cmp_spec() ==> r == (if a.cmp_spec(&b) is Greater { a } else { b });

pub assume_specification<T: core::marker::Destruct, E: core::marker::Destruct, F: core::marker::Destruct> [ Result::<T, E>::or ] (a: Result<T, E>, b: Result<T, F>) -> (r: Result<T, F>)
    ensures r == (match a { Ok(x) => Ok::<T, F>(x), Err(_) => b });

pub assume_specification<T, E, F, O: FnOnce(E) -> Result<T, F>> [ Result::<T, E>::or_else ] (a: Result<T, E>, op: O) -> (r: Result<T, F>)
    requires a is Err ==> op.requires((a->Err_0,))
    ensures a is Ok ==> r == Ok::<T, F>(a->Ok_0), a is Err ==> op.ensures((a->Err_0,), r);

// str helpers whose results no contract depends on (uninterpreted results)
pub assume_specification [ str::trim ] (s: &str) -> (r: &str);

pub assume_specification [ String::into_bytes ] (s: String) -> (r: Vec<u8>)
    ensures r@ == utf8(s@);


#[verifier::external_body]
pub fn str_to_string(s: &str) -> (r: String) ensures r@ == s@ { s.to_string() }

// utf-8 encoding of a string: uninterpreted and injective
pub uninterp spec fn utf8(s: Seq<char>) -> Seq<u8>;
pub uninterp spec fn unutf8(b: Seq<u8>) -> Seq<char>;
pub broadcast axiom fn ax_utf8(s: Seq<char>) ensures unutf8(#[trigger] utf8(s)) == s;

pub open spec fn into_string_spec<T: Into<String>>(t: T) -> String { <T as IntoSpec<String>>::into_spec(t) }
pub broadcast axiom fn ax_vec_ext<T>(a: Vec<T>, b: Vec<T>)
    ensures #![trigger a@, b@] a@ == b@ ==> a == b;
pub broadcast axiom fn ax_string_ext(a: String, b: String)
    ensures #![trigger a@, b@] a@ == b@ ==> a == b;

// ============================================================ Uint128 / Uint64
#[derive(Clone, Copy)]
pub struct Uint128(pub u128);
impl View for Uint128 { type V = nat; open spec fn view(&self) -> nat { self.0 as nat } }
impl PartialEqSpecImpl for Uint128 {
    open spec fn obeys_eq_spec() -> bool { true }
    open spec fn eq_spec(&self, o: &Uint128) -> bool { self.0 == o.0 }
}
impl PartialEq for Uint128 { fn eq(&self, o: &Uint128) -> (r: bool) { self.0 == o.0 } }
impl Eq for Uint128 {}
impl PartialOrdSpecImpl for Uint128 {
    open spec fn obeys_partial_cmp_spec() -> bool { true }
    open spec fn partial_cmp_spec(&self, o: &Uint128) -> Option<core::cmp::Ordering> {
        if self.0 < o.0 { Some(core::cmp::Ordering::Less) } else if self.0 == o.0 { Some(core::cmp::Ordering::Equal) } else { Some(core::cmp::Ordering::Greater) }
    }
}
impl PartialOrd for Uint128 {
    fn partial_cmp(&self, o: &Uint128) -> (r: Option<core::cmp::Ordering>) {
        if self.0 < o.0 { Some(core::cmp::Ordering::Less) } else if self.0 == o.0 { Some(core::cmp::Ordering::Equal) } else { Some(core::cmp::Ordering::Greater) }
    }
}
impl OrdSpecImpl for Uint128 {
    open spec fn obeys_cmp_spec() -> bool { true }
    open spec fn cmp_spec(&self, o: &Uint128) -> core::cmp::Ordering {
        if self.0 < o.0 { core::cmp::Ordering::Less } else if self.0 == o.0 { core::cmp::Ordering::Equal } else { core::cmp::Ordering::Greater }
    }
}
impl Ord for Uint128 {
    fn cmp(&self, o: &Uint128) -> (r: core::cmp::Ordering) {
        if self.0 < o.0 { core::cmp::Ordering::Less } else if self.0 == o.0 { core::cmp::Ordering::Equal } else { core::cmp::Ordering::Greater }
    }
}
impl core::default::Default for Uint128 { fn default() -> (r: Self) ensures r.0 == 0 { Uint128(0) } }
impl Uint128 {
    pub const MAX: Uint128 = Uint128(u128::MAX);
    pub const fn new(v: u128) -> (r: Uint128) ensures r.0 == v { Uint128(v) }
    pub const fn zero() -> (r: Uint128) ensures r.0 == 0 { Uint128(0) }
    pub const fn one() -> (r: Uint128) ensures r.0 == 1 { Uint128(1) }
    pub const fn u128(&self) -> (r: u128) ensures r == self.0 { self.0 }
    pub fn is_zero(&self) -> (r: bool) ensures r == (self.0 == 0) { self.0 == 0 }
    pub fn checked_sub(self, o: Uint128) -> (r: Result<Uint128, OverflowError>)
        ensures self.0 >= o.0 ==> r is Ok && r->Ok_0.0 == self.0 - o.0,
                self.0 < o.0 ==> r is Err
    { if self.0 >= o.0 { Ok(Uint128(self.0 - o.0)) } else { Err(OverflowError { k: 1 }) } }
    pub fn checked_add(self, o: Uint128) -> (r: Result<Uint128, OverflowError>)
        ensures self.0 + o.0 <= u128::MAX ==> r is Ok && r->Ok_0.0 == self.0 + o.0,
                self.0 + o.0 > u128::MAX ==> r is Err
    { if self.0 <= u128::MAX - o.0 { Ok(Uint128(self.0 + o.0)) } else { Err(OverflowError { k: 0 }) } }
    pub fn saturating_sub(self, o: Uint128) -> (r: Uint128)
        ensures r.0 == (if self.0 >= o.0 { self.0 - o.0 } else { 0 })
    { if self.0 >= o.0 { Uint128(self.0 - o.0) } else { Uint128(0) } }
}
// `+`, `+=`, `-` panic on overflow in cosmwasm_std (a panic aborts the call, A1): partial-correctness
// contract -- the operator returns only if no overflow occurred, and then the result is exact.
impl AddSpecImpl<Uint128> for Uint128 {
    open spec fn obeys_add_spec() -> bool { true }
    open spec fn add_req(self, rhs: Uint128) -> bool { true }
    open spec fn add_spec(self, rhs: Uint128) -> Uint128 { Uint128((self.0 + rhs.0) as u128) }
}
impl core::ops::Add<Uint128> for Uint128 {
    type Output = Uint128;
    #[verifier::external_body]
    fn add(self, rhs: Uint128) -> (r: Uint128) ensures self.0 + rhs.0 <= u128::MAX { Uint128(self.0 + rhs.0) }
}
impl AddAssignSpecImpl<Uint128> for Uint128 {
    open spec fn obeys_add_assign_spec() -> bool { true }
    open spec fn add_assign_req(&self, rhs: Uint128) -> bool { true }
    open spec fn add_assign_spec(&self, rhs: Uint128) -> &Uint128 { &Uint128((self.0 + rhs.0) as u128) }
}
impl core::ops::AddAssign<Uint128> for Uint128 {
    #[verifier::external_body]
    fn add_assign(&mut self, rhs: Uint128)
        ensures old(self).0 + rhs.0 <= u128::MAX, final(self).0 == old(self).0 + rhs.0
    { self.0 += rhs.0 }
}
impl SubSpecImpl<Uint128> for Uint128 {
    open spec fn obeys_sub_spec() -> bool { true }
    open spec fn sub_req(self, rhs: Uint128) -> bool { true }
    open spec fn sub_spec(self, rhs: Uint128) -> Uint128 { Uint128((self.0 - rhs.0) as u128) }
}
impl core::ops::Sub<Uint128> for Uint128 {
    type Output = Uint128;
    #[verifier::external_body]
    fn sub(self, rhs: Uint128) -> (r: Uint128) ensures self.0 >= rhs.0 { Uint128(self.0 - rhs.0) }
}
impl core::fmt::Display for Uint128 { #[verifier::external_body] fn fmt(&self, f: &mut core::fmt::Formatter<'_>) -> core::fmt::Result { unimplemented!() } }
impl From<Uint128> for String { #[verifier::external_body] fn from(a: Uint128) -> String { unimplemented!() } }
impl From<u128> for Uint128 { fn from(a: u128) -> (r: Uint128) { Uint128(a) } }
impl FromSpecImpl<u128> for Uint128 { open spec fn obeys_from_spec() -> bool { true } open spec fn from_spec(a: u128) -> Self { Uint128(a) } }
impl From<u64> for Uint128 { fn from(a: u64) -> (r: Uint128) { Uint128(a as u128) } }
impl FromSpecImpl<u64> for Uint128 { open spec fn obeys_from_spec() -> bool { true } open spec fn from_spec(a: u64) -> Self { Uint128(a as u128) } }

#[derive(Clone, Copy)]
pub struct Uint64(pub u64);
impl View for Uint64 { type V = nat; open spec fn view(&self) -> nat { self.0 as nat } }
impl PartialEqSpecImpl for Uint64 {
    open spec fn obeys_eq_spec() -> bool { true }
    open spec fn eq_spec(&self, o: &Uint64) -> bool { self.0 == o.0 }
}
impl PartialEq for Uint64 { fn eq(&self, o: &Uint64) -> (r: bool) { self.0 == o.0 } }
impl Eq for Uint64 {}
impl PartialOrdSpecImpl for Uint64 {
    open spec fn obeys_partial_cmp_spec() -> bool { true }
    open spec fn partial_cmp_spec(&self, o: &Uint64) -> Option<core::cmp::Ordering> {
        if self.0 < o.0 { Some(core::cmp::Ordering::Less) } else if self.0 == o.0 { Some(core::cmp::Ordering::Equal) } else { Some(core::cmp::Ordering::Greater) }
    }
}
impl PartialOrd for Uint64 {
    fn partial_cmp(&self, o: &Uint64) -> (r: Option<core::cmp::Ordering>) {
        if self.0 < o.0 { Some(core::cmp::Ordering::Less) } else if self.0 == o.0 { Some(core::cmp::Ordering::Equal) } else { Some(core::cmp::Ordering::Greater) }
    }
}
impl OrdSpecImpl for Uint64 {
    open spec fn obeys_cmp_spec() -> bool { true }
    open spec fn cmp_spec(&self, o: &Uint64) -> core::cmp::Ordering {
        if self.0 < o.0 { core::cmp::Ordering::Less } else if self.0 == o.0 { core::cmp::Ordering::Equal } else { core::cmp::Ordering::Greater }
    }
}
impl Ord for Uint64 {
    fn cmp(&self, o: &Uint64) -> (r: core::cmp::Ordering) {
        if self.0 < o.0 { core::cmp::Ordering::Less } else if self.0 == o.0 { core::cmp::Ordering::Equal } else { core::cmp::Ordering::Greater }
    }
}
impl core::default::Default for Uint64 { fn default() -> (r: Self) ensures r.0 == 0 { Uint64(0) } }
impl Uint64 {
    pub const fn new(v: u64) -> (r: Uint64) ensures r.0 == v { Uint64(v) }
    pub const fn zero() -> (r: Uint64) ensures r.0 == 0 { Uint64(0) }
    pub const fn u64(&self) -> (r: u64) ensures r == self.0 { self.0 }
    pub fn checked_sub(self, o: Uint64) -> (r: Result<Uint64, OverflowError>)
        ensures self.0 >= o.0 ==> r is Ok && r->Ok_0.0 == self.0 - o.0,
                self.0 < o.0 ==> r is Err
    { if self.0 >= o.0 { Ok(Uint64(self.0 - o.0)) } else { Err(OverflowError { k: 1 }) } }
    pub fn checked_add(self, o: Uint64) -> (r: Result<Uint64, OverflowError>)
        ensures self.0 + o.0 <= u64::MAX ==> r is Ok && r->Ok_0.0 == self.0 + o.0,
                self.0 + o.0 > u64::MAX ==> r is Err
    { if self.0 <= u64::MAX - o.0 { Ok(Uint64(self.0 + o.0)) } else { Err(OverflowError { k: 0 }) } }
}
impl From<u64> for Uint64 { fn from(a: u64) -> (r: Uint64) { Uint64(a) } }
impl FromSpecImpl<u64> for Uint64 { open spec fn obeys_from_spec() -> bool { true } open spec fn from_spec(a: u64) -> Self { Uint64(a) } }

// ============================================================ Addr, Binary
#[verifier::external_body]
pub struct Addr(String);
impl View for Addr { type V = Seq<char>; uninterp spec fn view(&self) -> Seq<char>; }
pub broadcast axiom fn addr_ext(a: Addr, b: Addr)
    ensures #![trigger a.view(), b.view()] a.view() == b.view() ==> a == b;
impl PartialEqSpecImpl for Addr {
    open spec fn obeys_eq_spec() -> bool { true }
    open spec fn eq_spec(&self, other: &Addr) -> bool { self.view() == other.view() }
}
impl PartialEq for Addr { #[verifier::external_body] fn eq(&self, other: &Addr) -> (r: bool) { self.0 == other.0 } }
impl Eq for Addr {}
impl Clone for Addr { #[verifier::external_body] fn clone(&self) -> (r: Self) ensures r == *self { Addr(self.0.clone()) } }
impl Addr {
    #[verifier::external_body]
    pub fn unchecked(s: impl Into<String>) -> (r: Addr) { unimplemented!() }
    #[verifier::external_body]
    pub fn as_str(&self) -> (r: &str) ensures r@ == self@ { unimplemented!() }
    #[verifier::external_body]
    pub fn into_string(self) -> (r: String) ensures r@ == self@ { unimplemented!() }
    #[verifier::external_body]
    pub fn to_string(&self) -> (r: String) ensures r@ == self@ { unimplemented!() }
}
impl AsRef<str> for Addr { #[verifier::external_body] fn as_ref(&self) -> (r: &str) ensures r@ == self@ { unimplemented!() } }
impl FromSpecImpl<Addr> for String { open spec fn obeys_from_spec() -> bool { true } uninterp spec fn from_spec(a: Addr) -> Self; }
pub broadcast axiom fn ax_addr_to_string(a: Addr) ensures (#[trigger] <String as FromSpec<Addr>>::from_spec(a))@ == a@;
impl From<Addr> for String { #[verifier::external_body] fn from(a: Addr) -> (r: String) ensures r@ == a@ { a.0 } }
impl<'a> FromSpecImpl<&'a Addr> for String { open spec fn obeys_from_spec() -> bool { true } uninterp spec fn from_spec(a: &'a Addr) -> Self; }
pub broadcast axiom fn ax_addr_ref_to_string(a: &Addr) ensures (#[trigger] <String as FromSpec<&Addr>>::from_spec(a))@ == a@;
impl<'a> From<&'a Addr> for String { #[verifier::external_body] fn from(a: &'a Addr) -> (r: String) ensures r@ == a@ { a.0.clone() } }
// comparing Option<Addr>/&Addr with Addr (cosmwasm_std implements PartialEq<&Addr> for Addr and vice versa)
impl<'a> PartialEqSpecImpl<Addr> for &'a Addr {
    open spec fn obeys_eq_spec() -> bool { true }
    open spec fn eq_spec(&self, other: &Addr) -> bool { (**self).view() == other.view() }
}
impl<'a> PartialEq<Addr> for &'a Addr { #[verifier::external_body] fn eq(&self, other: &Addr) -> (r: bool) { unimplemented!() } }

// std conversions into String (not specified by vstd): identity / same characters
pub broadcast axiom fn ax_string_conv_obeys()
    ensures #[trigger] <String as FromSpec<String>>::obeys_from_spec(), <String as FromSpec<&String>>::obeys_from_spec(), <String as FromSpec<&str>>::obeys_from_spec();
pub broadcast axiom fn ax_string_from_string(s: String) ensures #[trigger] <String as FromSpec<String>>::from_spec(s) == s;
pub broadcast axiom fn ax_string_from_ref(s: &String) ensures #[trigger] <String as FromSpec<&String>>::from_spec(s) == *s;
pub broadcast axiom fn ax_string_from_str(s: &str) ensures (#[trigger] <String as FromSpec<&str>>::from_spec(s))@ == s@;
// std `impl From<String> for Vec<u8>`: the utf-8 bytes
pub broadcast axiom fn ax_bytes_from_string_obeys() ensures #[trigger] <Vec<u8> as FromSpec<String>>::obeys_from_spec();
pub broadcast axiom fn ax_bytes_from_string(s: String) ensures (#[trigger] <Vec<u8> as FromSpec<String>>::from_spec(s))@ == utf8(s@);
/// `Option::as_deref` (generic over `T: Deref`): the target is an uninterpreted function of the value, pinned for `String` (-> str) and `Vec<T>` (-> [T])
pub uninterp spec fn deref_of<T: core::ops::Deref>(t: T) -> &'static T::Target;
pub assume_specification<T: core::ops::Deref> [ <Option<T>>::as_deref ] (o: &Option<T>) -> (r: Option<&T::Target>)
    ensures r is Some <==> o is Some, o is Some ==> r->Some_0 == deref_of::<T>(o->Some_0);
pub broadcast axiom fn ax_deref_string(s: String) ensures (#[trigger] deref_of::<String>(s))@ == s@;
pub broadcast axiom fn ax_deref_vec<T>(v: Vec<T>) ensures (#[trigger] deref_of::<Vec<T>>(v))@ == v@;
pub broadcast group string_conv { ax_deref_string, ax_deref_vec, ax_bytes_from_string_obeys, ax_bytes_from_string, ax_string_conv_obeys, ax_string_from_string, ax_string_from_ref, ax_string_from_str, ax_addr_to_string, ax_addr_ref_to_string }

pub broadcast axiom fn ax_string_to_string(t: &String, s: String)
    ensures #[trigger] vstd::string::to_string_from_display_ensures::<String>(t, s) ==> s@ == t@;
// std `impl<T> From<T> for Option<T>` and identity on Option
pub broadcast axiom fn ax_opt_from_obeys<T>() ensures #[trigger] <Option<T> as FromSpec<T>>::obeys_from_spec();
pub broadcast axiom fn ax_opt_from<T>(t: T) ensures #[trigger] <Option<T> as FromSpec<T>>::from_spec(t) == Some(t);
pub broadcast axiom fn ax_opt_id_obeys<T>() ensures #[trigger] <Option<T> as FromSpec<Option<T>>>::obeys_from_spec();
pub broadcast axiom fn ax_opt_id<T>(t: Option<T>) ensures #[trigger] <Option<T> as FromSpec<Option<T>>>::from_spec(t) == t;
pub broadcast group opt_conv { ax_opt_from_obeys, ax_opt_from, ax_opt_id_obeys, ax_opt_id, ax_string_to_string }

/// E16: shim stand-in for the bound `AsRef<str>` (Verus cannot give `core::convert::AsRef` a specification here);
/// implemented for exactly the argument types the repository passes: &str, &String, String, &Addr, Addr
pub trait AsRefStr {
    spec fn str_view(&self) -> Seq<char>;
    fn as_ref(&self) -> (r: &str) ensures r@ == self.str_view();
}
impl<'a> AsRefStr for &'a str { open spec fn str_view(&self) -> Seq<char> { (**self)@ } fn as_ref(&self) -> (r: &str) { *self } }
impl<'a> AsRefStr for &'a String { open spec fn str_view(&self) -> Seq<char> { (**self)@ } fn as_ref(&self) -> (r: &str) { (*self).as_str() } }
impl AsRefStr for String { open spec fn str_view(&self) -> Seq<char> { self@ } fn as_ref(&self) -> (r: &str) { self.as_str() } }
impl<'a> AsRefStr for &'a Addr { open spec fn str_view(&self) -> Seq<char> { (**self)@ } fn as_ref(&self) -> (r: &str) { (*self).as_str() } }

pub struct Binary(pub Vec<u8>);
impl View for Binary { type V = Seq<u8>; open spec fn view(&self) -> Seq<u8> { self.0@ } }
impl Clone for Binary { #[verifier::external_body] fn clone(&self) -> (r: Self) ensures r == *self { unimplemented!() } }
pub broadcast axiom fn ax_binary_ext(a: Binary, b: Binary) ensures #![trigger a@, b@] a@ == b@ ==> a == b;

// ============================================================ Timestamp, BlockInfo, Env, MessageInfo
#[derive(Clone, Copy)]
pub struct Timestamp(pub Uint64);   // nanoseconds
impl Timestamp {
    pub open spec fn ns(self) -> nat { self.0.0 as nat }
    pub fn nanos(&self) -> (r: u64) ensures r == self.0.0 { self.0.0 }
    pub fn seconds(&self) -> (r: u64) ensures r == self.0.0 / 1_000_000_000 { self.0.0 / 1_000_000_000 }
    #[verifier::external_body]
    pub fn plus_seconds(&self, s: u64) -> (r: Timestamp)
        ensures self.0.0 + s * 1_000_000_000 <= u64::MAX, r.0.0 == self.0.0 + s * 1_000_000_000
    { unimplemented!() }
    pub fn from_nanos(n: u64) -> (r: Timestamp) ensures r.0.0 == n { Timestamp(Uint64(n)) }
}
impl PartialEqSpecImpl for Timestamp {
    open spec fn obeys_eq_spec() -> bool { true }
    open spec fn eq_spec(&self, o: &Timestamp) -> bool { self.0.0 == o.0.0 }
}
impl PartialEq for Timestamp { fn eq(&self, o: &Timestamp) -> (r: bool) { self.0.0 == o.0.0 } }
impl Eq for Timestamp {}
impl PartialOrdSpecImpl for Timestamp {
    open spec fn obeys_partial_cmp_spec() -> bool { true }
    open spec fn partial_cmp_spec(&self, o: &Timestamp) -> Option<core::cmp::Ordering> {
        if self.0.0 < o.0.0 { Some(core::cmp::Ordering::Less) } else if self.0.0 == o.0.0 { Some(core::cmp::Ordering::Equal) } else { Some(core::cmp::Ordering::Greater) }
    }
}
impl PartialOrd for Timestamp {
    fn partial_cmp(&self, o: &Timestamp) -> (r: Option<core::cmp::Ordering>) {
        if self.0.0 < o.0.0 { Some(core::cmp::Ordering::Less) } else if self.0.0 == o.0.0 { Some(core::cmp::Ordering::Equal) } else { Some(core::cmp::Ordering::Greater) }
    }
}
impl OrdSpecImpl for Timestamp {
    open spec fn obeys_cmp_spec() -> bool { true }
    open spec fn cmp_spec(&self, o: &Timestamp) -> core::cmp::Ordering {
        if self.0.0 < o.0.0 { core::cmp::Ordering::Less } else if self.0.0 == o.0.0 { core::cmp::Ordering::Equal } else { core::cmp::Ordering::Greater }
    }
}
impl Ord for Timestamp {
    fn cmp(&self, o: &Timestamp) -> (r: core::cmp::Ordering) {
        if self.0.0 < o.0.0 { core::cmp::Ordering::Less } else if self.0.0 == o.0.0 { core::cmp::Ordering::Equal } else { core::cmp::Ordering::Greater }
    }
}
pub struct BlockInfo { pub height: u64, pub time: Timestamp, pub chain_id: String }
pub struct ContractInfo { pub address: Addr }
pub struct Env { pub block: BlockInfo, pub contract: ContractInfo }
pub struct Coin { pub denom: String, pub amount: Uint128 }
impl Clone for Coin { #[verifier::external_body] fn clone(&self) -> (r: Self) ensures r == *self { unimplemented!() } }
impl PartialEqSpecImpl for Coin { open spec fn obeys_eq_spec() -> bool { true } open spec fn eq_spec(&self, o: &Coin) -> bool { *self == *o } }
impl PartialEq for Coin { #[verifier::external_body] fn eq(&self, o: &Coin) -> (r: bool) { unimplemented!() } }
#[verifier::external_body]
pub fn coin<D: Into<String>>(amount: u128, denom: D) -> (r: Coin)
    ensures r.amount.0 == amount, <D as IntoSpec<String>>::obeys_into_spec() ==> r.denom == into_string_spec(denom)
{ unimplemented!() }
/// cosmwasm_std::coins: a one-element vector
#[verifier::external_body]
pub fn coins<D: Into<String>>(amount: u128, denom: D) -> (r: Vec<Coin>)
    ensures r@.len() == 1, r@[0].amount.0 == amount, <D as IntoSpec<String>>::obeys_into_spec() ==> r@[0].denom == into_string_spec(denom)
{ unimplemented!() }
pub struct MessageInfo { pub sender: Addr, pub funds: Vec<Coin> }
pub struct Empty {}
impl Clone for Empty { fn clone(&self) -> (r: Self) ensures r == *self { Empty {} } }
impl PartialEqSpecImpl for Empty { open spec fn obeys_eq_spec() -> bool { true } open spec fn eq_spec(&self, o: &Empty) -> bool { true } }
impl PartialEq for Empty { fn eq(&self, o: &Empty) -> (r: bool) { true } }
impl core::fmt::Debug for Empty { #[verifier::external_body] fn fmt(&self, f: &mut core::fmt::Formatter<'_>) -> core::fmt::Result { unimplemented!() } }
pub trait JsonSchema {}
impl JsonSchema for Empty {}
pub trait CustomMsg {}
impl CustomMsg for Empty {}

// ============================================================ storage model (DESIGN 4.2)
pub trait Storage { spec fn view(&self) -> Raw; }
pub uninterp spec fn addr_ok(s: Seq<char>) -> bool;
pub trait Api {
    /// whether a string is accepted as an address is a fixed (deterministic, state-independent) property of the string (A: the chain's
    /// bech32 / MockApi validation is a pure function of the text)
    fn addr_validate(&self, human: &str) -> (r: StdResult<Addr>) ensures r is Ok ==> r->Ok_0@ == human@, r is Ok <==> addr_ok(human@);
}
pub trait CustomQuery {}
impl CustomQuery for Empty {}
/// the querier: `world()` is the state of all other contracts / modules at the time of this call (A5)
pub struct QuerierWrapper<'a, C = Empty> { pub q: &'a u8, pub _c: PhantomData<C> }
impl<'a, C> QuerierWrapper<'a, C> { pub uninterp spec fn world(&self) -> int; }
impl<'a, C> Clone for QuerierWrapper<'a, C> { fn clone(&self) -> (r: Self) ensures r == *self { QuerierWrapper { q: self.q, _c: PhantomData } } }
impl<'a, C> Copy for QuerierWrapper<'a, C> {}
pub struct DepsMut<'a> { pub storage: &'a mut dyn Storage, pub api: &'a dyn Api, pub querier: QuerierWrapper<'a> }
pub struct Deps<'a> { pub storage: &'a dyn Storage, pub api: &'a dyn Api, pub querier: QuerierWrapper<'a> }
impl<'a> Clone for Deps<'a> { fn clone(&self) -> (r: Self) ensures r == *self { Deps { storage: self.storage, api: self.api, querier: self.querier } } }
impl<'a> Copy for Deps<'a> {}
impl<'a> DepsMut<'a> {
    #[verifier::external_body]
    pub fn branch(&mut self) -> (r: DepsMut<'_>)
        ensures r.storage.view() == old(self).storage.view(),
                final(self).storage.view() == final(r.storage).view(),
                final(final(self).storage).view() == final(old(self).storage).view(),
                r.api == old(self).api, final(self).api == old(self).api,
                r.querier == old(self).querier, final(self).querier == old(self).querier,
    { unimplemented!() }
    #[verifier::external_body]
    pub fn as_ref(&self) -> (r: Deps<'_>)
        ensures r.storage.view() == old(self.storage).view(), r.api == self.api, r.querier == self.querier
    { unimplemented!() }
}

// key encodings: uninterpreted, injective
pub trait KeyT: Sized { spec fn kb(self) -> Seq<u8>; }
pub uninterp spec fn pair_kb(a: Seq<u8>, b: Seq<u8>) -> Seq<u8>;
pub uninterp spec fn unpair_kb(p: Seq<u8>) -> (Seq<u8>, Seq<u8>);
pub broadcast axiom fn ax_pair_kb(a: Seq<u8>, b: Seq<u8>) ensures unpair_kb(#[trigger] pair_kb(a, b)) == (a, b);
pub uninterp spec fn u64_kb(v: u64) -> Seq<u8>;
pub uninterp spec fn u64_unkb(b: Seq<u8>) -> u64;
pub broadcast axiom fn ax_u64_kb(v: u64) ensures u64_unkb(#[trigger] u64_kb(v)) == v;
impl<'a> KeyT for &'a Addr { open spec fn kb(self) -> Seq<u8> { utf8(self@) } }
impl<'a> KeyT for &'a str { open spec fn kb(self) -> Seq<u8> { utf8(self@) } }
impl KeyT for u64 { open spec fn kb(self) -> Seq<u8> { u64_kb(self) } }
impl<A: KeyT, B: KeyT> KeyT for (A, B) { open spec fn kb(self) -> Seq<u8> { pair_kb(self.0.kb(), self.1.kb()) } }

// value encodings: uninterpreted, total, injective (A7)
pub trait SerT: Sized { spec fn ser(self) -> Seq<u8>; spec fn de(b: Seq<u8>) -> Option<Self>; }
pub broadcast axiom fn ax_ser<V: SerT>(v: V) ensures V::de(#[trigger] v.ser()) == Some(v);
pub uninterp spec fn u128_ser(v: u128) -> Seq<u8>;
pub uninterp spec fn u128_de(b: Seq<u8>) -> Option<u128>;
pub broadcast axiom fn ax_u128_ser(v: u128) ensures u128_de(#[trigger] u128_ser(v)) == Some(v);
impl SerT for Uint128 {
    open spec fn ser(self) -> Seq<u8> { u128_ser(self.0) }
    open spec fn de(b: Seq<u8>) -> Option<Self> { match u128_de(b) { Some(v) => Some(Uint128(v)), None => None } }
}
pub uninterp spec fn u64_ser(v: u64) -> Seq<u8>;
pub uninterp spec fn u64_de(b: Seq<u8>) -> Option<u64>;
pub broadcast axiom fn ax_u64_ser(v: u64) ensures u64_de(#[trigger] u64_ser(v)) == Some(v);
impl SerT for u64 {
    open spec fn ser(self) -> Seq<u8> { u64_ser(self) }
    open spec fn de(b: Seq<u8>) -> Option<Self> { u64_de(b) }
}

// storage paths: (namespace, key bytes) -> raw key, injective
pub uninterp spec fn path(ns: Seq<char>, k: Seq<u8>) -> Seq<u8>;
pub uninterp spec fn unpath(p: Seq<u8>) -> (Seq<char>, Seq<u8>);
pub broadcast axiom fn ax_path(ns: Seq<char>, k: Seq<u8>) ensures unpath(#[trigger] path(ns, k)) == (ns, k);
pub open spec fn item_key(ns: Seq<char>) -> Seq<u8> { path(ns, Seq::<u8>::empty()) }

pub open spec fn raw_get<V: SerT>(s: Raw, k: Seq<u8>) -> Option<V> {
    if s.contains_key(k) { V::de(s[k]) } else { None }
}

// ---- Item
pub struct Item<V> { pub ns: &'static str, pub _v: PhantomData<V> }
impl<V: SerT> Item<V> {
    pub const fn new(ns: &'static str) -> (r: Self) ensures r.ns@ == ns@ { Item { ns, _v: PhantomData } }
    pub open spec fn key(&self) -> Seq<u8> { item_key(self.ns@) }
    pub open spec fn get(&self, s: Raw) -> Option<V> { raw_get::<V>(s, self.key()) }
    #[verifier::external_body]
    pub fn save(&self, store: &mut dyn Storage, data: &V) -> (r: StdResult<()>)
        ensures r is Ok, final(store).view() == old(store).view().insert(self.key(), data.ser()),
    { unimplemented!() }
    #[verifier::external_body]
    pub fn remove(&self, store: &mut dyn Storage)
        ensures final(store).view() == old(store).view().remove(self.key()),
    { unimplemented!() }
    #[verifier::external_body]
    pub fn load(&self, store: &dyn Storage) -> (r: StdResult<V>)
        ensures r is Ok <==> self.get(store.view()) is Some,
                r is Ok ==> Some(r->Ok_0) == self.get(store.view()),
    { unimplemented!() }
    #[verifier::external_body]
    pub fn may_load(&self, store: &dyn Storage) -> (r: StdResult<Option<V>>)
        ensures r is Ok ==> r->Ok_0 == self.get(store.view()),
                r is Err ==> store.view().contains_key(self.key()) && self.get(store.view()) is None,
    { unimplemented!() }
    #[verifier::external_body]
    pub fn exists(&self, store: &dyn Storage) -> (r: bool)
        ensures r == store.view().contains_key(self.key())
    { unimplemented!() }
    /// load, apply, save. On Err the store is unchanged.
    #[verifier::external_body]
    pub fn update<A: FnOnce(V) -> Result<V, E>, E: From<StdError>>(&self, store: &mut dyn Storage, action: A) -> (r: Result<V, E>)
        requires self.get(old(store).view()) is Some ==> action.requires((self.get(old(store).view())->Some_0,)),
        ensures
            r is Ok ==> self.get(old(store).view()) is Some
                    && action.ensures((self.get(old(store).view())->Some_0,), r)
                    && final(store).view() == old(store).view().insert(self.key(), r->Ok_0.ser()),
            r is Err ==> final(store).view() == old(store).view(),
    { unimplemented!() }
}

// ---- Map
pub struct Map<K, V> { pub ns: &'static str, pub _k: PhantomData<K>, pub _v: PhantomData<V> }
impl<K: KeyT, V: SerT> Map<K, V> {
    pub const fn new(ns: &'static str) -> (r: Self) ensures r.ns@ == ns@ { Map { ns, _k: PhantomData, _v: PhantomData } }
    pub open spec fn rawkey(&self, k: K) -> Seq<u8> { path(self.ns@, k.kb()) }
    pub open spec fn get(&self, s: Raw, k: K) -> Option<V> { raw_get::<V>(s, self.rawkey(k)) }
    #[verifier::external_body]
    pub fn save(&self, store: &mut dyn Storage, k: K, data: &V) -> (r: StdResult<()>)
        ensures r is Ok, final(store).view() == old(store).view().insert(self.rawkey(k), data.ser()),
    { unimplemented!() }
    #[verifier::external_body]
    pub fn remove(&self, store: &mut dyn Storage, k: K)
        ensures final(store).view() == old(store).view().remove(self.rawkey(k)),
    { unimplemented!() }
    #[verifier::external_body]
    pub fn load(&self, store: &dyn Storage, k: K) -> (r: StdResult<V>)
        ensures r is Ok <==> self.get(store.view(), k) is Some,
                r is Ok ==> Some(r->Ok_0) == self.get(store.view(), k),
    { unimplemented!() }
    #[verifier::external_body]
    pub fn may_load(&self, store: &dyn Storage, k: K) -> (r: StdResult<Option<V>>)
        ensures r is Ok ==> r->Ok_0 == self.get(store.view(), k),
                r is Err ==> store.view().contains_key(self.rawkey(k)) && self.get(store.view(), k) is None,
    { unimplemented!() }
    #[verifier::external_body]
    pub fn has(&self, store: &dyn Storage, k: K) -> (r: bool)
        ensures r == store.view().contains_key(self.rawkey(k))
    { unimplemented!() }
    /// cw-storage-plus Map::update: may_load, apply, save. Parse errors -> Err. On Err nothing is written.
    #[verifier::external_body]
    pub fn update<A: FnOnce(Option<V>) -> Result<V, E>, E: From<StdError>>(&self, store: &mut dyn Storage, k: K, action: A) -> (r: Result<V, E>)
        requires action.requires((self.get(old(store).view(), k),)),
        ensures
            r is Ok ==> action.ensures((self.get(old(store).view(), k),), r)
                    && (old(store).view().contains_key(self.rawkey(k)) ==> self.get(old(store).view(), k) is Some)
                    && final(store).view() == old(store).view().insert(self.rawkey(k), r->Ok_0.ser()),
            r is Err ==> final(store).view() == old(store).view(),
            // an error is either a value that does not parse or the action's own error
            r is Err ==> (old(store).view().contains_key(self.rawkey(k)) && self.get(old(store).view(), k) is None)
                    || action.ensures((self.get(old(store).view(), k),), r),
    { unimplemented!() }
}

// ============================================================ sums over raw storage
pub open spec fn sum_w(s: Raw, w: spec_fn(Seq<u8>, Seq<u8>) -> nat) -> nat
    decreases s.dom().len()
{
    if s.dom().len() == 0 { 0 } else {
        let k = s.dom().choose();
        w(k, s[k]) + sum_w(s.remove(k), w)
    }
}
pub proof fn lemma_sum_remove(s: Raw, w: spec_fn(Seq<u8>, Seq<u8>) -> nat, k: Seq<u8>)
    requires s.contains_key(k)
    ensures sum_w(s, w) == w(k, s[k]) + sum_w(s.remove(k), w)
    decreases s.dom().len()
{
    let c = s.dom().choose();
    if c == k { } else {
        lemma_sum_remove(s.remove(c), w, k);
        assert(s.remove(c).remove(k) =~= s.remove(k).remove(c));
        lemma_sum_remove(s.remove(k), w, c);
    }
}
pub broadcast proof fn lemma_sum_insert(s: Raw, w: spec_fn(Seq<u8>, Seq<u8>) -> nat, k: Seq<u8>, v: Seq<u8>)
    ensures #[trigger] sum_w(s.insert(k, v), w) + (if s.contains_key(k) { w(k, s[k]) } else { 0 }) == sum_w(s, w) + w(k, v)
{
    let s2 = s.insert(k, v);
    lemma_sum_remove(s2, w, k);
    assert(s2.remove(k) =~= s.remove(k));
    if s.contains_key(k) { lemma_sum_remove(s, w, k); } else { assert(s.remove(k) =~= s); }
}
pub broadcast proof fn lemma_sum_remove_b(s: Raw, w: spec_fn(Seq<u8>, Seq<u8>) -> nat, k: Seq<u8>)
    ensures #[trigger] sum_w(s.remove(k), w) + (if s.contains_key(k) { w(k, s[k]) } else { 0 }) == sum_w(s, w)
{
    if s.contains_key(k) { lemma_sum_remove(s, w, k); } else { assert(s.remove(k) =~= s); }
}
pub proof fn lemma_sum_le(s: Raw, w1: spec_fn(Seq<u8>, Seq<u8>) -> nat, w2: spec_fn(Seq<u8>, Seq<u8>) -> nat)
    requires forall|k: Seq<u8>| s.contains_key(k) ==> #[trigger] w1(k, s[k]) <= w2(k, s[k])
    ensures sum_w(s, w1) <= sum_w(s, w2)
    decreases s.dom().len()
{
    if s.dom().len() != 0 {
        let c = s.dom().choose();
        lemma_sum_le(s.remove(c), w1, w2);
    }
}
pub proof fn lemma_sum_eq(s: Raw, w1: spec_fn(Seq<u8>, Seq<u8>) -> nat, w2: spec_fn(Seq<u8>, Seq<u8>) -> nat)
    requires forall|k: Seq<u8>| s.contains_key(k) ==> #[trigger] w1(k, s[k]) == w2(k, s[k])
    ensures sum_w(s, w1) == sum_w(s, w2)
{
    lemma_sum_le(s, w1, w2); lemma_sum_le(s, w2, w1);
}
/// two weight functions that agree on every key of `s` except `k0`
pub proof fn lemma_sum_change_one(s: Raw, w1: spec_fn(Seq<u8>, Seq<u8>) -> nat, w2: spec_fn(Seq<u8>, Seq<u8>) -> nat, k0: Seq<u8>)
    requires forall|k: Seq<u8>| s.contains_key(k) && k != k0 ==> #[trigger] w1(k, s[k]) == w2(k, s[k])
    ensures sum_w(s, w2) + (if s.contains_key(k0) { w1(k0, s[k0]) } else { 0 }) == sum_w(s, w1) + (if s.contains_key(k0) { w2(k0, s[k0]) } else { 0 })
{
    if s.contains_key(k0) {
        lemma_sum_remove(s, w1, k0); lemma_sum_remove(s, w2, k0);
        lemma_sum_eq(s.remove(k0), w1, w2);
    } else {
        lemma_sum_eq(s, w1, w2);
    }
}
pub proof fn lemma_sum_zero(s: Raw, w: spec_fn(Seq<u8>, Seq<u8>) -> nat)
    requires forall|k: Seq<u8>| s.contains_key(k) ==> #[trigger] w(k, s[k]) == 0
    ensures sum_w(s, w) == 0
    decreases s.dom().len()
{
    if s.dom().len() != 0 { let c = s.dom().choose(); lemma_sum_zero(s.remove(c), w); }
}
// one element never exceeds the sum
pub proof fn lemma_sum_ge_one(s: Raw, w: spec_fn(Seq<u8>, Seq<u8>) -> nat, k: Seq<u8>)
    requires s.contains_key(k)
    ensures w(k, s[k]) <= sum_w(s, w)
{ lemma_sum_remove(s, w, k); }
// two distinct elements together never exceed the sum
pub proof fn lemma_sum_ge_two(s: Raw, w: spec_fn(Seq<u8>, Seq<u8>) -> nat, k1: Seq<u8>, k2: Seq<u8>)
    requires s.contains_key(k1), s.contains_key(k2), k1 != k2
    ensures w(k1, s[k1]) + w(k2, s[k2]) <= sum_w(s, w)
{ lemma_sum_remove(s, w, k1); lemma_sum_remove(s.remove(k1), w, k2); }

// weight of a u128-valued namespace (token balances and the like)
pub open spec fn w_u128(ns: Seq<char>) -> spec_fn(Seq<u8>, Seq<u8>) -> nat {
    |k: Seq<u8>, v: Seq<u8>| if unpath(k).0 == ns { match u128_de(v) { Some(x) => x as nat, None => 0nat } } else { 0nat }
}

// ============================================================ messages and Response
pub enum BankMsg { Send { to_address: String, amount: Vec<Coin> }, Burn { amount: Vec<Coin> } }
pub enum WasmMsg {
    Execute { contract_addr: String, msg: Binary, funds: Vec<Coin> },
    Instantiate { admin: Option<String>, code_id: u64, msg: Binary, funds: Vec<Coin>, label: String },
    Migrate { contract_addr: String, new_code_id: u64, msg: Binary },
    UpdateAdmin { contract_addr: String, admin: String },
    ClearAdmin { contract_addr: String },
}
pub enum StakingMsg {
    Delegate { validator: String, amount: Coin },
    Undelegate { validator: String, amount: Coin },
    Redelegate { src_validator: String, dst_validator: String, amount: Coin },
}
pub enum DistributionMsg {
    SetWithdrawAddress { address: String },
    WithdrawDelegatorReward { validator: String },
    FundCommunityPool { amount: Vec<Coin> },
}
pub struct IbcTimeoutBlock { pub revision: u64, pub height: u64 }
pub struct IbcTimeout { pub block: Option<IbcTimeoutBlock>, pub timestamp: Option<Timestamp> }
impl FromSpecImpl<Timestamp> for IbcTimeout {
    open spec fn obeys_from_spec() -> bool { true }
    open spec fn from_spec(t: Timestamp) -> Self { IbcTimeout { block: None, timestamp: Some(t) } }
}
impl From<Timestamp> for IbcTimeout { fn from(t: Timestamp) -> (r: IbcTimeout) { IbcTimeout { block: None, timestamp: Some(t) } } }
pub enum IbcMsg {
    Transfer { channel_id: String, to_address: String, amount: Coin, timeout: IbcTimeout },
    SendPacket { channel_id: String, data: Binary, timeout: IbcTimeout },
    CloseChannel { channel_id: String },
}
pub enum GovMsg { Vote { proposal_id: u64, vote: u8 } }
pub enum CosmosMsg<T = Empty> {
    Bank(BankMsg), Custom(T), Staking(StakingMsg), Distribution(DistributionMsg),
    Stargate { type_url: String, value: Binary }, Ibc(IbcMsg), Wasm(WasmMsg), Gov(GovMsg),
}
impl<T> Clone for CosmosMsg<T> { #[verifier::external_body] fn clone(&self) -> (r: Self) ensures r == *self { unimplemented!() } }
impl<T> FromSpecImpl<BankMsg> for CosmosMsg<T> { open spec fn obeys_from_spec() -> bool { true } open spec fn from_spec(m: BankMsg) -> Self { CosmosMsg::Bank(m) } }
impl<T> From<BankMsg> for CosmosMsg<T> { fn from(m: BankMsg) -> (r: Self) { CosmosMsg::Bank(m) } }
impl<T> FromSpecImpl<WasmMsg> for CosmosMsg<T> { open spec fn obeys_from_spec() -> bool { true } open spec fn from_spec(m: WasmMsg) -> Self { CosmosMsg::Wasm(m) } }
impl<T> From<WasmMsg> for CosmosMsg<T> { fn from(m: WasmMsg) -> (r: Self) { CosmosMsg::Wasm(m) } }
impl<T> FromSpecImpl<StakingMsg> for CosmosMsg<T> { open spec fn obeys_from_spec() -> bool { true } open spec fn from_spec(m: StakingMsg) -> Self { CosmosMsg::Staking(m) } }
impl<T> From<StakingMsg> for CosmosMsg<T> { fn from(m: StakingMsg) -> (r: Self) { CosmosMsg::Staking(m) } }
impl<T> FromSpecImpl<DistributionMsg> for CosmosMsg<T> { open spec fn obeys_from_spec() -> bool { true } open spec fn from_spec(m: DistributionMsg) -> Self { CosmosMsg::Distribution(m) } }
impl<T> From<DistributionMsg> for CosmosMsg<T> { fn from(m: DistributionMsg) -> (r: Self) { CosmosMsg::Distribution(m) } }
impl<T> FromSpecImpl<IbcMsg> for CosmosMsg<T> { open spec fn obeys_from_spec() -> bool { true } open spec fn from_spec(m: IbcMsg) -> Self { CosmosMsg::Ibc(m) } }
impl<T> From<IbcMsg> for CosmosMsg<T> { fn from(m: IbcMsg) -> (r: Self) { CosmosMsg::Ibc(m) } }

// identity conversion (std `impl<T> From<T> for T`) for messages
pub broadcast axiom fn ax_cosmos_id_obeys<T>() ensures #[trigger] <CosmosMsg<T> as FromSpec<CosmosMsg<T>>>::obeys_from_spec();
pub broadcast axiom fn ax_cosmos_id<T>(m: CosmosMsg<T>) ensures #[trigger] <CosmosMsg<T> as FromSpec<CosmosMsg<T>>>::from_spec(m) == m;
pub broadcast group msg_conv { ax_cosmos_id_obeys, ax_cosmos_id }

pub enum ReplyOn { Always, Error, Success, Never }
pub struct SubMsg<T = Empty> { pub id: u64, pub msg: CosmosMsg<T>, pub gas_limit: Option<u64>, pub reply_on: ReplyOn }
impl<T> SubMsg<T> {
    pub open spec fn new_spec(msg: CosmosMsg<T>) -> SubMsg<T> { SubMsg { id: 0, msg, gas_limit: None, reply_on: ReplyOn::Never } }
    pub fn new<M: Into<CosmosMsg<T>>>(msg: M) -> (r: SubMsg<T>)
        ensures <M as IntoSpec<CosmosMsg<T>>>::obeys_into_spec() ==> r == Self::new_spec(<M as IntoSpec<CosmosMsg<T>>>::into_spec(msg))
    { SubMsg { id: 0, msg: msg.into(), gas_limit: None, reply_on: ReplyOn::Never } }
    pub fn reply_on_error<M: Into<CosmosMsg<T>>>(msg: M, id: u64) -> (r: SubMsg<T>)
        ensures <M as IntoSpec<CosmosMsg<T>>>::obeys_into_spec() ==> r == (SubMsg { id, msg: <M as IntoSpec<CosmosMsg<T>>>::into_spec(msg), gas_limit: None, reply_on: ReplyOn::Error })
    { SubMsg { id, msg: msg.into(), gas_limit: None, reply_on: ReplyOn::Error } }
    pub fn with_gas_limit(self, limit: u64) -> (r: SubMsg<T>)
        ensures r == (SubMsg { gas_limit: Some(limit), ..self })
    { SubMsg { id: self.id, msg: self.msg, gas_limit: Some(limit), reply_on: self.reply_on } }
}
pub open spec fn submsgs_of<T>(msgs: Seq<CosmosMsg<T>>) -> Seq<SubMsg<T>> {
    msgs.map_values(|m: CosmosMsg<T>| SubMsg::<T>::new_spec(m))
}

pub struct Attribute { pub k: u8 }
#[verifier::external_body]
pub fn attr(key: impl Into<String>, value: impl Into<String>) -> Attribute { unimplemented!() }

// Response: attributes and events are carried but their contents are not modelled (no property speaks about them)
pub struct Response<T = Empty> { pub messages: Vec<SubMsg<T>>, pub attributes: Vec<Attribute>, pub data: Option<Binary> }
impl<T> Response<T> {
    pub fn new() -> (r: Self) ensures r.messages@ == Seq::<SubMsg<T>>::empty(), r.data is None { Response { messages: Vec::new(), attributes: Vec::new(), data: None } }
    #[verifier::external_body]
    pub fn add_attribute(self, key: impl Into<String>, value: impl Into<String>) -> (r: Self) ensures r.messages == self.messages, r.data == self.data { unimplemented!() }
    #[verifier::external_body]
    pub fn add_attributes(self, attrs: Vec<Attribute>) -> (r: Self) ensures r.messages == self.messages, r.data == self.data { unimplemented!() }
    #[verifier::external_body]
    pub fn add_message<M: Into<CosmosMsg<T>>>(self, msg: M) -> (r: Self)
        ensures <M as IntoSpec<CosmosMsg<T>>>::obeys_into_spec() ==> r.messages@ == self.messages@.push(SubMsg::<T>::new_spec(<M as IntoSpec<CosmosMsg<T>>>::into_spec(msg))),
                r.data == self.data
    { unimplemented!() }
    #[verifier::external_body]
    pub fn add_messages(self, msgs: Vec<CosmosMsg<T>>) -> (r: Self)
        ensures r.messages@ == self.messages@ + submsgs_of(msgs@), r.data == self.data
    { unimplemented!() }
    #[verifier::external_body]
    pub fn add_submessage(self, msg: SubMsg<T>) -> (r: Self)
        ensures r.messages@ == self.messages@.push(msg), r.data == self.data
    { unimplemented!() }
    #[verifier::external_body]
    pub fn add_submessages(self, msgs: Vec<SubMsg<T>>) -> (r: Self)
        ensures r.messages@ == self.messages@ + msgs@, r.data == self.data
    { unimplemented!() }
}
impl<T> core::default::Default for Response<T> {
    fn default() -> (r: Self) ensures r.messages@ == Seq::<SubMsg<T>>::empty(), r.data is None { Response { messages: Vec::new(), attributes: Vec::new(), data: None } }
}

// serialization of messages (A7): total, injective, otherwise uninterpreted
pub trait JsonT: Sized { spec fn json(self) -> Seq<u8>; spec fn unjson(b: Seq<u8>) -> Option<Self>; }
pub broadcast axiom fn ax_json<V: JsonT>(v: V) ensures V::unjson(#[trigger] v.json()) == Some(v);
#[verifier::external_body]
pub fn to_json_binary<V: JsonT>(v: &V) -> (r: StdResult<Binary>) ensures r is Ok, r->Ok_0@ == v.json() { unimplemented!() }
/// stand-in for the bound `impl AsRef<[u8]>` of cosmwasm_std::from_json (Binary and &Binary are what the repository passes)
pub trait AsBytes { spec fn bytes_view(&self) -> Seq<u8>; }
impl AsBytes for Binary { open spec fn bytes_view(&self) -> Seq<u8> { self@ } }
impl<'a> AsBytes for &'a Binary { open spec fn bytes_view(&self) -> Seq<u8> { (**self)@ } }
#[verifier::external_body]
pub fn from_json<V: JsonT, B: AsBytes>(b: B) -> (r: StdResult<V>)
    ensures r is Ok <==> V::unjson(b.bytes_view()) is Some, r is Ok ==> Some(r->Ok_0) == V::unjson(b.bytes_view())
{ unimplemented!() }

} // verus!
