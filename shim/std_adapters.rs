// shim/std_adapters.rs -- E11: std iterator-adapter chains on std collections, as functions with ASSUMED std semantics.
// The generator rewrites the listed call sites (`v.iter().map(f).sum()` ...) to these functions; see DESIGN.md 3.2 E11.
verus! {

/// E8: primitive u64 `+` / `-` whose overflow is a panic (abort, A1; Cargo.toml sets overflow-checks = true for release):
/// partial-correctness contract -- the function returns only if no overflow occurred, and then the result is exact.
#[verifier::external_body]
pub fn rt_add_u64(a: u64, b: u64) -> (r: u64) ensures a + b <= u64::MAX, r == a + b { a + b }
#[verifier::external_body]
pub fn rt_sub_u64(a: u64, b: u64) -> (r: u64) ensures a >= b, r == a - b { a - b }

/// u128 `/` panics on a zero divisor (abort, A1): partial-correctness contract
#[verifier::external_body]
pub fn rt_div_u128(a: u128, b: u128) -> (r: u128) ensures b != 0, r == a / b { a / b }

pub open spec fn seq_sum_u64(ws: Seq<u64>) -> nat decreases ws.len() {
    if ws.len() == 0 { 0 } else { seq_sum_u64(ws.drop_last()) + ws.last() as nat }
}
/// `v.iter().map(f).sum::<u64>()`; u64 `Sum` panics on overflow when overflow checks are on (Cargo.toml: overflow-checks = true)
#[verifier::external_body]
pub fn it_map_sum_u64<T, F: Fn(&T) -> u64>(v: &Vec<T>, f: F) -> (r: u64)
    requires forall|i: int| 0 <= i < v@.len() ==> f.requires((&v@[i],))
    ensures exists|ws: Seq<u64>| #![auto] ws.len() == v@.len() && (forall|i: int| 0 <= i < v@.len() ==> f.ensures((&v@[i],), ws[i])) && seq_sum_u64(ws) == r
{ unimplemented!() }

/// `v.iter().any(f)`
#[verifier::external_body]
pub fn it_any<T, F: Fn(&T) -> bool>(v: &Vec<T>, f: F) -> (r: bool)
    requires forall|i: int| 0 <= i < v@.len() ==> f.requires((&v@[i],))
    ensures r == exists|i: int| 0 <= i < v@.len() && f.ensures((&v@[i],), true),
        !r ==> forall|i: int| 0 <= i < v@.len() ==> f.ensures((&v@[i],), false)
{ unimplemented!() }

} // verus!
verus! {
/// `v.iter().map(f).collect::<Result<Vec<_>, E>>()` on a slice: all elements mapped in order, first error returned
#[verifier::external_body]
pub fn it_try_map<T, U, E, F: Fn(&T) -> Result<U, E>>(v: &[T], f: F) -> (r: Result<Vec<U>, E>)
    requires forall|i: int| 0 <= i < v@.len() ==> f.requires((&v@[i],))
    ensures r is Ok ==> r->Ok_0@.len() == v@.len() && forall|i: int| 0 <= i < v@.len() ==> f.ensures((&v@[i],), Ok(#[trigger] r->Ok_0@[i]))
{ unimplemented!() }
/// `v.into_iter().map(f).collect::<Vec<_>>()`
#[verifier::external_body]
pub fn it_into_map<T, U, F: Fn(T) -> U>(v: Vec<T>, f: F) -> (r: Vec<U>)
    requires forall|i: int| 0 <= i < v@.len() ==> f.requires((v@[i],))
    ensures r@.len() == v@.len() && forall|i: int| 0 <= i < v@.len() ==> f.ensures((v@[i],), #[trigger] r@[i])
{ unimplemented!() }
} // verus!
verus! {
/// `v.iter().map(f).collect::<Vec<_>>()` on a slice (elements mapped in order)
#[verifier::external_body]
pub fn it_map_collect<'a, T, U, F: Fn(&'a T) -> U>(v: &'a [T], f: F) -> (r: Vec<U>)
    requires forall|i: int| 0 <= i < v@.len() ==> f.requires((&v@[i],))
    ensures r@.len() == v@.len() && forall|i: int| 0 <= i < v@.len() ==> f.ensures((&v@[i],), #[trigger] r@[i])
{ unimplemented!() }

/// total order on strings (`Ord for String`: lexicographic by bytes; only its order axioms are used)
pub uninterp spec fn str_le(a: Seq<char>, b: Seq<char>) -> bool;
pub broadcast axiom fn ax_str_le_antisym(a: Seq<char>, b: Seq<char>) ensures #[trigger] str_le(a, b) && #[trigger] str_le(b, a) ==> a == b;
pub broadcast axiom fn ax_str_le_trans(a: Seq<char>, b: Seq<char>, c: Seq<char>) ensures #[trigger] str_le(a, b) && #[trigger] str_le(b, c) ==> str_le(a, c);
/// `p` is a bijection of 0..n
pub open spec fn is_perm(p: Seq<int>, n: int) -> bool {
    p.len() == n && (forall|i: int| 0 <= i < n ==> 0 <= #[trigger] p[i] < n)
    && (forall|i: int, j: int| 0 <= i < j < n ==> p[i] != p[j])
    && (forall|a: int| 0 <= a < n ==> #[trigger] perm_hits(p, n, a))
}
pub open spec fn perm_hits(p: Seq<int>, n: int, a: int) -> bool { exists|i: int| 0 <= i < n && #[trigger] p[i] == a }
/// `Vec<&String>::sort()` (slice::sort, stable): the result is a permutation of the input, ascending in `str_le`
#[verifier::external_body]
pub fn vec_sort_strs(v: &mut Vec<&String>)
    ensures exists|p: Seq<int>| is_perm(p, old(v)@.len() as int) && final(v)@.len() == old(v)@.len()
            && forall|i: int| 0 <= i < final(v)@.len() ==> #[trigger] final(v)@[i] == old(v)@[p[i]],
        forall|i: int, j: int| 0 <= i <= j < final(v)@.len() ==> str_le(#[trigger] final(v)@[i]@, #[trigger] final(v)@[j]@),
{ unimplemented!() }
/// consecutive equal elements collapsed to the first of each run
pub open spec fn dedup_spec(s: Seq<&String>) -> Seq<&String> decreases s.len() {
    if s.len() <= 1 { s } else if s[s.len() - 2]@ == s.last()@ { dedup_spec(s.drop_last()) } else { dedup_spec(s.drop_last()).push(s.last()) }
}
/// `Vec<&String>::dedup()`
#[verifier::external_body]
pub fn vec_dedup_strs(v: &mut Vec<&String>) ensures final(v)@ == dedup_spec(old(v)@) { unimplemented!() }
pub proof fn lemma_dedup_len(s: Seq<&String>)
    ensures dedup_spec(s).len() <= s.len(), s.len() >= 1 ==> dedup_spec(s).len() >= 1,
        dedup_spec(s).len() == s.len() ==> forall|i: int| 0 <= i < s.len() - 1 ==> (#[trigger] s[i])@ != s[i + 1]@
    decreases s.len()
{
    if s.len() > 1 {
        lemma_dedup_len(s.drop_last());
        if s[s.len() - 2]@ != s.last()@ && dedup_spec(s).len() == s.len() {
            assert forall|i: int| 0 <= i < s.len() - 1 implies (#[trigger] s[i])@ != s[i + 1]@ by {
                if i < s.len() - 2 { assert(s.drop_last()[i] == s[i] && s.drop_last()[i + 1] == s[i + 1]); }
            }
        }
    }
}
} // verus!
verus! {
/// `Ord for String` (byte-wise lexicographic): only its consistency with the abstract total order `str_le` is known
pub open spec fn str_cmp(a: Seq<char>, b: Seq<char>) -> core::cmp::Ordering {
    if a == b { core::cmp::Ordering::Equal } else if str_le(a, b) { core::cmp::Ordering::Less } else { core::cmp::Ordering::Greater }
}
pub assume_specification [ <String as Ord>::cmp ] (a: &String, b: &String) -> (r: core::cmp::Ordering)
    ensures r == str_cmp(a@, b@);
pub broadcast axiom fn ax_str_le_total(a: Seq<char>, b: Seq<char>) ensures #![trigger str_le(a, b)] str_le(a, b) || str_le(b, a);
/// the derived `Ord for Addr` is that of the inner String
impl PartialOrdSpecImpl for Addr {
    open spec fn obeys_partial_cmp_spec() -> bool { true }
    open spec fn partial_cmp_spec(&self, o: &Addr) -> Option<core::cmp::Ordering> { Some(str_cmp(self@, o@)) }
}
impl PartialOrd for Addr { #[verifier::external_body] fn partial_cmp(&self, o: &Addr) -> (r: Option<core::cmp::Ordering>) { unimplemented!() } }
impl OrdSpecImpl for Addr {
    open spec fn obeys_cmp_spec() -> bool { true }
    open spec fn cmp_spec(&self, o: &Addr) -> core::cmp::Ordering { str_cmp(self@, o@) }
}
impl Ord for Addr { #[verifier::external_body] fn cmp(&self, o: &Addr) -> (r: core::cmp::Ordering) { unimplemented!() } }
/// the comparison closure handed to `sort_by` is modelled as a function `sort_cmp(f)` of the two element values (ASSUMED: an
/// `Fn(&T,&T) -> Ordering` closure without interior mutability is deterministic); each of its results satisfies the closure's contract
pub uninterp spec fn sort_cmp<T, F>(f: F) -> spec_fn(T, T) -> core::cmp::Ordering;
/// `slice.sort_by(cmp)` (stable): the result is a permutation of the input, and no element compares Greater than a later one
#[verifier::external_body]
pub fn slice_sort_by<T, F: Fn(&T, &T) -> core::cmp::Ordering>(v: &mut [T], cmp: F)
    requires forall|a: T, b: T| cmp.requires((&a, &b))
    ensures final(v)@.len() == old(v)@.len(),
        exists|p: Seq<int>| is_perm(p, old(v)@.len() as int) && forall|i: int| 0 <= i < final(v)@.len() ==> #[trigger] final(v)@[i] == old(v)@[p[i]],
        forall|a: T, b: T| cmp.ensures((&a, &b), #[trigger] sort_cmp::<T, F>(cmp)(a, b)),
        forall|i: int, j: int| 0 <= i <= j < final(v)@.len() ==> sort_cmp::<T, F>(cmp)(#[trigger] final(v)@[i], #[trigger] final(v)@[j]) != core::cmp::Ordering::Greater,
{ unimplemented!() }
/// `s.iter().zip(s.iter().skip(1))`: the pairs of neighbouring elements, in order
#[verifier::external_body]
pub fn adjacent_pairs<'a, T>(v: &'a [T]) -> (r: Vec<(&'a T, &'a T)>)
    ensures r@.len() == (if v@.len() == 0 { 0 } else { v@.len() - 1 }),
        forall|i: int| 0 <= i < r@.len() ==> *(#[trigger] r@[i]).0 == v@[i] && *r@[i].1 == v@[i + 1]
{ unimplemented!() }
} // verus!
verus! {
/// `s.splitn(n, sep).collect::<Vec<&str>>()`: the parts are an uninterpreted function of the string (at most n of them)
pub uninterp spec fn splitn_spec(s: Seq<char>, n: int, sep: char) -> Seq<Seq<char>>;
#[verifier::external_body]
pub fn str_splitn<'a>(s: &'a str, n: usize, sep: char) -> (r: Vec<&'a str>)
    ensures r@.len() == splitn_spec(s@, n as int, sep).len(), r@.len() <= n,
        forall|i: int| 0 <= i < r@.len() ==> (#[trigger] r@[i])@ == splitn_spec(s@, n as int, sep)[i]
{ unimplemented!() }
pub assume_specification<'a> [ <&'a str as PartialEq<String>>::ne ] (a: &&'a str, b: &String) -> (r: bool)
    ensures r == (a@ != b@);
pub assume_specification<'a> [ <&'a str as PartialEq<String>>::eq ] (a: &&'a str, b: &String) -> (r: bool)
    ensures r == (a@ == b@);
} // verus!
