// shim/cw3deps.rs -- cosmwasm_std::Decimal, Uint128::mul_floor and cw_utils::Threshold (ASSUMED contracts).
// STRICT flavour: panicking operators carry `requires` (panic-freedom is an obligation of the caller).
verus! {

pub open spec fn D18() -> int { 1_000_000_000_000_000_000 }
pub open spec fn P9() -> int { 1_000_000_000 }

/// cosmwasm_std::Decimal: fixed point with 18 decimals; value = atomics / 10^18
#[derive(Clone, Copy)]
pub struct Decimal(pub u128);
impl PartialEqSpecImpl for Decimal { open spec fn obeys_eq_spec() -> bool { true } open spec fn eq_spec(&self, o: &Decimal) -> bool { self.0 == o.0 } }
impl PartialEq for Decimal { fn eq(&self, o: &Decimal) -> (r: bool) { self.0 == o.0 } }
impl Decimal {
    pub fn one() -> (r: Decimal) ensures r.0 == D18() { Decimal(1_000_000_000_000_000_000) }
    pub fn zero() -> (r: Decimal) ensures r.0 == 0 { Decimal(0) }
    pub fn is_zero(&self) -> (r: bool) ensures r == (self.0 == 0) { self.0 == 0 }
    pub fn percent(x: u64) -> (r: Decimal) ensures r.0 == x * 10_000_000_000_000_000 { Decimal((x as u128) * 10_000_000_000_000_000) }
    pub fn atomics(&self) -> (r: Uint128) ensures r.0 == self.0 { Uint128(self.0) }
    /// `Decimal::from_ratio(n, d)` = floor(n * 10^18 / d); panics on d == 0 or overflow (partial-correctness contract)
    #[verifier::external_body]
    pub fn from_ratio(n: impl Into<Uint128>, d: impl Into<Uint128>) -> (r: Decimal)
        ensures true
    { unimplemented!() }
}
impl SubSpecImpl<Decimal> for Decimal {
    open spec fn obeys_sub_spec() -> bool { true }
    open spec fn sub_req(self, rhs: Decimal) -> bool { self.0 >= rhs.0 }      // `-` panics on underflow
    open spec fn sub_spec(self, rhs: Decimal) -> Decimal { Decimal((self.0 - rhs.0) as u128) }
}
impl core::ops::Sub<Decimal> for Decimal {
    type Output = Decimal;
    fn sub(self, rhs: Decimal) -> (r: Decimal) { Decimal(self.0 - rhs.0) }
}
impl Uint128 {
    /// cosmwasm_std 2.0.2 `Uint128::mul_floor(Decimal)`: floor(self * atomics / 10^18) computed in 256 bits;
    /// panics if the result does not fit 128 bits (strict: requires)
    #[verifier::external_body]
    pub fn mul_floor(self, rhs: Decimal) -> (r: Uint128)
        requires (self.0 as int * rhs.0 as int) / D18() <= u128::MAX
        ensures r.0 as int == (self.0 as int * rhs.0 as int) / D18()
    { unimplemented!() }
}

pub enum Threshold {
    AbsoluteCount { weight: u64 },
    AbsolutePercentage { percentage: Decimal },
    ThresholdQuorum { threshold: Decimal, quorum: Decimal },
}
impl Clone for Threshold { #[verifier::external_body] fn clone(&self) -> (r: Self) ensures r == *self { unimplemented!() } }
impl PartialEqSpecImpl for Threshold { open spec fn obeys_eq_spec() -> bool { true } open spec fn eq_spec(&self, o: &Threshold) -> bool { *self == *o } }
impl PartialEq for Threshold { #[verifier::external_body] fn eq(&self, o: &Threshold) -> (r: bool) { unimplemented!() } }
pub struct ThresholdError { pub k: u8 }
pub enum ThresholdResponse {
    AbsoluteCount { weight: u64, total_weight: u64 },
    AbsolutePercentage { percentage: Decimal, total_weight: u64 },
    ThresholdQuorum { threshold: Decimal, quorum: Decimal, total_weight: u64 },
}
impl Threshold {
    /// what `Threshold::validate(total_weight)` accepts (cw-utils 2.0.0 threshold.rs)
    pub open spec fn valid(self, total_weight: u64) -> bool {
        match self {
            Threshold::AbsoluteCount { weight } => 1 <= weight <= total_weight,
            Threshold::AbsolutePercentage { percentage } => D18() / 2 <= percentage.0 <= D18(),
            Threshold::ThresholdQuorum { threshold, quorum } => D18() / 2 <= threshold.0 <= D18() && 0 < quorum.0 <= D18(),
        }
    }
    #[verifier::external_body]
    pub fn validate(&self, total_weight: u64) -> (r: Result<(), ThresholdError>)
        ensures r is Ok <==> self.valid(total_weight)
    { unimplemented!() }
    pub open spec fn resp(self, total_weight: u64) -> ThresholdResponse {
        match self {
            Threshold::AbsoluteCount { weight } => ThresholdResponse::AbsoluteCount { weight, total_weight },
            Threshold::AbsolutePercentage { percentage } => ThresholdResponse::AbsolutePercentage { percentage, total_weight },
            Threshold::ThresholdQuorum { threshold, quorum } => ThresholdResponse::ThresholdQuorum { threshold, quorum, total_weight },
        }
    }
    #[verifier::external_body]
    pub fn to_response(&self, total_weight: u64) -> (r: ThresholdResponse)
        ensures r == self.resp(total_weight)
    { unimplemented!() }
}

} // verus!
