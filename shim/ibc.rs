// shim/ibc.rs -- cosmwasm-std 2.0.2 IBC and reply types as plain data (ASSUMED shapes; only the fields the repository uses)
verus! {

pub struct IbcEndpoint { pub port_id: String, pub channel_id: String }
pub enum IbcOrder { Unordered, Ordered }
impl PartialEqSpecImpl for IbcOrder { open spec fn obeys_eq_spec() -> bool { true } open spec fn eq_spec(&self, o: &IbcOrder) -> bool { *self == *o } }
impl PartialEq for IbcOrder { #[verifier::external_body] fn eq(&self, o: &IbcOrder) -> (r: bool) { unimplemented!() } }
pub struct IbcPacket { pub data: Binary, pub src: IbcEndpoint, pub dest: IbcEndpoint, pub sequence: u64, pub timeout: IbcTimeout }
pub struct IbcPacketReceiveMsg { pub packet: IbcPacket, pub relayer: Addr }
pub struct IbcAcknowledgement { pub data: Binary }
pub struct IbcPacketAckMsg { pub acknowledgement: IbcAcknowledgement, pub original_packet: IbcPacket, pub relayer: Addr }
pub struct IbcPacketTimeoutMsg { pub packet: IbcPacket, pub relayer: Addr }

/// response of ibc_packet_receive: acknowledgement + sub-messages (attributes / events not modelled)
pub struct IbcReceiveResponse<T = Empty> { pub acknowledgement: Option<Binary>, pub messages: Vec<SubMsg<T>> }
impl<T> IbcReceiveResponse<T> {
    #[verifier::external_body]
    pub fn new<B: Into<Binary>>(ack: B) -> (r: Self)
        ensures r.messages@ == Seq::<SubMsg<T>>::empty(), <B as IntoSpec<Binary>>::obeys_into_spec() ==> r.acknowledgement == Some(<B as IntoSpec<Binary>>::into_spec(ack))
    { unimplemented!() }
    #[verifier::external_body]
    pub fn add_submessage(self, msg: SubMsg<T>) -> (r: Self)
        ensures r.messages@ == self.messages@.push(msg), r.acknowledgement == self.acknowledgement
    { unimplemented!() }
    #[verifier::external_body]
    pub fn add_attribute(self, key: impl Into<String>, value: impl Into<String>) -> (r: Self) ensures r == self { unimplemented!() }
    #[verifier::external_body]
    pub fn add_attributes(self, attrs: Vec<Attribute>) -> (r: Self) ensures r == self { unimplemented!() }
}
pub struct IbcBasicResponse<T = Empty> { pub messages: Vec<SubMsg<T>> }
impl<T> IbcBasicResponse<T> {
    pub fn new() -> (r: Self) ensures r.messages@ == Seq::<SubMsg<T>>::empty() { IbcBasicResponse { messages: Vec::new() } }
    #[verifier::external_body]
    pub fn add_submessage(self, msg: SubMsg<T>) -> (r: Self) ensures r.messages@ == self.messages@.push(msg) { unimplemented!() }
    #[verifier::external_body]
    pub fn add_attribute(self, key: impl Into<String>, value: impl Into<String>) -> (r: Self) ensures r == self { unimplemented!() }
    #[verifier::external_body]
    pub fn add_attributes(self, attrs: Vec<Attribute>) -> (r: Self) ensures r == self { unimplemented!() }
}
impl<T> core::default::Default for IbcBasicResponse<T> {
    fn default() -> (r: Self) ensures r.messages@ == Seq::<SubMsg<T>>::empty() { IbcBasicResponse { messages: Vec::new() } }
}

pub struct SubMsgResponse { pub data: Option<Binary> }
pub enum SubMsgResult { Ok(SubMsgResponse), Err(String) }
pub struct Reply { pub id: u64, pub result: SubMsgResult }

impl<T> Response<T> {
    #[verifier::external_body]
    pub fn set_data<B: Into<Binary>>(self, data: B) -> (r: Self)
        ensures r.messages == self.messages, <B as IntoSpec<Binary>>::obeys_into_spec() ==> r.data == Some(<B as IntoSpec<Binary>>::into_spec(data))
    { unimplemented!() }
}
// identity conversion Binary -> Binary (std `impl<T> From<T> for T`)
pub broadcast axiom fn ax_binary_id_obeys() ensures #[trigger] <Binary as FromSpec<Binary>>::obeys_from_spec();
pub broadcast axiom fn ax_binary_id(b: Binary) ensures #[trigger] <Binary as FromSpec<Binary>>::from_spec(b) == b;
pub broadcast group binary_conv { ax_binary_id_obeys, ax_binary_id }
impl<const N: usize> From<&[u8; N]> for Binary { #[verifier::external_body] fn from(a: &[u8; N]) -> (r: Binary) ensures r@ == a@ { unimplemented!() } }
impl From<String> for Binary { #[verifier::external_body] fn from(a: String) -> (r: Binary) { unimplemented!() } }

} // verus!
