// shim/snapshot_range.rs -- SnapshotMap::range: iteration over the primary map (ASSUMED, same model as Map::range)
verus! {
impl<K: KeyOut, V: SerT> SnapshotMap<K, V> {
    #[verifier::external_body]
    pub fn range(&self, store: &dyn Storage, min: Option<Bound<K>>, max: Option<Bound<K>>, order: Order) -> (r: CwIter<StdResult<(K::Out, V)>>)
        ensures typed_items(r.items@, scan(listing(store.view(), self.ns@, Seq::<u8>::empty(), false), bound_raw(min), bound_raw(max), order), |o: K::Out| K::out_kb(o))
    { unimplemented!() }
}
} // verus!
