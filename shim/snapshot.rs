// shim/snapshot.rs -- cw-storage-plus 2.0.0 SnapshotMap / SnapshotItem with Strategy::EveryBlock (ASSUMED model, DESIGN 4.2):
// primary map at namespace `ns`; changelog entries ((key, height) -> ChangeSet{old}) at namespace `cl`, written only for the
// FIRST change of a key at a height; an at-height read returns the `old` of the first changelog entry of that key with
// height >= h, else the current value.
verus! {

pub enum Strategy { EveryBlock, Never, Selected }
pub struct ChangeSet<V> { pub old: Option<V> }
impl<V: SerT> SerT for ChangeSet<V> { uninterp spec fn ser(self) -> Seq<u8>; uninterp spec fn de(b: Seq<u8>) -> Option<Self>; }

pub open spec fn cl_key(cl: Seq<char>, kb: Seq<u8>, h: u64) -> Seq<u8> { path(cl, pair_kb(kb, u64_kb(h))) }
/// the least height >= h at which `kb` has a changelog entry
pub open spec fn first_change(s: Raw, cl: Seq<char>, kb: Seq<u8>, h: u64) -> Option<u64> {
    if exists|h2: u64| h2 >= h && s.contains_key(cl_key(cl, kb, h2)) {
        Some(choose|h2: u64| h2 >= h && s.contains_key(cl_key(cl, kb, h2)) && forall|h3: u64| h <= h3 < h2 ==> !s.contains_key(cl_key(cl, kb, h3)))
    } else { None }
}
/// value of primary key `kb` as read "at height h"
pub open spec fn at_height<V: SerT>(s: Raw, ns: Seq<char>, cl: Seq<char>, kb: Seq<u8>, h: u64) -> Option<V> {
    match first_change(s, cl, kb, h) {
        Some(h2) => match ChangeSet::<V>::de(s[cl_key(cl, kb, h2)]) { Some(c) => c.old, None => None },
        None => raw_get::<V>(s, path(ns, kb)),
    }
}
/// storage after the change-log step of a write to `kb` at height `h`
pub open spec fn logged<V: SerT>(s: Raw, ns: Seq<char>, cl: Seq<char>, kb: Seq<u8>, h: u64) -> Raw {
    if s.contains_key(cl_key(cl, kb, h)) { s } else { s.insert(cl_key(cl, kb, h), (ChangeSet::<V> { old: raw_get::<V>(s, path(ns, kb)) }).ser()) }
}

pub struct SnapshotMap<K, V> { pub ns: &'static str, pub cp: &'static str, pub cl: &'static str, pub _k: PhantomData<K>, pub _v: PhantomData<V> }
impl<K: KeyT, V: SerT> SnapshotMap<K, V> {
    pub const fn new(ns: &'static str, cp: &'static str, cl: &'static str, strategy: Strategy) -> (r: Self)
        ensures r.ns@ == ns@, r.cp@ == cp@, r.cl@ == cl@
    { SnapshotMap { ns, cp, cl, _k: PhantomData, _v: PhantomData } }
    pub open spec fn rawkey(&self, k: K) -> Seq<u8> { path(self.ns@, k.kb()) }
    pub open spec fn get(&self, s: Raw, k: K) -> Option<V> { raw_get::<V>(s, self.rawkey(k)) }
    #[verifier::external_body]
    pub fn save(&self, store: &mut dyn Storage, k: K, data: &V, height: u64) -> (r: StdResult<()>)
        ensures r is Ok ==> final(store).view() == logged::<V>(old(store).view(), self.ns@, self.cl@, k.kb(), height).insert(self.rawkey(k), data.ser()),
    { unimplemented!() }
    #[verifier::external_body]
    pub fn remove(&self, store: &mut dyn Storage, k: K, height: u64) -> (r: StdResult<()>)
        ensures r is Ok ==> final(store).view() == logged::<V>(old(store).view(), self.ns@, self.cl@, k.kb(), height).remove(self.rawkey(k)),
    { unimplemented!() }
    #[verifier::external_body]
    pub fn may_load(&self, store: &dyn Storage, k: K) -> (r: StdResult<Option<V>>)
        ensures r is Ok ==> r->Ok_0 == self.get(store.view(), k),
    { unimplemented!() }
    #[verifier::external_body]
    pub fn load(&self, store: &dyn Storage, k: K) -> (r: StdResult<V>)
        ensures r is Ok ==> Some(r->Ok_0) == self.get(store.view(), k),
    { unimplemented!() }
    #[verifier::external_body]
    pub fn may_load_at_height(&self, store: &dyn Storage, k: K, height: u64) -> (r: StdResult<Option<V>>)
        ensures r is Ok ==> r->Ok_0 == at_height::<V>(store.view(), self.ns@, self.cl@, k.kb(), height),
    { unimplemented!() }
}

pub struct SnapshotItem<V> { pub ns: &'static str, pub cp: &'static str, pub cl: &'static str, pub _v: PhantomData<V> }
impl<V: SerT> SnapshotItem<V> {
    pub const fn new(ns: &'static str, cp: &'static str, cl: &'static str, strategy: Strategy) -> (r: Self)
        ensures r.ns@ == ns@, r.cp@ == cp@, r.cl@ == cl@
    { SnapshotItem { ns, cp, cl, _v: PhantomData } }
    pub open spec fn key(&self) -> Seq<u8> { item_key(self.ns@) }
    pub open spec fn get(&self, s: Raw) -> Option<V> { raw_get::<V>(s, self.key()) }
    #[verifier::external_body]
    pub fn save(&self, store: &mut dyn Storage, data: &V, height: u64) -> (r: StdResult<()>)
        ensures r is Ok ==> final(store).view() == logged::<V>(old(store).view(), self.ns@, self.cl@, Seq::<u8>::empty(), height).insert(self.key(), data.ser()),
    { unimplemented!() }
    #[verifier::external_body]
    pub fn load(&self, store: &dyn Storage) -> (r: StdResult<V>)
        ensures r is Ok ==> Some(r->Ok_0) == self.get(store.view()),
    { unimplemented!() }
    #[verifier::external_body]
    pub fn may_load(&self, store: &dyn Storage) -> (r: StdResult<Option<V>>)
        ensures r is Ok ==> r->Ok_0 == self.get(store.view()),
    { unimplemented!() }
    #[verifier::external_body]
    pub fn may_load_at_height(&self, store: &dyn Storage, height: u64) -> (r: StdResult<Option<V>>)
        ensures r is Ok ==> r->Ok_0 == at_height::<V>(store.view(), self.ns@, self.cl@, Seq::<u8>::empty(), height),
    { unimplemented!() }
}

} // verus!
