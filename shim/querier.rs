// shim/querier.rs -- cross-contract queries (A5): ASSUMED environment model.
// `remote_raw(world, c)` is contract c's storage in the world seen by this call; `smart_answer(world, c, msg)` is what its
// `query` entry point answers to `msg` on that storage.
verus! {

pub uninterp spec fn remote_raw(world: int, contract: Seq<char>) -> Raw;
pub uninterp spec fn smart_answer(world: int, contract: Seq<char>, msg: Seq<u8>) -> Option<Seq<u8>>;
/// the contract exists and answers raw queries in this world
pub uninterp spec fn raw_query_ok(world: int, contract: Seq<char>) -> bool;

pub enum WasmQuery { Smart { contract_addr: String, msg: Binary }, Raw { contract_addr: String, key: Binary }, ContractInfo { contract_addr: String } }
pub enum BankQuery { Balance { address: String, denom: String }, AllBalances { address: String } }
pub enum QueryRequest<C = Empty> { Bank(BankQuery), Custom(C), Wasm(WasmQuery) }
impl<C> FromSpecImpl<WasmQuery> for QueryRequest<C> { open spec fn obeys_from_spec() -> bool { true } open spec fn from_spec(w: WasmQuery) -> Self { QueryRequest::Wasm(w) } }
impl<C> From<WasmQuery> for QueryRequest<C> { fn from(w: WasmQuery) -> (r: QueryRequest<C>) { QueryRequest::Wasm(w) } }

impl<'a, C: CustomQuery> QuerierWrapper<'a, C> {
    /// smart query: the answer is the remote contract's reply, decoded; decoding failure / remote error -> Err
    #[verifier::external_body]
    pub fn query<U: JsonT>(&self, request: &QueryRequest<C>) -> (r: StdResult<U>)
        ensures r is Ok ==> match request {
            QueryRequest::Wasm(WasmQuery::Smart { contract_addr, msg }) =>
                smart_answer(self.world(), contract_addr@, msg@) is Some
                && U::unjson(smart_answer(self.world(), contract_addr@, msg@)->Some_0) == Some(r->Ok_0),
            _ => true },
            // a smart query succeeds exactly when the remote contract answers and the answer decodes
            match request {
                QueryRequest::Wasm(WasmQuery::Smart { contract_addr, msg }) =>
                    (smart_answer(self.world(), contract_addr@, msg@) is Some && U::unjson(smart_answer(self.world(), contract_addr@, msg@)->Some_0) is Some) ==> r is Ok,
                _ => true }
    { unimplemented!() }
    /// cosmwasm_std `query_wasm_smart(contract_addr, &msg)`
    #[verifier::external_body]
    pub fn query_wasm_smart<U: JsonT, M: JsonT, A: Into<String>>(&self, contract_addr: A, msg: &M) -> (r: StdResult<U>)
        ensures r is Ok ==> smart_answer(self.world(), into_string_spec(contract_addr)@, msg.json()) is Some
                && U::unjson(smart_answer(self.world(), into_string_spec(contract_addr)@, msg.json())->Some_0) == Some(r->Ok_0)
    { unimplemented!() }
}
impl<V: SerT> Item<V> {
    /// cw-storage-plus `Item::query`: raw read of the remote contract's item
    #[verifier::external_body]
    pub fn query<C: CustomQuery>(&self, querier: &QuerierWrapper<C>, remote_contract: Addr) -> (r: StdResult<V>)
        ensures r is Ok ==> self.get(remote_raw(querier.world(), remote_contract@)) == Some(r->Ok_0)
    { unimplemented!() }
}
impl<K: KeyT, V: SerT> Map<K, V> {
    /// cw-storage-plus `Map::query`: raw read of one entry of the remote contract's map
    #[verifier::external_body]
    pub fn query<C: CustomQuery>(&self, querier: &QuerierWrapper<C>, remote_contract: Addr, k: K) -> (r: StdResult<Option<V>>)
        ensures r is Ok ==> r->Ok_0 == self.get(remote_raw(querier.world(), remote_contract@), k),
            // a raw query of an existing contract fails only if the stored value does not parse
            raw_query_ok(querier.world(), remote_contract@)
                && (!remote_raw(querier.world(), remote_contract@).contains_key(self.rawkey(k)) || self.get(remote_raw(querier.world(), remote_contract@), k) is Some) ==> r is Ok
    { unimplemented!() }
}

} // verus!
