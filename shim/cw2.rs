// shim/cw2.rs -- cw2 2.0.0 and semver::Version (ASSUMED contracts)
verus! {

pub uninterp spec fn cw2_bytes(name: Seq<char>, version: Seq<char>) -> Seq<u8>;
pub open spec fn cw2_key() -> Seq<u8> { item_key("contract_info"@) }

/// cw2::set_contract_version: one write to the `contract_info` item
#[verifier::external_body]
pub fn set_contract_version<T: Into<String>, U: Into<String>>(store: &mut dyn Storage, name: T, version: U) -> (r: StdResult<()>)
    ensures r is Ok, exists|v: Seq<u8>| final(store).view() == old(store).view().insert(cw2_key(), v),
{ unimplemented!() }

pub mod semver {
    use super::*;
    #[verifier::external_body]
    pub struct Version { _p: u8 }
    pub uninterp spec fn ver_lt(a: Version, b: Version) -> bool;
    pub uninterp spec fn ver_parse(s: Seq<char>) -> Option<Version>;
    impl PartialEqSpecImpl for Version { open spec fn obeys_eq_spec() -> bool { true } open spec fn eq_spec(&self, o: &Version) -> bool { *self == *o } }
    impl PartialEq for Version { #[verifier::external_body] fn eq(&self, o: &Version) -> (r: bool) { unimplemented!() } }
    impl PartialOrdSpecImpl for Version {
        open spec fn obeys_partial_cmp_spec() -> bool { true }
        open spec fn partial_cmp_spec(&self, o: &Version) -> Option<core::cmp::Ordering> {
            if ver_lt(*self, *o) { Some(core::cmp::Ordering::Less) } else if *self == *o { Some(core::cmp::Ordering::Equal) } else { Some(core::cmp::Ordering::Greater) }
        }
    }
    impl PartialOrd for Version { #[verifier::external_body] fn partial_cmp(&self, o: &Version) -> (r: Option<core::cmp::Ordering>) { unimplemented!() } }
    impl core::fmt::Display for Version { #[verifier::external_body] fn fmt(&self, f: &mut core::fmt::Formatter<'_>) -> core::fmt::Result { unimplemented!() } }
    pub struct SemverError { pub k: u8 }
    impl core::fmt::Debug for SemverError { #[verifier::external_body] fn fmt(&self, f: &mut core::fmt::Formatter<'_>) -> core::fmt::Result { unimplemented!() } }
    pub type Error = SemverError;
    impl core::fmt::Display for SemverError { #[verifier::external_body] fn fmt(&self, f: &mut core::fmt::Formatter<'_>) -> core::fmt::Result { unimplemented!() } }
    impl core::str::FromStr for Version {
        type Err = SemverError;
        #[verifier::external_body]
        fn from_str(s: &str) -> (r: Result<Version, SemverError>)
            ensures r is Ok <==> ver_parse(s@) is Some, r is Ok ==> Some(r->Ok_0) == ver_parse(s@)
        { unimplemented!() }
    }
}

pub struct ContractVersion { pub contract: String, pub version: String }
/// cw2::get_contract_version (the stored name / version strings are uninterpreted functions of the cw2 item)
pub uninterp spec fn cw2_contract(s: Raw) -> Seq<char>;
pub uninterp spec fn cw2_version(s: Raw) -> Seq<char>;
#[verifier::external_body]
pub fn get_contract_version(store: &dyn Storage) -> (r: StdResult<ContractVersion>)
    ensures r is Ok ==> r->Ok_0.contract@ == cw2_contract(store.view()) && r->Ok_0.version@ == cw2_version(store.view())
{ unimplemented!() }
#[verifier::external_trait_specification]
pub trait ExFromStr: Sized {
    type ExternalTraitSpecificationFor: core::str::FromStr;
    type Err;
    fn from_str(s: &str) -> Result<Self, Self::Err>;
}
pub assume_specification<F: core::str::FromStr> [ str::parse::<F> ] (s: &str) -> (r: Result<F, F::Err>)
    ensures call_ensures(F::from_str, (s,), r);
/// the version literal the repository compares against is a valid semver string
pub broadcast axiom fn ax_parse_0_14() ensures #[trigger] semver::ver_parse("0.14.0"@) is Some;

/// the version a contract was stored with before this migration (uninterpreted function of the cw2 item)
pub uninterp spec fn cw2_stored_version(s: Raw) -> semver::Version;

/// cw2::ensure_from_older_version: may rewrite the `contract_info` item, nothing else
#[verifier::external_body]
pub fn ensure_from_older_version(store: &mut dyn Storage, name: &str, new_version: &str) -> (r: StdResult<semver::Version>)
    ensures
        r is Ok ==> r->Ok_0 == cw2_stored_version(old(store).view()),
        final(store).view() == old(store).view() || exists|v: Seq<u8>| final(store).view() == old(store).view().insert(cw2_key(), v),
{ unimplemented!() }

} // verus!
