// shim/std_more.rs -- further std / cosmwasm-std / cw-utils API with ASSUMED contracts. None of it is used by the pinned
// repository code under contract; it exists so that a change of /repo that starts to use one of these calls can still be
// VERIFIED (and fail a named obligation) instead of ending in "unsupported construct" (exit 2).
verus! {

// ---- core::option / core::result
pub assume_specification<T> [ Option::<T>::or ] (a: Option<T>, b: Option<T>) -> (r: Option<T>)
    ensures r == (if a is Some { a } else { b });
pub assume_specification<T> [ Option::<T>::xor ] (a: Option<T>, b: Option<T>) -> (r: Option<T>)
    ensures r == (if a is Some && b is None { a } else if a is None && b is Some { b } else { None::<T> });
pub assume_specification<T, U> [ Option::<T>::zip ] (a: Option<T>, b: Option<U>) -> (r: Option<(T, U)>)
    ensures r == (if a is Some && b is Some { Some((a->Some_0, b->Some_0)) } else { None::<(T, U)> });
pub assume_specification<T, U, F: FnOnce(T) -> U> [ Option::<T>::map_or ] (a: Option<T>, default: U, f: F) -> (r: U)
    requires a is Some ==> f.requires((a->Some_0,))
    ensures a is None ==> r == default, a is Some ==> f.ensures((a->Some_0,), r);
pub assume_specification<T, F: FnOnce(T) -> bool> [ Option::<T>::is_some_and ] (a: Option<T>, f: F) -> (r: bool)
    requires a is Some ==> f.requires((a->Some_0,))
    ensures a is None ==> !r, a is Some ==> f.ensures((a->Some_0,), r);
pub assume_specification<'a, T: Copy> [ Option::<&'a T>::copied ] (a: Option<&'a T>) -> (r: Option<T>)
    ensures r == (match a { Some(x) => Some(*x), None => None::<T> });
pub assume_specification<T, E> [ Result::<T, E>::unwrap_or ] (a: Result<T, E>, default: T) -> (r: T)
    ensures r == (match a { Ok(x) => x, Err(_) => default });
pub assume_specification<T, E, F: FnOnce(E) -> T> [ Result::<T, E>::unwrap_or_else ] (a: Result<T, E>, f: F) -> (r: T)
    requires a is Err ==> f.requires((a->Err_0,))
    ensures a is Ok ==> r == a->Ok_0, a is Err ==> f.ensures((a->Err_0,), r);
pub assume_specification<T: Default, E> [ Result::<T, E>::unwrap_or_default ] (a: Result<T, E>) -> (r: T)
    ensures a is Ok ==> r == a->Ok_0, a is Err ==> call_ensures(T::default, (), r);
pub assume_specification<T, E, U, F: FnOnce(T) -> Result<U, E>> [ Result::<T, E>::and_then ] (a: Result<T, E>, f: F) -> (r: Result<U, E>)
    requires a is Ok ==> f.requires((a->Ok_0,))
    ensures a is Err ==> r is Err && r->Err_0 == a->Err_0, a is Ok ==> f.ensures((a->Ok_0,), r);
pub assume_specification<T> [ bool::then_some ] (b: bool, t: T) -> (r: Option<T>)
    ensures r == (if b { Some(t) } else { None::<T> });
pub assume_specification [ u64::abs_diff ] (a: u64, b: u64) -> (r: u64)
    ensures r == (if a >= b { a - b } else { b - a });
pub assume_specification [ u128::abs_diff ] (a: u128, b: u128) -> (r: u128)
    ensures r == (if a >= b { a - b } else { b - a });
pub assume_specification<T> [ core::mem::replace ] (dest: &mut T, src: T) -> (r: T)
    ensures *final(dest) == src, r == *old(dest);

// ---- strings (str::contains / starts_with are generic over the unstable Pattern trait and cannot be given a specification here)
pub assume_specification [ String::len ] (s: &String) -> (r: usize)
    ensures r == utf8(s@).len();

// ---- cosmwasm_std::Uint128 / Uint64 / Timestamp / Coin
impl Uint128 {
    pub fn checked_mul(self, o: Uint128) -> (r: Result<Uint128, OverflowError>)
        ensures self.0 * o.0 <= u128::MAX ==> r is Ok && r->Ok_0.0 == self.0 * o.0, self.0 * o.0 > u128::MAX ==> r is Err
    { match self.0.checked_mul(o.0) { Some(x) => Ok(Uint128(x)), None => Err(OverflowError { k: 2 }) } }
    pub fn checked_div(self, o: Uint128) -> (r: Result<Uint128, DivideByZeroError>)
        ensures o.0 != 0 ==> r is Ok && r->Ok_0.0 == self.0 / o.0, o.0 == 0 ==> r is Err
    { if o.0 == 0 { Err(DivideByZeroError { k: 0 }) } else { Ok(Uint128(self.0 / o.0)) } }
    pub fn saturating_add(self, o: Uint128) -> (r: Uint128)
        ensures r.0 == (if self.0 + o.0 <= u128::MAX { (self.0 + o.0) as u128 } else { u128::MAX })
    { Uint128(self.0.saturating_add(o.0)) }
    /// floor(self * n / d); panics (abort) on d == 0 or overflow of the result: partial-correctness contract
    #[verifier::external_body]
    pub fn multiply_ratio(&self, n: u128, d: u128) -> (r: Uint128)
        ensures d != 0, r.0 as int == (self.0 as int * n as int) / (d as int)
    { unimplemented!() }
}
/// `*` and `/` panic on overflow / zero divisor (abort): partial-correctness contracts
impl core::ops::Mul<Uint128> for Uint128 {
    type Output = Uint128;
    #[verifier::external_body]
    fn mul(self, o: Uint128) -> (r: Uint128) ensures self.0 * o.0 <= u128::MAX, r.0 == self.0 * o.0 { unimplemented!() }
}
impl core::ops::Div<Uint128> for Uint128 {
    type Output = Uint128;
    #[verifier::external_body]
    fn div(self, o: Uint128) -> (r: Uint128) ensures o.0 != 0, r.0 == self.0 / o.0 { unimplemented!() }
}
impl core::ops::SubAssign<Uint128> for Uint128 {
    #[verifier::external_body]
    fn sub_assign(&mut self, o: Uint128) ensures old(self).0 >= o.0, final(self).0 == old(self).0 - o.0 { unimplemented!() }
}
impl Uint64 {
    pub fn is_zero(&self) -> (r: bool) ensures r == (self.0 == 0) { self.0 == 0 }
    pub fn saturating_add(self, o: Uint64) -> (r: Uint64)
        ensures r.0 == (if self.0 + o.0 <= u64::MAX { (self.0 + o.0) as u64 } else { u64::MAX })
    { Uint64(self.0.saturating_add(o.0)) }
    pub fn saturating_sub(self, o: Uint64) -> (r: Uint64)
        ensures r.0 == (if self.0 >= o.0 { (self.0 - o.0) as u64 } else { 0u64 })
    { Uint64(self.0.saturating_sub(o.0)) }
    pub fn checked_mul(self, o: Uint64) -> (r: Result<Uint64, OverflowError>)
        ensures self.0 * o.0 <= u64::MAX ==> r is Ok && r->Ok_0.0 == self.0 * o.0, self.0 * o.0 > u64::MAX ==> r is Err
    { match self.0.checked_mul(o.0) { Some(x) => Ok(Uint64(x)), None => Err(OverflowError { k: 2 }) } }
}
impl Timestamp {
    /// the arithmetic helpers panic on overflow / underflow (abort): partial-correctness contracts
    #[verifier::external_body]
    pub fn plus_nanos(&self, n: u64) -> (r: Timestamp) ensures self.0.0 + n <= u64::MAX, r.0.0 == self.0.0 + n { unimplemented!() }
    #[verifier::external_body]
    pub fn minus_nanos(&self, n: u64) -> (r: Timestamp) ensures self.0.0 >= n, r.0.0 == self.0.0 - n { unimplemented!() }
    #[verifier::external_body]
    pub fn minus_seconds(&self, s: u64) -> (r: Timestamp) ensures self.0.0 >= s * 1_000_000_000, r.0.0 == self.0.0 - s * 1_000_000_000 { unimplemented!() }
    #[verifier::external_body]
    pub fn plus_minutes(&self, m: u64) -> (r: Timestamp) ensures self.0.0 + m * 60_000_000_000 <= u64::MAX, r.0.0 == self.0.0 + m * 60_000_000_000 { unimplemented!() }
    #[verifier::external_body]
    pub fn plus_hours(&self, h: u64) -> (r: Timestamp) ensures self.0.0 + h * 3_600_000_000_000 <= u64::MAX, r.0.0 == self.0.0 + h * 3_600_000_000_000 { unimplemented!() }
    #[verifier::external_body]
    pub fn plus_days(&self, d: u64) -> (r: Timestamp) ensures self.0.0 + d * 86_400_000_000_000 <= u64::MAX, r.0.0 == self.0.0 + d * 86_400_000_000_000 { unimplemented!() }
    #[verifier::external_body]
    pub fn from_seconds(s: u64) -> (r: Timestamp) ensures s * 1_000_000_000 <= u64::MAX, r.0.0 == s * 1_000_000_000 { unimplemented!() }
}
impl Coin {
    #[verifier::external_body]
    pub fn new<D: Into<String>>(amount: u128, denom: D) -> (r: Coin)
        ensures r.amount.0 == amount, <D as IntoSpec<String>>::obeys_into_spec() ==> r.denom == into_string_spec(denom)
    { unimplemented!() }
}
impl PartialEqSpecImpl<String> for Addr { open spec fn obeys_eq_spec() -> bool { true } open spec fn eq_spec(&self, o: &String) -> bool { self@ == o@ } }
impl PartialEq<String> for Addr { #[verifier::external_body] fn eq(&self, o: &String) -> (r: bool) { unimplemented!() } }

// ---- cw_utils::NativeBalance::has (source cw-utils-2.0.0/src/balance.rs: any entry of that denom with at least that amount)
impl NativeBalance {
    #[verifier::external_body]
    pub fn has(&self, required: &Coin) -> (r: bool)
        requires self.wf()
        ensures r ==> self.amt(required.denom@) >= required.amount@,
            self.amt(required.denom@) >= required.amount@ && required.amount@ > 0 ==> r,
    { unimplemented!() }
}

// ---- Display (only so that `.to_string()` / `format!` on these types type-checks; the produced text is abstract)
impl core::fmt::Display for Expiration { #[verifier::external_body] fn fmt(&self, f: &mut core::fmt::Formatter<'_>) -> core::fmt::Result { unimplemented!() } }
impl core::fmt::Display for Duration { #[verifier::external_body] fn fmt(&self, f: &mut core::fmt::Formatter<'_>) -> core::fmt::Result { unimplemented!() } }
impl core::fmt::Display for Timestamp { #[verifier::external_body] fn fmt(&self, f: &mut core::fmt::Formatter<'_>) -> core::fmt::Result { unimplemented!() } }
impl core::fmt::Display for Uint64 { #[verifier::external_body] fn fmt(&self, f: &mut core::fmt::Formatter<'_>) -> core::fmt::Result { unimplemented!() } }
impl core::fmt::Display for Coin { #[verifier::external_body] fn fmt(&self, f: &mut core::fmt::Formatter<'_>) -> core::fmt::Result { unimplemented!() } }

} // verus!
verus! {
/// `str::eq_ignore_ascii_case`: abstract relation; all that is known is that equal strings are related
pub uninterp spec fn eq_ignore_case(a: Seq<char>, b: Seq<char>) -> bool;
pub broadcast axiom fn ax_eq_ignore_case_refl(a: Seq<char>) ensures #[trigger] eq_ignore_case(a, a);
pub assume_specification<'a, 'b> [ str::eq_ignore_ascii_case ] (a: &'a str, b: &'b str) -> (r: bool)
    ensures r == eq_ignore_case(a@, b@);
} // verus!
verus! {
/// `str::to_lowercase` / `to_uppercase` / `to_ascii_lowercase`: abstract functions of the string (nothing else is known)
pub uninterp spec fn lower_of(a: Seq<char>) -> Seq<char>;
pub uninterp spec fn upper_of(a: Seq<char>) -> Seq<char>;
pub assume_specification [ str::to_lowercase ] (a: &str) -> (r: String) ensures r@ == lower_of(a@);
pub assume_specification [ str::to_uppercase ] (a: &str) -> (r: String) ensures r@ == upper_of(a@);
pub assume_specification [ str::to_ascii_lowercase ] (a: &str) -> (r: String) ensures r@ == lower_of(a@);
} // verus!
// ---- further operators (all panic on overflow / underflow / zero divisor = abort: partial-correctness contracts, §4.3)
verus! {
impl MulSpecImpl<Uint128> for Uint128 {
    open spec fn obeys_mul_spec() -> bool { true }
    open spec fn mul_req(self, rhs: Uint128) -> bool { true }
    open spec fn mul_spec(self, rhs: Uint128) -> Uint128 { Uint128((self.0 * rhs.0) as u128) }
}
impl DivSpecImpl<Uint128> for Uint128 {
    open spec fn obeys_div_spec() -> bool { true }
    open spec fn div_req(self, rhs: Uint128) -> bool { true }
    open spec fn div_spec(self, rhs: Uint128) -> Uint128 { Uint128(if rhs.0 == 0 { 0 } else { self.0 / rhs.0 }) }
}
impl RemSpecImpl<Uint128> for Uint128 {
    open spec fn obeys_rem_spec() -> bool { true }
    open spec fn rem_req(self, rhs: Uint128) -> bool { true }
    open spec fn rem_spec(self, rhs: Uint128) -> Uint128 { Uint128(if rhs.0 == 0 { 0 } else { self.0 % rhs.0 }) }
}
impl core::ops::Rem<Uint128> for Uint128 {
    type Output = Uint128;
    #[verifier::external_body]
    fn rem(self, o: Uint128) -> (r: Uint128) ensures o.0 != 0 { unimplemented!() }
}
impl SubAssignSpecImpl<Uint128> for Uint128 {
    open spec fn obeys_sub_assign_spec() -> bool { true }
    open spec fn sub_assign_req(&self, rhs: Uint128) -> bool { true }
    open spec fn sub_assign_spec(&self, rhs: Uint128) -> &Uint128 { &Uint128((self.0 - rhs.0) as u128) }
}
impl MulAssignSpecImpl<Uint128> for Uint128 {
    open spec fn obeys_mul_assign_spec() -> bool { true }
    open spec fn mul_assign_req(&self, rhs: Uint128) -> bool { true }
    open spec fn mul_assign_spec(&self, rhs: Uint128) -> &Uint128 { &Uint128((self.0 * rhs.0) as u128) }
}
impl core::ops::MulAssign<Uint128> for Uint128 {
    #[verifier::external_body]
    fn mul_assign(&mut self, o: Uint128) ensures old(self).0 * o.0 <= u128::MAX { unimplemented!() }
}
impl Uint128 {
    pub fn saturating_mul(self, o: Uint128) -> (r: Uint128)
        ensures r.0 == (if self.0 * o.0 <= u128::MAX { (self.0 * o.0) as u128 } else { u128::MAX })
    { Uint128(self.0.saturating_mul(o.0)) }
    pub fn abs_diff(self, o: Uint128) -> (r: Uint128)
        ensures r.0 == (if self.0 >= o.0 { self.0 - o.0 } else { o.0 - self.0 })
    { Uint128(self.0.abs_diff(o.0)) }
    pub fn checked_rem(self, o: Uint128) -> (r: Result<Uint128, DivideByZeroError>)
        ensures o.0 != 0 ==> r is Ok && r->Ok_0.0 == self.0 % o.0, o.0 == 0 ==> r is Err
    { if o.0 == 0 { Err(DivideByZeroError { k: 0 }) } else { Ok(Uint128(self.0 % o.0)) } }
    pub fn min_of(a: Uint128, b: Uint128) -> (r: Uint128) ensures r.0 == (if a.0 <= b.0 { a.0 } else { b.0 }) { if a.0 <= b.0 { a } else { b } }
}
// Uint64 arithmetic
impl AddSpecImpl<Uint64> for Uint64 {
    open spec fn obeys_add_spec() -> bool { true }
    open spec fn add_req(self, rhs: Uint64) -> bool { true }
    open spec fn add_spec(self, rhs: Uint64) -> Uint64 { Uint64((self.0 + rhs.0) as u64) }
}
impl core::ops::Add<Uint64> for Uint64 {
    type Output = Uint64;
    #[verifier::external_body]
    fn add(self, rhs: Uint64) -> (r: Uint64) ensures self.0 + rhs.0 <= u64::MAX { unimplemented!() }
}
impl SubSpecImpl<Uint64> for Uint64 {
    open spec fn obeys_sub_spec() -> bool { true }
    open spec fn sub_req(self, rhs: Uint64) -> bool { true }
    open spec fn sub_spec(self, rhs: Uint64) -> Uint64 { Uint64((self.0 - rhs.0) as u64) }
}
impl core::ops::Sub<Uint64> for Uint64 {
    type Output = Uint64;
    #[verifier::external_body]
    fn sub(self, rhs: Uint64) -> (r: Uint64) ensures self.0 >= rhs.0 { unimplemented!() }
}
impl MulSpecImpl<Uint64> for Uint64 {
    open spec fn obeys_mul_spec() -> bool { true }
    open spec fn mul_req(self, rhs: Uint64) -> bool { true }
    open spec fn mul_spec(self, rhs: Uint64) -> Uint64 { Uint64((self.0 * rhs.0) as u64) }
}
impl core::ops::Mul<Uint64> for Uint64 {
    type Output = Uint64;
    #[verifier::external_body]
    fn mul(self, rhs: Uint64) -> (r: Uint64) ensures self.0 * rhs.0 <= u64::MAX { unimplemented!() }
}
impl Timestamp {
    pub fn subsec_nanos(&self) -> (r: u64) ensures r == self.0.0 % 1_000_000_000 { self.0.0 % 1_000_000_000 }
}
// Addr: `String == Addr`, `as_bytes` (the derived `Ord` is in std_adapters.rs, next to `str_cmp`)
impl PartialEqSpecImpl<Addr> for String { open spec fn obeys_eq_spec() -> bool { true } open spec fn eq_spec(&self, o: &Addr) -> bool { self@ == o@ } }
impl PartialEq<Addr> for String { #[verifier::external_body] fn eq(&self, o: &Addr) -> (r: bool) { unimplemented!() } }
impl Addr {
    #[verifier::external_body]
    pub fn as_bytes(&self) -> (r: &[u8]) ensures r@ == utf8(self@) { unimplemented!() }
}
// ---- core::option / core::cmp / core::mem, complete contracts
pub assume_specification<T> [ Option::<Option<T>>::flatten ] (a: Option<Option<T>>) -> (r: Option<T>)
    ensures r == (match a { Some(x) => x, None => None::<T> });
pub assume_specification<T, F: FnOnce() -> Option<T>> [ Option::<T>::or_else ] (a: Option<T>, f: F) -> (r: Option<T>)
    requires a is None ==> f.requires(())
    ensures a is Some ==> r == a, a is None ==> f.ensures((), r);
pub assume_specification<T, U, D: FnOnce() -> U, F: FnOnce(T) -> U> [ Option::<T>::map_or_else ] (a: Option<T>, default: D, f: F) -> (r: U)
    requires a is None ==> default.requires(()), a is Some ==> f.requires((a->Some_0,))
    ensures a is None ==> default.ensures((), r), a is Some ==> f.ensures((a->Some_0,), r);
pub assume_specification<T, F: FnOnce(T) -> bool> [ Option::<T>::is_none_or ] (a: Option<T>, f: F) -> (r: bool)
    requires a is Some ==> f.requires((a->Some_0,))
    ensures a is None ==> r, a is Some ==> f.ensures((a->Some_0,), r);
pub assume_specification<T: Default> [ core::mem::take ] (dest: &mut T) -> (r: T)
    ensures r == *old(dest), call_ensures(T::default, (), *final(dest));
pub assume_specification [ String::as_bytes ] (s: &String) -> (r: &[u8])
    ensures r@ == utf8(s@);
pub assume_specification [ u64::pow ] (a: u64, e: u32) -> (r: u64)
    ensures vstd::arithmetic::power::pow(a as int, e as nat) <= u64::MAX, r == vstd::arithmetic::power::pow(a as int, e as nat);
pub assume_specification [ u128::pow ] (a: u128, e: u32) -> (r: u128)
    ensures vstd::arithmetic::power::pow(a as int, e as nat) <= u128::MAX, r == vstd::arithmetic::power::pow(a as int, e as nat);
pub assume_specification [ u64::div_ceil ] (a: u64, b: u64) -> (r: u64)
    ensures b != 0, r == (a + b - 1) / (b as int);
pub assume_specification [ u128::div_ceil ] (a: u128, b: u128) -> (r: u128)
    ensures b != 0, r == (a + b - 1) / (b as int);
pub assume_specification<T: Ord> [ core::cmp::min ] (a: T, b: T) -> (r: T)
    ensures <T as vstd::std_specs::cmp::OrdSpec>::obeys_cmp_spec() ==> r == (if b.cmp_spec(&a) == core::cmp::Ordering::Less { b } else { a });
pub assume_specification<T> [ <[T]>::reverse ] (v: &mut [T])
    ensures final(v)@ == old(v)@.reverse();
pub assume_specification<T: Clone> [ <[T]>::to_vec ] (v: &[T]) -> (r: Vec<T>)
    ensures r@.len() == v@.len(), forall|i: int| 0 <= i < v@.len() ==> call_ensures(T::clone, (&#[trigger] v@[i],), r@[i]);
impl Uint128 {
    #[verifier::external_body]
    pub fn pow(self, e: u32) -> (r: Uint128)
        ensures vstd::arithmetic::power::pow(self.0 as int, e as nat) <= u128::MAX, r.0 == vstd::arithmetic::power::pow(self.0 as int, e as nat)
    { unimplemented!() }
    pub fn wrapping_add(self, o: Uint128) -> (r: Uint128)
        ensures r.0 == (if self.0 + o.0 <= u128::MAX { (self.0 + o.0) as u128 } else { (self.0 + o.0 - 0x1_0000_0000_0000_0000_0000_0000_0000_0000) as u128 })
    { Uint128(self.0.wrapping_add(o.0)) }
}
} // verus!
