// shim/cw_utils.rs -- cw-utils 2.0.0: Expiration / Duration.
// Bodies are transcribed from cw-utils-2.0.0/src/expiration.rs and verified here against
// the stated contracts; that the transcription matches the dependency is an assumption.
verus! {

#[derive(Clone, Copy)]
pub enum Expiration { AtHeight(u64), AtTime(Timestamp), Never {} }
impl PartialEqSpecImpl for Expiration { open spec fn obeys_eq_spec() -> bool { true } open spec fn eq_spec(&self, o: &Expiration) -> bool { *self == *o } }
impl PartialEq for Expiration { #[verifier::external_body] fn eq(&self, o: &Expiration) -> (r: bool) { unimplemented!() } }
impl core::default::Default for Expiration { fn default() -> (r: Self) ensures r == (Expiration::Never {}) { Expiration::Never {} } }
impl Expiration {
    pub open spec fn expired(self, b: &BlockInfo) -> bool {
        match self {
            Expiration::AtHeight(h) => b.height >= h,
            Expiration::AtTime(t) => b.time.0.0 >= t.0.0,
            Expiration::Never {} => false,
        }
    }
    pub fn is_expired(&self, block: &BlockInfo) -> (r: bool) ensures r == self.expired(block) {
        match self {
            Expiration::AtHeight(height) => block.height >= *height,
            Expiration::AtTime(time) => block.time.0.0 >= time.0.0,
            Expiration::Never {} => false,
        }
    }
    /// `a <= b` in the partial order of cw-utils (None when a height is compared with a time)
    pub open spec fn le_spec(self, o: Expiration) -> bool {
        match (self, o) {
            (Expiration::AtHeight(h1), Expiration::AtHeight(h2)) => h1 <= h2,
            (Expiration::AtTime(t1), Expiration::AtTime(t2)) => t1.0.0 <= t2.0.0,
            (_, Expiration::Never {}) => true,
            _ => false,
        }
    }
    pub open spec fn comparable(self, o: Expiration) -> bool {
        match (self, o) {
            (Expiration::AtHeight(_), Expiration::AtTime(_)) => false,
            (Expiration::AtTime(_), Expiration::AtHeight(_)) => false,
            _ => true,
        }
    }
}
impl PartialOrdSpecImpl for Expiration {
    open spec fn obeys_partial_cmp_spec() -> bool { true }
    open spec fn partial_cmp_spec(&self, o: &Expiration) -> Option<core::cmp::Ordering> {
        match (*self, *o) {
            (Expiration::AtHeight(h1), Expiration::AtHeight(h2)) => Some(if h1 < h2 { core::cmp::Ordering::Less } else if h1 == h2 { core::cmp::Ordering::Equal } else { core::cmp::Ordering::Greater }),
            (Expiration::AtTime(t1), Expiration::AtTime(t2)) => Some(if t1.0.0 < t2.0.0 { core::cmp::Ordering::Less } else if t1.0.0 == t2.0.0 { core::cmp::Ordering::Equal } else { core::cmp::Ordering::Greater }),
            (Expiration::Never {}, Expiration::Never {}) => Some(core::cmp::Ordering::Equal),
            (Expiration::Never {}, _) => Some(core::cmp::Ordering::Greater),
            (_, Expiration::Never {}) => Some(core::cmp::Ordering::Less),
            _ => None,
        }
    }
}
impl PartialOrd for Expiration {
    #[verifier::external_body]
    fn partial_cmp(&self, o: &Expiration) -> (r: Option<core::cmp::Ordering>) { unimplemented!() }
}

#[derive(Clone, Copy)]
pub enum Duration { Height(u64), Time(u64) }
impl PartialEqSpecImpl for Duration { open spec fn obeys_eq_spec() -> bool { true } open spec fn eq_spec(&self, o: &Duration) -> bool { *self == *o } }
impl PartialEq for Duration { #[verifier::external_body] fn eq(&self, o: &Duration) -> (r: bool) { unimplemented!() } }
impl Duration {
    pub open spec fn after_spec(self, b: &BlockInfo) -> Expiration {
        match self {
            Duration::Height(h) => Expiration::AtHeight((b.height + h) as u64),
            Duration::Time(t) => Expiration::AtTime(Timestamp(Uint64((b.time.0.0 + t * 1_000_000_000) as u64))),
        }
    }
    /// partial correctness: `block.height + h` and `plus_seconds` panic on overflow (A1)
    #[verifier::external_body]
    pub fn after(&self, block: &BlockInfo) -> (r: Expiration)
        ensures r == self.after_spec(block),
            self is Height ==> block.height + self->Height_0 <= u64::MAX,
            self is Time ==> block.time.0.0 + self->Time_0 * 1_000_000_000 <= u64::MAX,
    { unimplemented!() }
}


// ---- payment.rs (ASSUMED contracts; source: cw-utils-2.0.0/src/payment.rs)
pub enum PaymentError { MissingDenom(String), ExtraDenom(String), MultipleDenoms {}, NoFunds {}, NonPayable {} }
/// must_pay: exactly one coin, non-zero, of the given denom
pub open spec fn paid_exactly(funds: Seq<Coin>, denom: Seq<char>) -> Option<Uint128> {
    if funds.len() == 1 && funds[0].amount.0 != 0 && funds[0].denom@ == denom { Some(funds[0].amount) } else { None }
}
#[verifier::external_body]
pub fn must_pay(info: &MessageInfo, denom: &str) -> (r: Result<Uint128, PaymentError>)
    ensures r is Ok <==> paid_exactly(info.funds@, denom@) is Some,
            r is Ok ==> Some(r->Ok_0) == paid_exactly(info.funds@, denom@),
{ unimplemented!() }
/// one_coin: exactly one coin, non-zero
#[verifier::external_body]
pub fn one_coin(info: &MessageInfo) -> (r: Result<Coin, PaymentError>)
    ensures r is Ok <==> info.funds@.len() == 1 && info.funds@[0].amount.0 != 0, r is Ok ==> r->Ok_0 == info.funds@[0],
{ unimplemented!() }
#[verifier::external_body]
pub fn nonpayable(info: &MessageInfo) -> (r: Result<(), PaymentError>)
    ensures r is Ok <==> info.funds@.len() == 0
{ unimplemented!() }
/// pagination.rs maybe_addr
#[verifier::external_body]
pub fn maybe_addr(api: &dyn Api, human: Option<String>) -> (r: StdResult<Option<Addr>>)
    ensures r is Ok ==> (human is None ==> r->Ok_0 is None) && (human is Some ==> r->Ok_0 is Some && r->Ok_0->Some_0@ == human->Some_0@)
{ unimplemented!() }


// ---- balance.rs: NativeBalance (ASSUMED contracts; source: cw-utils-2.0.0/src/balance.rs).
// Abstract view: `amt(d)` = amount held in denom d; `wf()` = denoms pairwise distinct (kept by every operation below).
// The result of the sequential subtraction `sub(Vec<Coin>)` is the uninterpreted function `nb_sub`; its success
// condition is the uninterpreted predicate `nb_sub_ok`; only the facts stated in `ax_nb_sub` are known about them.
pub struct NativeBalance(pub Vec<Coin>);
impl Clone for NativeBalance { #[verifier::external_body] fn clone(&self) -> (r: Self) ensures r == *self { unimplemented!() } }
impl PartialEqSpecImpl for NativeBalance { open spec fn obeys_eq_spec() -> bool { true } open spec fn eq_spec(&self, o: &NativeBalance) -> bool { *self == *o } }
impl PartialEq for NativeBalance { #[verifier::external_body] fn eq(&self, o: &NativeBalance) -> (r: bool) { unimplemented!() } }
impl core::default::Default for NativeBalance {
    #[verifier::external_body]
    fn default() -> (r: Self) ensures r.0@.len() == 0, r.wf(), forall|d: Seq<char>| r.amt(d) == 0 { unimplemented!() }
}
pub open spec fn coins_total(c: Seq<Coin>, d: Seq<char>) -> nat decreases c.len() {
    if c.len() == 0 { 0 } else { coins_total(c.drop_last(), d) + (if c.last().denom@ == d { c.last().amount@ } else { 0 }) }
}
pub uninterp spec fn nb_sub_ok(b: NativeBalance, c: Seq<Coin>) -> bool;
pub uninterp spec fn nb_sub(b: NativeBalance, c: Seq<Coin>) -> NativeBalance;
impl NativeBalance {
    pub uninterp spec fn amt(&self, d: Seq<char>) -> nat;
    pub uninterp spec fn wf(&self) -> bool;
    /// saturating subtraction of one coin; error if the denom is not held at all
    #[verifier::external_body]
    pub fn sub_saturating(self, other: Coin) -> (r: StdResult<NativeBalance>)
        requires self.wf()
        ensures r is Ok ==> r->Ok_0.wf()
            && r->Ok_0.amt(other.denom@) == (if self.amt(other.denom@) >= other.amount@ { self.amt(other.denom@) - other.amount@ } else { 0 })
            && (forall|d: Seq<char>| d != other.denom@ ==> r->Ok_0.amt(d) == self.amt(d)),
    { unimplemented!() }
    /// `+= Coin` (Uint128 `+` panics on overflow: partial)
    #[verifier::external_body]
    pub fn add_assign(&mut self, other: Coin)
        requires old(self).wf()
        ensures final(self).wf(), final(self).amt(other.denom@) == old(self).amt(other.denom@) + other.amount@,
            forall|d: Seq<char>| d != other.denom@ ==> final(self).amt(d) == old(self).amt(d),
    { unimplemented!() }
    #[verifier::external_body]
    pub fn is_empty(&self) -> (r: bool)
        ensures r ==> forall|d: Seq<char>| self.amt(d) == 0
    { unimplemented!() }
}
/// `balance - Vec<Coin>` (std::ops::Sub): coin by coin; any underflow or missing denom is an error
impl SubSpecImpl<Vec<Coin>> for NativeBalance {
    open spec fn obeys_sub_spec() -> bool { false }
    open spec fn sub_req(self, rhs: Vec<Coin>) -> bool { true }
    uninterp spec fn sub_spec(self, rhs: Vec<Coin>) -> StdResult<NativeBalance>;
}
impl core::ops::Sub<Vec<Coin>> for NativeBalance {
    type Output = StdResult<NativeBalance>;
    #[verifier::external_body]
    fn sub(self, amount: Vec<Coin>) -> (r: StdResult<NativeBalance>)
        ensures r is Ok <==> nb_sub_ok(self, amount@), r is Ok ==> r->Ok_0 == nb_sub(self, amount@),
    { unimplemented!() }
}
/// `balance - Coin`: the same with a single coin
impl SubSpecImpl<Coin> for NativeBalance {
    open spec fn obeys_sub_spec() -> bool { false }
    open spec fn sub_req(self, rhs: Coin) -> bool { true }
    uninterp spec fn sub_spec(self, rhs: Coin) -> StdResult<NativeBalance>;
}
impl core::ops::Sub<Coin> for NativeBalance {
    type Output = StdResult<NativeBalance>;
    #[verifier::external_body]
    fn sub(self, other: Coin) -> (r: StdResult<NativeBalance>)
        ensures r is Ok <==> nb_sub_ok(self, seq![other]), r is Ok ==> r->Ok_0 == nb_sub(self, seq![other]),
    { unimplemented!() }
}
/// facts about the sequential subtraction on well-formed balances
pub broadcast axiom fn ax_nb_sub(b: NativeBalance, c: Seq<Coin>)
    requires b.wf(), nb_sub_ok(b, c)
    ensures (#[trigger] nb_sub(b, c)).wf(),
        forall|d: Seq<char>| coins_total(c, d) <= b.amt(d) && nb_sub(b, c).amt(d) == b.amt(d) - coins_total(c, d);

} // verus!
