// shim/cw_utils.rs -- cw-utils 2.0.0: Expiration / Duration.
// Bodies are transcribed from cw-utils-2.0.0/src/expiration.rs and verified here against
// the stated contracts; that the transcription matches the dependency is an assumption.
verus! {

#[derive(Clone, Copy)]
pub enum Expiration { AtHeight(u64), AtTime(Timestamp), Never {} }
impl PartialEqSpecImpl for Expiration { open spec fn obeys_eq_spec() -> bool { true } open spec fn eq_spec(&self, o: &Expiration) -> bool { *self == *o } }
impl PartialEq for Expiration { #[verifier::external_body] fn eq(&self, o: &Expiration) -> (r: bool) { unimplemented!() } }
impl core::default::Default for Expiration { fn default() -> (r: Self) ensures r == (Expiration::Never {}) { Expiration::Never {} } }
impl Expiration {
    pub open spec fn expired(self, b: &BlockInfo) -> bool {
        match self {
            Expiration::AtHeight(h) => b.height >= h,
            Expiration::AtTime(t) => b.time.0.0 >= t.0.0,
            Expiration::Never {} => false,
        }
    }
    pub fn is_expired(&self, block: &BlockInfo) -> (r: bool) ensures r == self.expired(block) {
        match self {
            Expiration::AtHeight(height) => block.height >= *height,
            Expiration::AtTime(time) => block.time.0.0 >= time.0.0,
            Expiration::Never {} => false,
        }
    }
    /// `a <= b` in the partial order of cw-utils (None when a height is compared with a time)
    pub open spec fn le_spec(self, o: Expiration) -> bool {
        match (self, o) {
            (Expiration::AtHeight(h1), Expiration::AtHeight(h2)) => h1 <= h2,
            (Expiration::AtTime(t1), Expiration::AtTime(t2)) => t1.0.0 <= t2.0.0,
            (_, Expiration::Never {}) => true,
            _ => false,
        }
    }
    pub open spec fn comparable(self, o: Expiration) -> bool {
        match (self, o) {
            (Expiration::AtHeight(_), Expiration::AtTime(_)) => false,
            (Expiration::AtTime(_), Expiration::AtHeight(_)) => false,
            _ => true,
        }
    }
}
impl PartialOrdSpecImpl for Expiration {
    open spec fn obeys_partial_cmp_spec() -> bool { true }
    open spec fn partial_cmp_spec(&self, o: &Expiration) -> Option<core::cmp::Ordering> {
        match (*self, *o) {
            (Expiration::AtHeight(h1), Expiration::AtHeight(h2)) => Some(if h1 < h2 { core::cmp::Ordering::Less } else if h1 == h2 { core::cmp::Ordering::Equal } else { core::cmp::Ordering::Greater }),
            (Expiration::AtTime(t1), Expiration::AtTime(t2)) => Some(if t1.0.0 < t2.0.0 { core::cmp::Ordering::Less } else if t1.0.0 == t2.0.0 { core::cmp::Ordering::Equal } else { core::cmp::Ordering::Greater }),
            (Expiration::Never {}, Expiration::Never {}) => Some(core::cmp::Ordering::Equal),
            (Expiration::Never {}, _) => Some(core::cmp::Ordering::Greater),
            (_, Expiration::Never {}) => Some(core::cmp::Ordering::Less),
            _ => None,
        }
    }
}
impl PartialOrd for Expiration {
    #[verifier::external_body]
    fn partial_cmp(&self, o: &Expiration) -> (r: Option<core::cmp::Ordering>) { unimplemented!() }
}

#[derive(Clone, Copy)]
pub enum Duration { Height(u64), Time(u64) }
impl PartialEqSpecImpl for Duration { open spec fn obeys_eq_spec() -> bool { true } open spec fn eq_spec(&self, o: &Duration) -> bool { *self == *o } }
impl PartialEq for Duration { #[verifier::external_body] fn eq(&self, o: &Duration) -> (r: bool) { unimplemented!() } }
impl Duration {
    pub open spec fn after_spec(self, b: &BlockInfo) -> Expiration {
        match self {
            Duration::Height(h) => Expiration::AtHeight((b.height + h) as u64),
            Duration::Time(t) => Expiration::AtTime(Timestamp(Uint64((b.time.0.0 + t * 1_000_000_000) as u64))),
        }
    }
    /// partial correctness: `block.height + h` and `plus_seconds` panic on overflow (A1)
    #[verifier::external_body]
    pub fn after(&self, block: &BlockInfo) -> (r: Expiration)
        ensures r == self.after_spec(block),
            self is Height ==> block.height + self->Height_0 <= u64::MAX,
            self is Time ==> block.time.0.0 + self->Time_0 * 1_000_000_000 <= u64::MAX,
    { unimplemented!() }
}


// ---- payment.rs (ASSUMED contracts; source: cw-utils-2.0.0/src/payment.rs)
pub enum PaymentError { MissingDenom(String), ExtraDenom(String), MultipleDenoms {}, NoFunds {}, NonPayable {} }
/// must_pay: exactly one coin, non-zero, of the given denom
pub open spec fn paid_exactly(funds: Seq<Coin>, denom: Seq<char>) -> Option<Uint128> {
    if funds.len() == 1 && funds[0].amount.0 != 0 && funds[0].denom@ == denom { Some(funds[0].amount) } else { None }
}
#[verifier::external_body]
pub fn must_pay(info: &MessageInfo, denom: &str) -> (r: Result<Uint128, PaymentError>)
    ensures r is Ok <==> paid_exactly(info.funds@, denom@) is Some,
            r is Ok ==> Some(r->Ok_0) == paid_exactly(info.funds@, denom@),
{ unimplemented!() }
#[verifier::external_body]
pub fn nonpayable(info: &MessageInfo) -> (r: Result<(), PaymentError>)
    ensures r is Ok <==> info.funds@.len() == 0
{ unimplemented!() }
/// pagination.rs maybe_addr
#[verifier::external_body]
pub fn maybe_addr(api: &dyn Api, human: Option<String>) -> (r: StdResult<Option<Addr>>)
    ensures r is Ok ==> (human is None ==> r->Ok_0 is None) && (human is Some ==> r->Ok_0 is Some && r->Ok_0->Some_0@ == human->Some_0@)
{ unimplemented!() }

} // verus!
