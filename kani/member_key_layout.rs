    /// C09 (BOUNDED: addresses of at most 4 bytes): `member_key(addr)` has the raw-key layout of cw-storage-plus 2.0 for
    /// MEMBERS[addr]: 2-byte big-endian length of the namespace, the namespace "members", then the address bytes
    #[kani::proof]
    #[kani::unwind(9)]
    fn member_key_layout() {
        let bytes: [u8; 4] = kani::any();
        let len: usize = kani::any();
        kani::assume(len <= 4);
        let b = &bytes[..len];
        kani::assume(core::str::from_utf8(b).is_ok());
        let s = core::str::from_utf8(b).unwrap();
        let k = member_key(s);
        assert!(k.len() == 2 + MEMBERS_KEY.len() + len);
        assert!(k[0] == 0 && k[1] as usize == MEMBERS_KEY.len());
        assert!(&k[2..2 + MEMBERS_KEY.len()] == MEMBERS_KEY.as_bytes());
        assert!(&k[2 + MEMBERS_KEY.len()..] == b);
    }
