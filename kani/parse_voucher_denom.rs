    /// C11 (BOUNDED: ASCII voucher denominations of at most 6 bytes, port and channel ids of at most 2 bytes):
    /// Ok(x) => voucher == port + "/" + channel + "/" + x
    #[kani::proof]
    #[kani::unwind(8)]
    fn parse_voucher_denom_bounded() {
        let vb: [u8; 6] = kani::any();
        let vl: usize = kani::any();
        kani::assume(vl <= 6);
        let pb: [u8; 2] = kani::any();
        let pl: usize = kani::any();
        kani::assume(pl <= 2);
        let cb: [u8; 2] = kani::any();
        let cl: usize = kani::any();
        kani::assume(cl <= 2);
        let mut i = 0;
        while i < 6 { kani::assume(vb[i] < 128); i += 1; }
        kani::assume(pb[0] < 128 && pb[1] < 128 && cb[0] < 128 && cb[1] < 128);
        let v = core::str::from_utf8(&vb[..vl]).unwrap();
        let ep = IbcEndpoint { port_id: core::str::from_utf8(&pb[..pl]).unwrap().to_string(), channel_id: core::str::from_utf8(&cb[..cl]).unwrap().to_string() };
        if let Ok(x) = parse_voucher_denom(v, &ep) {
            let xb = x.as_bytes();
            assert!(vl == pl + 1 + cl + 1 + xb.len());
            assert!(&vb[..pl] == &pb[..pl] && vb[pl] == b'/');
            assert!(&vb[pl + 1..pl + 1 + cl] == &cb[..cl] && vb[pl + 1 + cl] == b'/');
            assert!(&vb[pl + cl + 2..vl] == xb);
        }
    }
