    /// C09 (BOUNDED: addresses of at most 2 bytes): `member_key(addr)` is byte for byte the raw storage key under which
    /// cw-storage-plus 2.0 stores MEMBERS[addr] (compared with the key computed by the real `Map::key`), i.e. a raw query
    /// with it reads the same entry as the smart Member query
    #[kani::proof]
    #[kani::unwind(13)]
    fn member_key_matches_map_key() {
        let bytes: [u8; 2] = kani::any();
        let len: usize = kani::any();
        kani::assume(len <= 2);
        let b = &bytes[..len];
        kani::assume(core::str::from_utf8(b).is_ok());
        let s = core::str::from_utf8(b).unwrap();
        let k = member_key(s);
        // documented layout: 2-byte big-endian namespace length, namespace, key bytes
        assert!(k.len() == 2 + MEMBERS_KEY.len() + len);
        assert!(k[0] == 0 && k[1] as usize == MEMBERS_KEY.len());
        assert!(&k[2..2 + MEMBERS_KEY.len()] == MEMBERS_KEY.as_bytes());
        assert!(&k[2 + MEMBERS_KEY.len()..] == b);
        // and the same bytes as the dependency computes for a Map with that namespace
        let real = cw_storage_plus::Map::<&str, u64>::new(MEMBERS_KEY).key(s);
        let rk: &[u8] = &real;
        assert!(rk == &k[..]);
    }
