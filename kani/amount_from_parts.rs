    /// C11 (BOUNDED: ASCII denominations of at most 7 bytes): a denomination starting with "cw20:" becomes the cw20 token whose
    /// address is the rest, anything else a native coin of that denomination; the amount is kept
    #[kani::proof]
    #[kani::unwind(9)]
    fn amount_from_parts_bounded() {
        let db: [u8; 7] = kani::any();
        let dl: usize = kani::any();
        kani::assume(dl <= 7);
        let mut i = 0;
        while i < 7 { kani::assume(db[i] < 128); i += 1; }
        let amt: u128 = kani::any();
        let d = core::str::from_utf8(&db[..dl]).unwrap().to_string();
        let is_cw20 = dl >= 5 && &db[..5] == b"cw20:";
        match Amount::from_parts(d, Uint128::new(amt)) {
            Amount::Cw20(c) => { assert!(is_cw20); assert!(c.address.as_bytes() == &db[5..dl]); assert!(c.amount.u128() == amt); }
            Amount::Native(c) => { assert!(!is_cw20); assert!(c.denom.as_bytes() == &db[..dl]); assert!(c.amount.u128() == amt); }
        }
    }
