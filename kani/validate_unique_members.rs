    /// C09 / C14 (BOUNDED: exactly 3 members, one-byte ASCII addresses): Ok => the addresses are pairwise distinct and the
    /// slice is a permutation of the input; Err => two members share an address
    #[kani::proof]
    #[kani::unwind(5)]
    fn validate_unique_members_bounded() {
        let a: [u8; 3] = kani::any();
        let w: [u64; 3] = kani::any();
        kani::assume(a[0] < 128 && a[1] < 128 && a[2] < 128);
        let mk = |i: usize| Member { addr: String::from_utf8(vec![a[i]]).unwrap(), weight: w[i] };
        let mut ms = vec![mk(0), mk(1), mk(2)];
        let dup = a[0] == a[1] || a[0] == a[2] || a[1] == a[2];
        let r = validate_unique_members(&mut ms);
        assert!(r.is_ok() == !dup);
        if r.is_ok() {
            assert!(ms.len() == 3);
            assert!(ms[0].addr != ms[1].addr && ms[0].addr != ms[2].addr && ms[1].addr != ms[2].addr);
            // permutation: every input member is still present with its weight
            let mut i = 0;
            while i < 3 {
                let b = a[i];
                assert!(ms.iter().any(|m| m.addr.as_bytes()[0] == b && m.weight == w[i]));
                i += 1;
            }
        }
    }
